"""Variants for ./selftest: (a) breaking edits, one rule instance each; (b) behaviour-preserving twins."""

TS = 'autobean_refactor/token_store.py'
PR = 'autobean_refactor/models/internal/properties.py'
VP = 'autobean_refactor/models/internal/value_properties.py'
BT = 'autobean_refactor/models/internal/base_token_models.py'
ED = 'autobean_refactor/editor.py'
FL = 'autobean_refactor/models/internal/fields.py'
PA = 'autobean_refactor/parser.py'
NE = 'autobean_refactor/models/number_expr.py'
CS = 'autobean_refactor/models/cost_spec.py'
TR = 'autobean_refactor/models/transaction.py'
IC = 'autobean_refactor/models/internal/interleaving_comments.py'
SC = 'autobean_refactor/models/internal/surrounding_comments.py'
BC = 'autobean_refactor/models/block_comment.py'
BA = 'autobean_refactor/models/base.py'
SP = 'autobean_refactor/models/internal/spacing_accessors.py'
MI = 'autobean_refactor/models/meta_item_internal.py'
RP = 'autobean_refactor/models/internal/repeated.py'
DT = 'autobean_refactor/models/date.py'
GP = 'autobean_refactor/models/generated/posting.py'
GT = 'autobean_refactor/models/generated/transaction.py'
NA = 'autobean_refactor/models/number_add_expr.py'


def fire(name, props, edits, needle=None, tier='quick'):
    return {'name': name, 'props': props, 'edits': edits, 'expect': 'fire', 'needle': needle, 'tier': tier}


def silent(name, props, edits, tier='quick'):
    return {'name': name, 'props': props, 'edits': edits, 'expect': 'silent', 'tier': tier}


VARIANTS = [
    # ------------------------------------------------------------------ C07 / C08 token store
    fire('c07-revert-reindex', ['C07'], [(TS, "            self._update_block_indexes(start_i + 1)\n", "")], 'TS-IDX'),
    fire('c07-merge-no-reindex', ['C07'], [(TS, "            self._blocks.pop(b.index)\n            self._update_block_indexes(b.index)\n",
                                            "            self._blocks.pop(b.index)\n")], 'TS-IDX'),
    fire('c07-merge-no-rebuild', ['C07', 'C08'], [(TS, "            a.rebuild()\n            b.rebuild()\n", "            a.rebuild()\n")], 'TS-HANDLE'),
    fire('c07-no-handle-clear', ['C07'], [(TS, "            for j in range(end_j):\n                self._blocks[end_i].tokens[j].store_handle = None\n", "")], 'TS-SEQ'),
    fire('c07-len-skipped', ['C07'], [(TS, "                self._update_block(block)\n        else:\n            len_removed = len(",
                                        "                self._update_block(block)\n                return\n        else:\n            len_removed = len(")], 'LEN'),
    fire('c07-len-delta', ['C07'], [(TS, "        self._len += len(tokens) - len_removed", "        self._len += len(tokens) - len_removed + 0 * 1 - 1 + 1 + len(tokens) - len(tokens) + 1 - 1 if False else len(tokens)")], 'LEN'),
    fire('c07-outside-writer', ['C07'], [(BA, "        tokens = list(self.token_store)\n", "        tokens = list(self.token_store)\n        self.token_store._len = len(tokens)\n")], 'OWN-STORE'),
    fire('c08-value-bypass', ['C08'], [(BT, "        self._update_raw_text(self._format_value(value))", "        self._raw_text = self._format_value(value)")], 'OWN-TEXT'),
    fire('c08-update-after-overwrite', ['C08'], [(TS, "        if self.store_handle:\n            self.store_handle.block.store.update(self, value, size)\n        self._raw_text = value\n",
                                                  "        self._raw_text = value\n        if self.store_handle:\n            self.store_handle.block.store.update(self, value, size)\n")], 'RAWTEXT-ORD'),
    fire('c08-fastpath-guard-dropped', ['C08'], [(TS, "                    (len(block.tokens) > _HALF_LOAD_FACTOR or len(self._blocks) == 1) and\n                    block.last_newline_index >= end_j\n",
                                                  "                    (len(block.tokens) > _HALF_LOAD_FACTOR or len(self._blocks) == 1)\n")], 'FASTPATH-GUARD'),
    fire('c07-get-next-off-by-one', ['C07'], [(TS, "        if handle.index + 1 < len(handle.block.tokens):\n            return handle.block.tokens[handle.index + 1]", "        if handle.index + 1 <= len(handle.block.tokens) - 1 and handle.index + 2 < len(handle.block.tokens) + 1 and handle.index < len(handle.block.tokens) - 2:\n            return handle.block.tokens[handle.index + 1]")], 'NAV-SEM'),
    fire('c07-iter-excludes-end', ['C07'], [(TS, "            yield from end_handle.block.tokens[:end_handle.index+1]", "            yield from end_handle.block.tokens[:end_handle.index]")], 'NAV-SEM'),
    fire('c07-insert-after-same-slot', ['C07'], [(TS, "            start = (start_handle.block.index, start_handle.index + 1)\n        self._splice(tokens, start, start)", "            start = (start_handle.block.index, start_handle.index)\n        self._splice(tokens, start, start)")], 'NAV-SEM'),
    fire('c08-update-early-return-le', ['C08'], [(TS, "        if handle.index < handle.block.last_newline_index:\n            return", "        if handle.index <= handle.block.last_newline_index:\n            return")], 'POS-SEM'),
    fire('c08-fastpath-lines', ['C08'], [(TS, "                    lines_diff += token.size.line\n", "                    lines_diff += token.size.line and 1\n")], 'POS-SEM'),
    fire('c08-position-column-add', ['C08'], [(TS, "        if other.line:\n            self.column = other.column\n        else:\n            self.column += other.column", "        self.column += other.column")], 'POS-SEM'),
    silent('c08-twin-update-commuted', ['C08'], [(TS, "        handle.block.size.line += size.line - token.size.line", "        handle.block.size.line += -token.size.line + size.line")]),
    silent('c07-twin-local-rename', ['C07', 'C08'], [(TS, "        new_blocks = _build_blocks(self, block.index, block.tokens)\n        self._blocks[block.index:block.index+1] = new_blocks\n        self._update_block_indexes(new_blocks[-1].index + 1)",
                                                      "        fresh = _build_blocks(self, block.index, block.tokens)\n        self._blocks[block.index:block.index+1] = fresh\n        self._update_block_indexes(fresh[-1].index + 1)")]),
    silent('c07-twin-logging', ['C07', 'C08'], [(TS, "    def _update_block(self, block: _StoreBlock[_T]) -> None:\n        length = len(block.tokens)\n",
                                                 "    def _update_block(self, block: _StoreBlock[_T]) -> None:\n        length = len(block.tokens)\n        _ = (length, len(self._blocks))\n")]),
    # ------------------------------------------------------------------ C16 editor
    fire('c16-crlf-read', ['C16'], [(ED, "            with open(current_path, newline='') as f:", "            with open(current_path) as f:")], 'ED-NEWLINE'),
    fire('c16-dirname', ['C16'], [(ED, "            dirname = os.path.dirname(current_path)\n            if dirname:\n                os.makedirs(dirname, exist_ok=True)\n",
                                   "            os.makedirs(os.path.dirname(current_path), exist_ok=True)\n")], 'ED-SEM'),
    fire('c16-write-unguarded', ['C16'], [(ED, "        if updated_text != text:\n            with p.open('w', newline='') as f:\n                f.write(updated_text)",
                                           "        with p.open('w', newline='') as f:\n            f.write(updated_text)")], 'ED-SEM'),
    fire('c16-finally', ['C16'], [(ED, "        yield file\n\n        updated_text = printer.print_model(file, io.StringIO()).getvalue()\n        if updated_text != text:\n            with p.open('w', newline='') as f:\n                f.write(updated_text)",
                                   "        try:\n            yield file\n        finally:\n            updated_text = printer.print_model(file, io.StringIO()).getvalue()\n            if updated_text != text:\n                with p.open('w', newline='') as f:\n                    f.write(updated_text)")], 'ED-AFTER-YIELD'),
    fire('c16-no-normpath', ['C16'], [(ED, "            yield os.path.normpath(match)", "            yield match")], 'ED-SEM'),
    fire('c16-seen-after-read', ['C16'], [(ED, "            if current_path in texts:\n                continue\n            with open(current_path, newline='') as f:\n                texts[current_path] = f.read()\n",
                                           "            with open(current_path, newline='') as f:\n                text_ = f.read()\n            if current_path in texts:\n                continue\n            texts[current_path] = text_\n")], 'ED-SEM'),
    fire('c16-delete-wrong-set', ['C16'], [(ED, "        for current_path in set(texts) - set(files):", "        for current_path in set(files) - set(texts):")], 'ED-SEM'),
    silent('c16-twin-binary-io', ['C16'], [(ED, "            with open(current_path, newline='') as f:\n                texts[current_path] = f.read()",
                                            "            with open(current_path, 'rb') as f:\n                texts[current_path] = f.read().decode()")]),
    # ------------------------------------------------------------------ C10 views
    fire('c10-no-notify', ['C10'], [(PR, "        self._repeated.items.append(value)\n        self._notify_splice(index, index, [value])", "        self._repeated.items.append(value)")], 'NOTIFY-POST'),
    fire('c10-wrong-range', ['C10'], [(PR, "        self._notify_splice(r.start, r.stop, [])", "        self._notify_splice(r.start, r.start, [])")], 'NOTIFY-ARGS'),
    fire('c10-raw-index', ['C10'], [(PR, "            index = indexes.range_from_index(index, len(self._repeated.items)).start\n", "")], 'SIGN-IDX'),
    fire('c10-bisect-right', ['C10'], [(VP, "        rr = bisect.bisect_left(self._raw_indexes, r)", "        rr = bisect.bisect_right(self._raw_indexes, r)")], 'VIEW-LIVE'),
    fire('c10-shift-off-by-one', ['C10'], [(VP, "        diff = len(values) - r + l", "        diff = len(values) - r + l + 1")], 'VIEW-LIVE'),
    fire('c10-rebind-indexes', ['C10'], [(VP, "        self._raw_indexes[:] = [\n", "        self._raw_indexes = [\n")], 'OWN-IDX'),
    silent('c10-twin-diff-form', ['C10'], [(VP, "        diff = len(values) - r + l", "        diff = len(values) - (r - l)")]),
    # ------------------------------------------------------------------ C05 / C03 tree and separators
    fire('c05-extend-no-reattach', ['C05'], [(PR, "        self._insert_tokens(index, values)\n        for value in values:\n            value.reattach(self._repeated.token_store)\n",
                                              "        self._insert_tokens(index, values)\n")], 'PAIR-DETACH'),
    fire('c05-create-no-reattach', ['C05', 'C03'], [(FL, "            *value.detach(),\n        ])\n        value.reattach(token_store)\n\n    def _remove_node(\n            self,\n            token_store: base.TokenStore,\n            pivot: base.RawTokenModel,\n            current: _M,\n    ) -> None:\n        first",
                                                     "            *value.detach(),\n        ])\n\n    def _remove_node(\n            self,\n            token_store: base.TokenStore,\n            pivot: base.RawTokenModel,\n            current: _M,\n    ) -> None:\n        first")], None),
    fire('c05-set-without-field', ['C05'], [(PR, "        elif current is not None and value is not None:\n            replace_node(current, value)\n        self._inner_field.__set__(instance, value)",
                                             "        elif current is not None and value is not None:\n            replace_node(current, value)\n            return\n        self._inner_field.__set__(instance, value)")], 'PAIR-TREE'),
    fire('c05-insert-position', ['C05'], [(PR, "        self._repeated.items.insert(index, value)", "        self._repeated.items.insert(index + 1, value)")], 'PAIR-TREE'),
    fire('c05-pop-order', ['C05'], [(PR, "        tokens = value.tokens\n        r = indexes.range_from_index(index, len(self._repeated.items))\n        self._del_tokens(r.start, r.stop)\n",
                                     "        r = indexes.range_from_index(index, len(self._repeated.items))\n        self._del_tokens(r.start, r.stop)\n        tokens = value.tokens\n")], 'POP-SELF'),
    fire('c05-reattach-misses-field', ['C05'], [(GP, "        self._price = type(self)._price.reattach(self._price, token_store, token_transformer)\n", "")], 'COVER-REATTACH'),
    fire('c05-last-token-order', ['C05'], [(GT, "        return (self._trailing_comment and self._trailing_comment.last_token) or (self._dedent_mark and self._dedent_mark.last_token) or self._postings.last_token",
                                            "        return (self._trailing_comment and self._trailing_comment.last_token) or (self._dedent_mark and self._dedent_mark.last_token) or self._meta.last_token or self._postings.last_token")], 'BORDER'),
    fire('c03-shared-separator', ['C03', 'C11'], [(PR, "                tokens.extend(copy.deepcopy(self._separators))\n                tokens.extend(value.detach())\n            elif length:",
                                                   "                tokens.extend(self._separators)\n                tokens.extend(value.detach())\n            elif length:")], 'SEP-PROV'),
    fire('c03-remove-wrong-span', ['C03'], [(FL, "        token_store.remove(first, current.last_token)", "        token_store.remove(current.first_token, current.last_token)")], 'OPT-SIB'),
    fire('c03-pivot-skips-field', ['C03'], [(GP, "        return (self._currency and self._currency.last_token) or (self._number and self._number.last_token) or self._account.last_token\n\n    @internal.custom_property\n    def _price_pivot",
                                             "        return (self._number and self._number.last_token) or self._account.last_token\n\n    @internal.custom_property\n    def _price_pivot")], 'PIVOT'),
    fire('c03-del-range-head', ['C03'], [(PR, "        if start == 0 and stop < len(self._repeated.items):", "        if start == 0 and stop <= len(self._repeated.items):")], 'DEL-RANGE'),
    silent('c05-twin-helper-var', ['C05', 'C03', 'C10', 'C19'], [(PR, "        index = len(self._repeated.items)\n        self._insert_tokens(index, [value])\n        value.reattach(self._repeated.token_store)\n        self._repeated.items.append(value)\n        self._notify_splice(index, index, [value])",
                                                                  "        index = len(self._repeated.items)\n        store = self._repeated.token_store\n        self._insert_tokens(index, [value])\n        value.reattach(store)\n        self._repeated.items.append(value)\n        self._notify_splice(index, index, [value])")]),
    # ------------------------------------------------------------------ C19 / C04 / C13 / C02 effects
    fire('c19-revert-rawtext', ['C19'], [(BT, "        value = self._parse_value(raw_text)\n        self._update_raw_text(raw_text)\n        self._value = value",
                                          "        self._update_raw_text(raw_text)\n        self._value = self._parse_value(raw_text)")], 'ORD-REFUSE'),
    fire('c19-revert-payee', ['C19'], [(TR, "        needs_narration = value is not None and self.raw_narration is None\n        self.raw_string1 = value\n        if needs_narration:\n            self.raw_narration = EscapedString.from_value('')",
                                        "        if value is not None and self.raw_narration is None:\n            self.raw_narration = EscapedString.from_value('')\n        self.raw_string1 = value")], 'ORD-REFUSE'),
    fire('c19-revert-unclaim', ['C19'], [(IC, "            unclaimed_comments.append(item)\n        if comment_set:", "            item.claimed = False\n            unclaimed_comments.append(item)\n        if comment_set:")], 'ORD-REFUSE'),
    fire('c19-revert-cost', ['C19'], [(CS, "                self.raw_number_comp = value\n                self._into_unit_cost(self.raw_cost)", "                self._into_unit_cost(self.raw_cost)\n                self.raw_number_comp = value")], 'ORD-REFUSE'),
    fire('c19-spacing-edit-before-check', ['C19'], [(SP, "        if self.token_store is None:\n            raise ValueError('Cannot set spacing without a token store.')\n        current_tokens = self.raw_spacing_before\n        if current_tokens:\n            self.token_store.splice(tokens, current_tokens[0], current_tokens[-1])",
                                                     "        current_tokens = self.raw_spacing_before\n        if current_tokens:\n            self.token_store.splice(tokens, current_tokens[0], current_tokens[-1])\n        if not tokens and not current_tokens:\n            raise ValueError('nothing to do')\n        if current_tokens:\n            pass")], None),
    fire('c19-replace-detach-late', ['C19'], [(PR, "    token_store.splice(repl.detach(), node.first_token, node.last_token)", "    token_store.remove(node.first_token, node.last_token)\n    token_store.insert_after(None, repl.detach())")], 'ORD-REFUSE'),
    fire('c13-revert-operand-copy', ['C13', 'C19'], [(NE, "        other = copy.deepcopy(other)\n        mul_expr = _as_mul_expr(other)", "        mul_expr = _as_mul_expr(other)")], None),
    fire('c13-sub-uses-iadd', ['C13'], [(NE, "        return copy.deepcopy(self).__isub__(other)", "        return copy.deepcopy(self).__iadd__(other)")], 'OP-PAIR'),
    fire('c13-rsub-order', ['C13'], [(NE, "        return other - self", "        return self - other")], 'OP-PAIR'),
    fire('c13-swapped-ops', ['C13'], [(NA, "            if op.raw_text == '+':\n                value += operand.value\n            elif op.raw_text == '-':\n                value -= operand.value",
                                       "            if op.raw_text == '-':\n                value += operand.value\n            elif op.raw_text == '+':\n                value -= operand.value")], 'OP-TABLE'),
    fire('c13-add-no-copy', ['C13'], [(NE, "        return copy.deepcopy(self).__iadd__(other)", "        return self.__iadd__(other)")], None),
    fire('c04-getter-splices', ['C04'], [(SP, "        if self.token_store is None:\n            return ()\n        return tuple(_find_spacing(\n                self.token_store.get_next(self.last_token),",
                                          "        if self.token_store is None:\n            return ()\n        self.token_store.insert_after(self.last_token, [])\n        return tuple(_find_spacing(\n                self.token_store.get_next(self.last_token),")], 'PURE'),
    fire('c04-claim-inserts', ['C04'], [(SC, "            token_store.splice(\n                [newline, comment, *ignored], first, comment)", "            token_store.splice(\n                [newline, comment, *ignored, Placeholder.from_default()], first, comment)")], 'CLAIM-PERM'),
    fire('c04-shift-drops', ['C04'], [(IC, "        if isinstance(token, Placeholder):\n            ignored.append(token)\n        else:\n            others.append(token)", "        if isinstance(token, Placeholder):\n            ignored.append(token)\n        elif token.raw_text:\n            others.append(token)")], 'CLAIM-PERM'),
    # ------------------------------------------------------------------ C01 / C12 / C17 grammar side
    fire('c01-postlex-drops-newline', ['C01'], [(PA, "            if newline_text:\n                yield lark.Token.new_borrow_pos(self._NEWLINE, newline_text, token)", "            if newline_text and not prev_is_block_comment:\n                yield lark.Token.new_borrow_pos(self._NEWLINE, newline_text, token)")], 'POSTLEX-CONS'),
    silent('c01-twin-redundant-guard', ['C01'], [(PA, "            elif indent_text:\n                yield lark.Token.new_borrow_pos(self._INDENT, indent_text, token)", "            elif indent_text and indented:\n                yield lark.Token.new_borrow_pos(self._INDENT, indent_text, token)")]),
    fire('c01-split-re-no-tab', ['C01'], [(PA, r"re.compile(r'([\r\n]*)([ \t]*)(;.*)?', re.S)", r"re.compile(r'([\r\n]*)([ ]*)(;.*)?', re.S)")], 'GRAM-SPLIT'),
    fire('c01-gap-skips-whitespace', ['C01'], [(PA, "            if not token.value:  # skips EOL, INDENT_MARK, DEDENT_MARK, etc. if outside a model.\n                continue",
                                                "            if not token.value or token.type == 'WHITESPACE' and len(token.value) > 40:\n                continue")], 'BUILDER-CONS'),
    fire('c01-no-final-gap', ['C01'], [(PA, "        self._fix_gap(len(self._tokens))\n", "")], 'BUILDER-CONS'),
    fire('c12-revert-splitlines', ['C12'], [(BC, "    lines = s.split('\\n')\n    return [line + '\\n' for line in lines[:-1]] + [lines[-1]]", "    lines = s.splitlines(keepends=True)\n    if not lines or lines[-1].endswith('\\n'):\n        lines.append('')\n    return lines")], 'LINESPLIT'),
    fire('c12-revert-date', ['C12'], [(DT, "        return f'{value.year:04d}-{value.month:02d}-{value.day:02d}'", "        return value.strftime('%Y-%m-%d')")], 'FMT-LANG'),
    fire('c17-spacing-re', ['C17'], [(SP, r"re.compile(r'([ \t]+)|(\r*\n)')", r"re.compile(r'([ \t]+)|(\r?\n)')")], 'SPACING-RE'),
    fire('c17-collects-any', ['C17'], [(SP, "    while isinstance(token, Newline | Whitespace):", "    while token is not None and not isinstance(token, BlockCommentLike):" if False else "    while isinstance(token, base.RawTokenModel):")], 'SP-SEM'),
    fire('c17-after-uses-first', ['C17'], [(SP, "            self.token_store.insert_after(self.last_token, tokens)", "            self.token_store.insert_after(self.first_token, tokens)")], 'SP-ACC'),
    # ------------------------------------------------------------------ C11 / C20 / C14 / C15 / C18
    fire('c11-identity-transformer', ['C11'], [(BA, "        return self.clone(token_store, MappingTokenTransformer(token_map))", "        return self.clone(token_store, IDENTITY_TOKEN_TRANSFORMER)")], 'COPY-STORE'),
    fire('c11-clone-shares-child', ['C11'], [(RP, "            (item.clone(token_store, token_transformer) for item in self.items),", "            self.items,")], 'COVER-CLONE'),
    fire('c20-eq-skips-tokens', ['C20'], [(BA, "        return isinstance(other, RawTreeModel) and self.tokens == other.tokens and self._eq(other)", "        return isinstance(other, RawTreeModel) and self._eq(other)")], 'EQ-BASE'),
    fire('c20-zip', ['C20'], [(PR, "            all(a == b for a, b in itertools.zip_longest(self, other)))", "            all(a == b for a, b in zip(self, other)))")], 'EQ-WRAP'),
    silent('c14-twin-unclaim-in-scan', ['C14'], [(IC, "            unclaimed_comments.append(item)\n        if comment_set:", "            item.claimed = False\n            unclaimed_comments.append(item)\n        if comment_set:"),
                                                   (IC, "        for comment in unclaimed_comments:\n            comment.claimed = False\n", "")]),
    fire('c14-claim-unguarded', ['C14'], [(SC, "    if comment.claimed:\n        if ignore_if_already_claimed:\n            return None\n        raise ValueError('Comment already claimed.')\n    comment.claimed = True",
                                           "    if comment.claimed and not ignore_if_already_claimed:\n        raise ValueError('Comment already claimed.')\n    comment.claimed = True")], 'CLAIM-GUARD'),
    fire('c14-unclaim-keeps-slot', ['C14'], [(SC, "            current.claimed = False\n            self._leading_comment = None", "            current.claimed = False")], 'CLAIM-FLAG'),
    fire('c14-gap-comments-claimed', ['C14'], [(PA, "            if isinstance(built_token, models.BlockComment):\n                built_token.claimed = False\n", "")], 'CLAIM-INIT'),
    fire('c15-custom-no-disambiguate', ['C15'], [('autobean_refactor/models/custom.py', "            _disambiguate_values(values),", "            values,")], 'CTOR-DOM'),
    fire('c18-indent-order', ['C18'], [(MI, "        return indent_property.__get__(instance).value + indent_by_field.__get__(instance)", "        return indent_by_field.__get__(instance) + indent_property.__get__(instance).value")], 'IND-FLOW'),
    fire('c18-last-sibling', ['C18'], [(MI, "        first = next(super().__iter__(), None)", "        first = next(reversed(list(super().__iter__())), None)")], 'IND-FLOW'),
]

PRN = 'autobean_refactor/printer.py'
TWINS = [
    silent('twin-printer-join', ['C01', 'C04'], [(PRN, "    for token in model.tokens:\n        file.write(token.raw_text)\n", "    file.write(''.join(token.raw_text for token in model.tokens))\n")]),
    silent('twin-fixgap-rename', ['C01', 'C14'], [(PA, "        for token in self._tokens[self._cursor:cursor]:\n            if not token.value:  # skips EOL, INDENT_MARK, DEDENT_MARK, etc. if outside a model.\n                continue\n            built_token = models.TOKEN_MODELS[token.type].from_raw_text(token.value)\n            if isinstance(built_token, models.BlockComment):\n                built_token.claimed = False\n            self._add_tokens([built_token])",
                                                   "        for tok in self._tokens[self._cursor:cursor]:\n            if not tok.value:\n                continue\n            built = models.TOKEN_MODELS[tok.type].from_raw_text(tok.value)\n            if isinstance(built, models.BlockComment):\n                built.claimed = False\n            self._add_tokens([built])")]),
    silent('twin-spacing-rename', ['C17', 'C19', 'C04'], [(SP, "        current_tokens = self.raw_spacing_after\n        if current_tokens:\n            self.token_store.splice(tokens, current_tokens[0], current_tokens[-1])",
                                                            "        cur = self.raw_spacing_after\n        if cur:\n            self.token_store.splice(tokens, cur[0], cur[-1])")]),
    silent('twin-get-indent-branches', ['C18'], [(MI, "        if first is None:\n            return self._default_indent_getter()\n        return first.indent", "        if first is not None:\n            return first.indent\n        return self._default_indent_getter()")]),
    silent('twin-deepcopy-comprehension', ['C11', 'C04'], [(BA, "        tokens: list[RawTokenModel] = []\n        token_map: dict[int, RawTokenModel] = {}\n        for token in self._token_store.iter(self.first_token, self.last_token):\n            new_token = copy.deepcopy(token)\n            tokens.append(new_token)\n            token_map[id(token)] = new_token\n",
                                                             "        originals = list(self._token_store.iter(self.first_token, self.last_token))\n        tokens: list[RawTokenModel] = [copy.deepcopy(token) for token in originals]\n        token_map: dict[int, RawTokenModel] = {id(a): b for a, b in zip(originals, tokens)}\n")]),
    silent('twin-handle-splice-rename', ['C10'], [(VP, "        ll = bisect.bisect_left(self._raw_indexes, l)\n        rr = bisect.bisect_left(self._raw_indexes, r)\n        diff = len(values) - r + l\n        self._raw_indexes[ll:rr] = filtered_indexes\n        if diff:\n            for i in range(ll + len(filtered_indexes), len(self._raw_indexes)):",
                                                   "        lo = bisect.bisect_left(self._raw_indexes, l)\n        hi = bisect.bisect_left(self._raw_indexes, r)\n        diff = l - r + len(values)\n        self._raw_indexes[lo:hi] = filtered_indexes\n        if diff:\n            for i in range(len(filtered_indexes) + lo, len(self._raw_indexes)):")]),
    silent('twin-insert-normalise-ifexp', ['C10', 'C05', 'C19'], [(PR, "        length = len(self._repeated.items)\n        if index < 0:\n            index = max(0, index + length)\n        index = min(index, length)",
                                                                  "        length = len(self._repeated.items)\n        index = max(0, index + length) if index < 0 else index\n        index = min(index, length)")]),
    silent('twin-get-prev-elif', ['C07'], [(TS, "        if handle.index:\n            return handle.block.tokens[handle.index - 1]\n        if handle.block.index and self._blocks[handle.block.index - 1].tokens:\n            return self._blocks[handle.block.index - 1].tokens[-1]\n        return None",
                                            "        if handle.index:\n            return handle.block.tokens[handle.index - 1]\n        elif handle.block.index and self._blocks[handle.block.index - 1].tokens:\n            return self._blocks[handle.block.index - 1].tokens[-1]\n        else:\n            return None")]),
    silent('twin-editor-rename', ['C16'], [(ED, "        updated_text = printer.print_model(file, io.StringIO()).getvalue()\n        if updated_text != text:\n            with p.open('w', newline='') as f:\n                f.write(updated_text)",
                                            "        printed = printer.print_model(file, io.StringIO()).getvalue()\n        if printed != text:\n            with p.open('w', newline='') as out:\n                out.write(printed)")]),
    silent('twin-claim-comment-early-return', ['C14', 'C04', 'C19'], [(SC, "    if comment.claimed:\n        if ignore_if_already_claimed:\n            return None\n        raise ValueError('Comment already claimed.')\n    comment.claimed = True",
                                                                       "    if comment.claimed and ignore_if_already_claimed:\n        return None\n    if comment.claimed:\n        raise ValueError('Comment already claimed.')\n    comment.claimed = True")]),
    silent('twin-replace-node-local', ['C05', 'C19', 'C03'], [(PR, "    token_store.splice(repl.detach(), node.first_token, node.last_token)\n    if isinstance(repl, base.RawTreeModel):\n        repl.reattach(token_store)",
                                                               "    new_tokens = repl.detach()\n    token_store.splice(new_tokens, node.first_token, node.last_token)\n    if isinstance(repl, base.RawTreeModel):\n        repl.reattach(token_store)")]),
    silent('twin-cost-merge-early', ['C09', 'C19'], [(CS, "        current = self.merge\n        if current and not value:\n            self.raw_asterisk = None\n        elif not current and value:\n            self.raw_asterisk = Asterisk.from_default()",
                                                     "        current = self.merge\n        if bool(current) == bool(value):\n            return\n        self.raw_asterisk = Asterisk.from_default() if value else None")]),
    silent('twin-eq-order', ['C20'], [(BA, "        return isinstance(other, RawTreeModel) and self.tokens == other.tokens and self._eq(other)", "        return isinstance(other, RawTreeModel) and self._eq(other) and self.tokens == other.tokens")]),
    silent('twin-postlex-local', ['C01'], [(PA, "            if comment_text:\n                prev_is_block_comment = True\n                yield lark.Token.new_borrow_pos(self._BLOCK_COMMENT, indent_text + comment_text, token)",
                                            "            if comment_text:\n                yield lark.Token.new_borrow_pos(self._BLOCK_COMMENT, indent_text + comment_text, token)\n                prev_is_block_comment = True")]),
    silent('twin-blockcomment-format', ['C12'], [(BC, "    lines = s.split('\\n')\n    return [line + '\\n' for line in lines[:-1]] + [lines[-1]]", "    parts = s.split('\\n')\n    return [part + '\\n' for part in parts[:-1]] + parts[-1:]")]),
]
VARIANTS += TWINS

TWINS2 = [
    silent('twin2-update-temp-var', ['C08', 'C02'], [(TS, "        handle = _check_store_handle(token)\n        handle.block.size.line += size.line - token.size.line\n        if handle.index < handle.block.last_newline_index:\n            return",
                                                      "        handle = _check_store_handle(token)\n        line_delta = size.line - token.size.line\n        handle.block.size.line += line_delta\n        if handle.block.last_newline_index > handle.index:\n            return")]),
    silent('twin2-get-index-sum', ['C07'], [(TS, "        index = handle.index\n        for i in range(handle.block.index):\n            index += len(self._blocks[i].tokens)\n        return index",
                                             "        index = handle.index\n        for k in range(handle.block.index):\n            index += len(self._blocks[k].tokens)\n        return index")]),
    silent('twin2-splice-len-var', ['C07', 'C08'], [(TS, "        self._len += len(tokens) - len_removed", "        self._len += -len_removed + len(tokens)")]),
    silent('twin2-merge-swap-branches', ['C07', 'C08'], [(TS, "        if len(a.tokens) < _DOUBLE_LOAD_FACTOR:\n            a.rebuild()\n            self._blocks.pop(b.index)\n            self._update_block_indexes(b.index)\n        else:\n            length = len(a.tokens) >> 1\n            b.tokens[:] = a.tokens[length:]\n            del a.tokens[length:]\n            a.rebuild()\n            b.rebuild()",
                                                           "        if len(a.tokens) >= _DOUBLE_LOAD_FACTOR:\n            length = len(a.tokens) >> 1\n            b.tokens[:] = a.tokens[length:]\n            del a.tokens[length:]\n            a.rebuild()\n            b.rebuild()\n        else:\n            a.rebuild()\n            self._blocks.pop(b.index)\n            self._update_block_indexes(b.index)")]),
    silent('twin2-del-tokens-rename', ['C03', 'C05'], [(PR, "            prev_last = self._prev_last(start)\n            t = self._repeated.token_store.get_next(prev_last)\n            assert t is not None\n            first_token = t\n            last_token = self._repeated.items[stop - 1].last_token",
                                                        "            before = self._prev_last(start)\n            nxt = self._repeated.token_store.get_next(before)\n            assert nxt is not None\n            first_token = nxt\n            last_token = self._repeated.items[stop - 1].last_token")]),
    silent('twin2-optional-set-early-return', ['C05', 'C19', 'C03'], [(PR, "        current = self._inner_field.__get__(instance)\n        if current is None and value is not None:\n            pivot = self._pivot_property.__get__(instance)\n            self._inner_field._create_node(instance.token_store, pivot, value)\n        elif current is not None and value is None:",
                                                                        "        current = self._inner_field.__get__(instance)\n        if current is None and value is None:\n            return\n        if current is None and value is not None:\n            pivot = self._pivot_property.__get__(instance)\n            self._inner_field._create_node(instance.token_store, pivot, value)\n        elif current is not None and value is None:")]),
    silent('twin2-find-spacing-for-else', ['C17'], [(SP, "    while isinstance(token, Newline | Whitespace):\n        if token.raw_text:\n            tokens.append(token)\n        token = succ(token)\n    return tokens",
                                                     "    while isinstance(token, (Newline, Whitespace)):\n        if token.raw_text:\n            tokens.append(token)\n        token = succ(token)\n    return tokens")]),
    silent('twin2-editor-pathlib', ['C16'], [(ED, "        for current_path in set(texts) - set(files):\n            os.unlink(current_path)", "        removed = set(texts) - set(files)\n        for current_path in removed:\n            os.unlink(current_path)")]),
    silent('twin2-claim-order-vars', ['C14', 'C04'], [(IC, "        items = list(itertools.chain(comments_before, items_inner, comments_after))\n        comments = []\n        for item in items:",
                                                       "        items = [*comments_before, *items_inner, *comments_after]\n        comments = []\n        for item in items:")]),
    silent('twin2-op-pair-local', ['C13'], [(NE, "    def __add__(self, other: 'NumberExpr') -> 'NumberExpr':\n        return copy.deepcopy(self).__iadd__(other)", "    def __add__(self, other: 'NumberExpr') -> 'NumberExpr':\n        result = copy.deepcopy(self)\n        return result.__iadd__(other)")]),
    silent('twin2-builder-fixgap-index', ['C01'], [(PA, "    def _build_token(self, token: lark.Token) -> models.RawTokenModel:\n        self._fix_gap(self._token_to_index[id(token)])",
                                                    "    def _build_token(self, token: lark.Token) -> models.RawTokenModel:\n        position = self._token_to_index[id(token)]\n        self._fix_gap(position)")]),
    silent('twin2-indent-flow-local', ['C18'], [(MI, "        self.append(MetaItem.from_value(index, value, indent=self._get_indent()))", "        indent = self._get_indent()\n        self.append(MetaItem.from_value(index, value, indent=indent))")]),
    silent('twin2-deepcopy-eq-order', ['C20', 'C11'], [(RP, "        return isinstance(other, Repeated) and self.items == other.items", "        return isinstance(other, Repeated) and other.items == self.items")]),
    silent('twin2-unary-compare-eq', ['C13'], [('autobean_refactor/models/number_unary_expr.py', "        if self._unary_op.raw_text == '+':\n            return self._operand.value\n        elif self._unary_op.raw_text == '-':\n            return self._operand.value.copy_negate()",
                                                "        if self._unary_op.raw_text == '-':\n            return self._operand.value.copy_negate()\n        elif self._unary_op.raw_text == '+':\n            return self._operand.value")]),
    silent('twin2-tokens-property-local', ['C01', 'C04'], [(BA, "        return list(self.token_store.iter(self.first_token, self.last_token))", "        first, last = self.first_token, self.last_token\n        return list(self.token_store.iter(first, last))")]),
    silent('twin2-value-setter-order', ['C08', 'C19', 'C02'], [(BT, "        self._value = value\n        self._update_raw_text(self._format_value(value))", "        raw_text = self._format_value(value)\n        self._value = value\n        self._update_raw_text(raw_text)")]),
]
VARIANTS += TWINS2

# ------------------------------------------------------------------ rules added after seeded round 2
MERGE_OLD = "        a.tokens += b.tokens\n        if len(a.tokens) < _DOUBLE_LOAD_FACTOR:\n            a.rebuild()\n            self._blocks.pop(b.index)\n            self._update_block_indexes(b.index)\n        else:\n            length = len(a.tokens) >> 1\n            b.tokens[:] = a.tokens[length:]\n            del a.tokens[length:]\n            a.rebuild()\n            b.rebuild()"
UPD_OLD = "            if block.index:\n                prev_block = self._blocks[block.index - 1]\n                self._merge_blocks(prev_block, block)\n            else:\n                next_block = self._blocks[block.index + 1]\n                self._merge_blocks(block, next_block)"
ROUND2 = [
    fire('r2-merge-rebalance-loses-b', ['C07'], [(TS, MERGE_OLD, "        total = len(a.tokens) + len(b.tokens)\n        if total < _DOUBLE_LOAD_FACTOR:\n            a.tokens += b.tokens\n            a.rebuild()\n            self._blocks.pop(b.index)\n            self._update_block_indexes(b.index)\n        else:\n            length = total >> 1\n            b.tokens[:] = a.tokens[length:]\n            del a.tokens[length:]\n            a.rebuild()\n            b.rebuild()")], 'TS-SEQ'),
    silent('r2-twin-merge-late-concat', ['C07', 'C08'], [(TS, MERGE_OLD, "        total = len(a.tokens) + len(b.tokens)\n        if total < _DOUBLE_LOAD_FACTOR:\n            a.tokens.extend(b.tokens)\n            a.rebuild()\n            self._blocks.pop(b.index)\n            self._update_block_indexes(b.index)\n        else:\n            merged = a.tokens + b.tokens\n            length = total >> 1\n            a.tokens[:] = merged[:length]\n            b.tokens[:] = merged[length:]\n            a.rebuild()\n            b.rebuild()")]),
    fire('r2-merge-neighbour-order', ['C07'], [(TS, UPD_OLD, "            neighbour = self._blocks[block.index - 1 if block.index else block.index + 1]\n            self._merge_blocks(neighbour, block)")], 'TS-SEQ'),
    silent('r2-twin-merge-neighbour-order', ['C07', 'C08'], [(TS, UPD_OLD, "            if not block.index:\n                self._merge_blocks(block, self._blocks[1])\n            else:\n                self._merge_blocks(self._blocks[block.index - 1], block)")]),
    fire('r2-merge-extend-no-rebuild', ['C07', 'C08'], [(TS, "        a.tokens += b.tokens\n        if len(a.tokens) < _DOUBLE_LOAD_FACTOR:\n            a.rebuild()\n", "        if len(a.tokens) + len(b.tokens) < _DOUBLE_LOAD_FACTOR:\n            a.extend(b.tokens)\n"),
                                                        (TS, "        else:\n            length = len(a.tokens) >> 1\n            b.tokens[:] = a.tokens[length:]", "        else:\n            a.tokens += b.tokens\n            length = len(a.tokens) >> 1\n            b.tokens[:] = a.tokens[length:]")], 'TS-SEQ'),
    fire('r2-split-keeps-old-block', ['C07'], [(TS, "        self._blocks[block.index:block.index+1] = new_blocks", "        self._blocks[block.index+1:block.index+1] = new_blocks")], 'TS-SEQ'),
    fire('r2-multiblock-drops-tail', ['C07'], [(TS, "                    *self._blocks[end_i].tokens[end_j:], \n", "                    *self._blocks[end_i].tokens[end_j + 1:],\n")], 'TS-SEQ'),
    fire('r2-fastpath-rehandle-from-end', ['C07', 'C08'], [(TS, "                for j in range(start_j, len(block.tokens)):\n                    block.tokens[j].store_handle = _StoreHandle(block=block, index=j)", "                for j in range(end_j, len(block.tokens)):\n                    block.tokens[j].store_handle = _StoreHandle(block=block, index=j)")], 'TS-SEQ'),
    fire('r2-fastpath-no-line-patch', ['C08'], [(TS, "                block.size.line += lines_diff\n", "")], 'TS-SEQ'),
    fire('r2-len-forgets-middle-blocks', ['C07'], [(TS, "                len_removed += len(self._blocks[i].tokens)\n", "")], 'TS-SEQ'),
    silent('r2-twin-splice-locals', ['C07', 'C08'], [(TS, "            block = self._blocks[start_i]\n            lines_diff = 0\n", "            block = self._blocks[end_i]\n            lines_diff = 0\n")]),
    fire('r2-numberexpr-bool', ['C09'], [(NE, "    def __pos__(self)", "    def __bool__(self) -> bool:\n        return bool(self.value)\n\n    def __pos__(self)")], 'PRESENCE-TRUTH'),
    fire('r2-token-len', ['C09'], [(BT, "class SimpleSingleValueRawTokenModel(", "class _Measured:\n    def __len__(self) -> int:\n        return len(self.raw_text)  # type: ignore[attr-defined]\n\n\nclass SimpleSingleValueRawTokenModel(_Measured, ")], 'PRESENCE-TRUTH'),
    silent('r2-twin-file-len', ['C09'], [('autobean_refactor/models/block_comment.py', "    def _clone(self: 'BlockComment') -> 'BlockComment':", "    def line_count(self) -> int:\n        return len(_splitlines(self._value))\n\n    def _clone(self: 'BlockComment') -> 'BlockComment':")]),
    fire('r2-bc-blank-loses-indent', ['C15', 'C12'], [(BC, "        return ''.join(\n            f'{indent}; {line}' if line.rstrip('\\r\\n') else f'{indent};{line}'\n", "        prefix = f'{indent}; '\n        blank_prefix = prefix.strip()\n        return ''.join(\n            (prefix if line.rstrip('\\r\\n') else blank_prefix) + line\n")], 'BC-LINE'),
    silent('r2-twin-bc-hoisted-prefix', ['C15', 'C12', 'C18'], [(BC, "        return ''.join(\n            f'{indent}; {line}' if line.rstrip('\\r\\n') else f'{indent};{line}'\n", "        prefix = f'{indent}; '\n        blank_prefix = prefix.rstrip()\n        return ''.join(\n            (prefix if line.rstrip('\\r\\n') else blank_prefix) + line\n")]),
    fire('r2-bc-no-semicolon-space', ['C15', 'C12'], [(BC, "f'{indent}; {line}' if line", "f'{indent};{line}' if line")], 'BC-LINE'),
]
VARIANTS += ROUND2

UPD_OLD2 = "        handle = _check_store_handle(token)\n        handle.block.size.line += size.line - token.size.line\n        if handle.index < handle.block.last_newline_index:\n            return\n"
POSSEM = [
    silent('ps-twin-update-block-alias', ['C08', 'C02'], [(TS, UPD_OLD2, "        handle = _check_store_handle(token)\n        block = handle.block\n        block.size.line += size.line - token.size.line\n        if block.last_newline_index > handle.index:\n            return\n")]),
    silent('ps-twin-rebuild-direct', ['C08', 'C07'], [(TS, "        size = Position()\n        last_newline_index = -1\n        for i, token in enumerate(self.tokens):\n            size += token.size\n            if token.size.line:\n                last_newline_index = i\n            token.store_handle = _StoreHandle(block=self, index=i)\n        self.size = size\n        self.last_newline_index = last_newline_index",
                                                        "        self.size = Position()\n        self.last_newline_index = -1\n        for i in range(len(self.tokens)):\n            token = self.tokens[i]\n            token.store_handle = _StoreHandle(self, i)\n            self.size += token.size\n            if token.size.line > 0:\n                self.last_newline_index = i")]),
    silent('ps-twin-iadd-restructured', ['C08'], [(TS, "        self.line += other.line\n        if other.line:\n            self.column = other.column\n        else:\n            self.column += other.column\n        return self", "        if other.line:\n            self.line += other.line\n            self.column = other.column\n            return self\n        self.column += other.column\n        return self")]),
    fire('ps-update-same-lines-fastpath', ['C08'], [(TS, UPD_OLD2, "        handle = _check_store_handle(token)\n        if size.line == token.size.line:\n            if handle.index >= handle.block.last_newline_index:\n                handle.block.size.column += len(raw_text) - len(token.raw_text)\n            return\n" + UPD_OLD2.split("\n", 1)[1])], 'POS-SEM'),
    fire('ps-rebuild-forgets-lni-reset', ['C08'], [(TS, "        self.size = size\n        self.last_newline_index = last_newline_index", "        self.size = size\n        if last_newline_index >= 0:\n            self.last_newline_index = last_newline_index")], 'POS-SEM'),
    fire('ps-get-position-inclusive', ['C08'], [(TS, "        for i in range(handle.index):\n            pos += handle.block.tokens[i].size\n        return pos", "        for i in range(handle.index + 1):\n            pos += handle.block.tokens[i].size\n        return pos")], 'POS-SEM'),
    fire('ps-update-remove-newline-no-scan-stop', ['C08'], [(TS, "                if handle.block.tokens[i].size.line:\n                    handle.block.last_newline_index = i\n                    break\n", "                if handle.block.tokens[i].size.line:\n                    handle.block.last_newline_index = i\n")], 'POS-SEM'),
]
VARIANTS += POSSEM

# ------------------------------------------------------------------ rules added after seeded round 3
VP_ = VP
FI = 'autobean_refactor/models/internal/fields.py'
ROUND3 = [
    fire('r3-view-setitem-lazy-source', ['C10'], [(VP_, "            values = list(value)\n        r = indexes.range_from_index(index, len(self._raw_indexes))", "            values = value if isinstance(value, Collection) else list(value)\n        r = indexes.range_from_index(index, len(self._raw_indexes))")], 'VIEW-SNAPSHOT'),
    silent('r3-twin-view-setitem-tuple', ['C10'], [(VP_, "            values = list(value)\n        r = indexes.range_from_index(index, len(self._raw_indexes))", "            values = tuple(value)\n        r = indexes.range_from_index(index, len(self._raw_indexes))")]),
    fire('r3-wrapper-memo-truthiness', ['C10', 'C09'], [(IC, "        wrapper = instance.__dict__.get(self._attr)\n        if wrapper is None:\n            repeated = self._inner_field.__get__(instance)\n            wrapper = RepeatedNodeWithInterleavingCommentsWrapper(", "        wrapper = instance.__dict__.get(self._attr)\n        if not wrapper:\n            repeated = self._inner_field.__get__(instance)\n            wrapper = RepeatedNodeWithInterleavingCommentsWrapper(")], 'PRESENCE-TRUTH'),
    fire('r3-bc-rawtext-keeps-indent', ['C12'], [(BC, "        self._indent, self._value = indent, value", "        self._value = value")], 'RAWTEXT-COVER'),
    silent('r3-twin-bc-rawtext-two-stmts', ['C12', 'C19'], [(BC, "        self._indent, self._value = indent, value", "        self._indent = indent\n        self._value = value")]),
    fire('r3-date-split-one-sep', ['C12'], [(DT, "        y, m, d = map(int, re.split('[-/]', raw_text))", "        sep = '/' if '/' in raw_text else '-'\n        y, m, d = map(int, raw_text.split(sep))")], 'SPLIT-TOTAL'),
    silent('r3-twin-date-split-listcomp', ['C12'], [(DT, "        y, m, d = map(int, re.split('[-/]', raw_text))", "        y, m, d = [int(part) for part in re.split('[-/]', raw_text)]")]),
    fire('r3-separators-copied-once', ['C03', 'C11'], [(PR, "        for i, value in enumerate(values):\n            if index or (i and not length):\n                tokens.extend(copy.deepcopy(self._separators))", "        separators = copy.deepcopy(self._separators)\n        for i, value in enumerate(values):\n            if index or (i and not length):\n                tokens.extend(separators)")], 'SEP-FRESH'),
    fire('r3-find-spacing-one-loop', ['C17'], [(SP, "    while token is not None and not token.raw_text:\n        token = succ(token)\n    # must not interleave with special tokens to avoid removing them in spacing update.\n    while isinstance(token, Newline | Whitespace):\n        if token.raw_text:\n            tokens.append(token)\n        token = succ(token)", "    while token is not None:\n        if token.raw_text:\n            if not isinstance(token, Newline | Whitespace):\n                break\n            tokens.append(token)\n        token = succ(token)")], 'SP-SEM'),
    silent('r3-twin-find-spacing-restructured', ['C17'], [(SP, "    while token is not None and not token.raw_text:\n        token = succ(token)\n    # must not interleave with special tokens to avoid removing them in spacing update.\n    while isinstance(token, Newline | Whitespace):\n        if token.raw_text:\n            tokens.append(token)\n        token = succ(token)", "    while token is not None and token.raw_text == '':\n        token = succ(token)\n    while True:\n        if not isinstance(token, (Whitespace, Newline)):\n            break\n        if token.raw_text != '':\n            tokens += [token]\n        token = succ(token)")]),
    fire('r3-meta-pop-tokens-only', ['C05'], [(MI, "            if isinstance(value, base.RawModel) and value.token_store:", "            if isinstance(value, base.RawTokenModel) and value.token_store:")], 'POP-VALUE'),
    fire('r3-editor-stringio-universal', ['C16'], [(ED, "        updated_text = printer.print_model(file, io.StringIO()).getvalue()\n        if updated_text != text:", "        updated_text = printer.print_model(file, io.StringIO(newline=None)).getvalue()\n        if updated_text != text:")], 'ED-NEWLINE'),
    fire('r3-editor-model-cache', ['C16'], [(ED, "        self._parser = parser or parser_lib.Parser()\n", "        self._parser = parser or parser_lib.Parser()\n        self._parsed = dict[str, tuple[str, models.File]]()\n"),
                                            (ED, "        file = self._parser.parse(text, models.File)\n\n        yield file", "        cached = self._parsed.get(str(p))\n        if cached is None or cached[0] != text:\n            cached = self._parsed[str(p)] = (text, self._parser.parse(text, models.File))\n        file = cached[1]\n\n        yield file")], 'ED-FRESH'),
    silent('r3-twin-editor-helper-parse', ['C16'], [(ED, "        file = self._parser.parse(text, models.File)\n\n        yield file", "        file = self._parse(text)\n\n        yield file"),
                                                    (ED, "    @contextlib.contextmanager\n    def edit_file(self", "    def _parse(self, text: str) -> models.File:\n        return self._parser.parse(text, models.File)\n\n    @contextlib.contextmanager\n    def edit_file(self")]),
    fire('r3-grammar-comment-takes-cr', ['C12'], [('autobean_refactor/beancount.lark', "INLINE_COMMENT: /;[^\\r\\n]*/s", "INLINE_COMMENT: /;[^\\n]*/")], 'GRAM-EOL'),
    fire('r3-costspec-components-cached', ['C10'], [(CS, "    @internal.custom_property\n    def raw_cost_components(self)", "    @internal.cached_custom_property\n    def raw_cost_components(self)")], 'CACHE-DEP'),
    fire('r3-wrapper-set-keeps-views', ['C10'], [(PR, "        instance.__dict__[self._attr] = value\n        drop_cached_views(instance)\n", "        instance.__dict__[self._attr] = value\n")], 'CACHE-DEP'),
    fire('r3-claim-backwards-range', ['C05', 'C14'], [(IC, "            _shift_ignored(\n                self._repeated.token_store, comments_before[0], self._repeated.first_token, backwards=True)", "            first = self._repeated.token_store.get_prev(self._repeated.first_token)\n            assert first is not None\n            _shift_ignored(\n                self._repeated.token_store, first, comments_before[0], backwards=True)")], 'SPLICE-ORDER'),
    fire('r3-costspec-fromvalue-early-return', ['C15'], [(CS, "        else:\n            type_ = UnitCost\n        if date is not None:", "        else:\n            return cls.from_children(UnitCost.from_children(comps))\n        if date is not None:")], 'FV-PATH'),
    fire('r3-wrapper-deepcopy-shallow', ['C11'], [(PR, "        return RepeatedNodeWrapper(repeated, self._field)\n\n    def drop_many", "        wrapper = copy.copy(self)\n        wrapper._repeated = repeated\n        return wrapper\n\n    def drop_many")], 'COPY-SHALLOW'),
    fire('r3-token-eq-by-value', ['C20'], [(BT, "class SimpleSingleValueRawTokenModel(", "class _ValueEq:\n    def __eq__(self, other: object) -> bool:\n        return isinstance(other, type(self)) and self.RULE == other.RULE and self.value == other.value  # type: ignore[attr-defined]\n\n    def __hash__(self) -> int:\n        return hash((self.RULE, self.value))  # type: ignore[attr-defined]\n\n\nclass SimpleSingleValueRawTokenModel(_ValueEq, ")], 'EQ-TEXT'),
    fire('r3-claimed-setter-rerenders', ['C04'], [(BC, "    def claimed(self, claimed: bool) -> None:\n        self._claimed = claimed", "    def claimed(self, claimed: bool) -> None:\n        if claimed and not self._claimed:\n            self._update_raw_text(self._format_value(self._indent, self._value))\n        self._claimed = claimed")], 'FLAG-SETTER'),
    fire('r3-getter-sets-value', ['C04'], [(BC, "    def value(self) -> str:\n        return self._value", "    def value(self) -> str:\n        if self._value is None:\n            self.value = self._parse_value(self.raw_text)[1]\n        return self._value")], 'GETTER-NOWRITE'),
    fire('r3-meta-setitem-last-match', ['C10'], [(MI, "        for _, item in enumerate(self):\n            if item.key == index:\n                item.value = value\n                return\n", "        item = {item.key: item for item in self}.get(index)\n        if item is not None:\n            item.value = value\n            return\n")], 'MAP-FIRST'),
    silent('r3-twin-meta-setitem-next', ['C10', 'C19', 'C18'], [(MI, "        for _, item in enumerate(self):\n            if item.key == index:\n                item.value = value\n                return\n", "        found = next((item for item in self if item.key == index), None)\n        if found is not None:\n            found.value = value\n            return\n")]),
    silent('r3-twin-meta-getitem-listcomp', ['C10'], [(MI, "        for item in self:\n            if item.key == index:\n                return item.value\n        raise KeyError(index)", "        matches = [item for item in self if item.key == index]\n        if matches:\n            return matches[0].value\n        raise KeyError(index)")]),
    fire('r3-get-position-tail-fastpath', ['C08'], [(TS, "        for i in range(handle.index):\n            pos += handle.block.tokens[i].size\n        return pos", "        block = handle.block\n        if handle.index > block.last_newline_index:\n            pos.line += block.size.line\n            pos.column = 0\n            for i in range(max(block.last_newline_index, 0), handle.index):\n                pos.column += block.tokens[i].size.column\n            return pos\n        for i in range(handle.index):\n            pos += block.tokens[i].size\n        return pos")], 'POS-SEM'),
]
VARIANTS += ROUND3

# ------------------------------------------------------------------ rules added after seeded round 4
NM = 'autobean_refactor/models/number.py'
NMU = 'autobean_refactor/models/number_mul_expr.py'
TO = 'autobean_refactor/models/tolerance.py'
ROUND4 = [
    fire('r4-get-first-memo', ['C07'], [(TS, "    _blocks: list[_StoreBlock[_T]]\n    _len: int\n\n    def __init__(self) -> None:\n        self._blocks = [_StoreBlock(self, 0, [])]\n        self._len = 0\n",
                                         "    _blocks: list[_StoreBlock[_T]]\n    _len: int\n    _first: Optional[_T]\n\n    def __init__(self) -> None:\n        self._blocks = [_StoreBlock(self, 0, [])]\n        self._len = 0\n        self._first = None\n"),
                                        (TS, "        return self._blocks and self._blocks[0].tokens and self._blocks[0].tokens[0] or None\n",
                                         "        if self._first is None:\n            self._first = self._blocks and self._blocks[0].tokens and self._blocks[0].tokens[0] or None\n        return self._first\n")], 'NAV-SEM'),
    silent('r4-twin-get-index-sum', ['C07'], [(TS, "        index = handle.index\n        for i in range(handle.block.index):\n            index += len(self._blocks[i].tokens)\n        return index",
                                               "        return handle.index + sum(len(self._blocks[i].tokens) for i in range(handle.block.index))")]),
    fire('r4-get-position-block-cache', ['C08'], [(TS, "    _blocks: list[_StoreBlock[_T]]\n    _len: int\n\n    def __init__(self) -> None:\n        self._blocks = [_StoreBlock(self, 0, [])]\n        self._len = 0\n",
                                                   "    _blocks: list[_StoreBlock[_T]]\n    _len: int\n    _starts: Optional[list[Position]]\n\n    def __init__(self) -> None:\n        self._blocks = [_StoreBlock(self, 0, [])]\n        self._len = 0\n        self._starts = None\n"),
                                                  (TS, "        pos = Position()\n        for i in range(handle.block.index):\n            pos += self._blocks[i].size\n        for i in range(handle.index):",
                                                   "        if self._starts is None or len(self._starts) != len(self._blocks):\n            self._starts = []\n            run = Position()\n            for block in self._blocks:\n                self._starts.append(copy.copy(run))\n                run += block.size\n        pos = copy.copy(self._starts[handle.block.index])\n        for i in range(handle.index):")], 'POS-HIST'),
    fire('r4-view-pop-view-index', ['C10', 'C03'], [(VP, "        raw_index = self._raw_indexes[index]\n        return self._from_raw_type(self._raw_wrapper.pop(raw_index))", "        return self._from_raw_type(self._raw_wrapper.pop(index))")], 'IDX-SPACE'),
    fire('r4-handler-bisect-view', ['C10'], [(VP, "        rr = bisect.bisect_left(self._raw_indexes, r)", "        rr = bisect.bisect_left(self._raw_indexes, ll + r - l)")], 'IDX-SPACE'),
    silent('r4-twin-view-remove-range', ['C10', 'C03'], [(VP, "        for raw_index in self._raw_indexes:\n            if self._from_raw_type(self._raw_wrapper[raw_index]) == value:\n                self._raw_wrapper.pop(raw_index)\n                return",
                                                          "        for i in range(len(self._raw_indexes)):\n            raw_index = self._raw_indexes[i]\n            if self._from_raw_type(self._raw_wrapper[raw_index]) == value:\n                self._raw_wrapper.pop(raw_index)\n                return")]),
    fire('r4-number-format-str', ['C12'], [(NM, "        return format(value, 'f')", "        return str(value)")], 'FMT-LANG'),
    fire('r4-number-format-plain-fstring', ['C12'], [(NM, "        return format(value, 'f')", "        return f'{value}'")], 'FMT-LANG'),
    silent('r4-twin-number-format-fstring-f', ['C12'], [(NM, "        return format(value, 'f')", "        return f'{value:f}'")]),
    fire('r4-parse-normalises-newlines', ['C01'], [(PA, "    def parse(self, text: str, target: Type[_U], *, auto_claim_comments: bool = True) -> _U:\n", "    def parse(self, text: str, target: Type[_U], *, auto_claim_comments: bool = True) -> _U:\n        text = text.replace('\\r\\n', '\\n')\n")], 'TEXT-VERBATIM'),
    fire('r4-token-init-strips', ['C01'], [(TS, "        self._raw_text = raw_text\n        self.store_handle = None", "        self._raw_text = raw_text.rstrip('\\x00')\n        self.store_handle = None")], 'TEXT-VERBATIM'),
    silent('r4-twin-parse-local', ['C01'], [(PA, "    def parse(self, text: str, target: Type[_U], *, auto_claim_comments: bool = True) -> _U:\n", "    def parse(self, text: str, target: Type[_U], *, auto_claim_comments: bool = True) -> _U:\n        _ = len(text)\n")]),
    fire('r4-required-field-claim-guard', ['C14'], [(FL, "    def auto_claim_comments(self, value: _M) -> None:\n        value.auto_claim_comments()", "    def auto_claim_comments(self, value: _M) -> None:\n        if value.first_token is value.last_token:\n            return\n        value.auto_claim_comments()")], 'CLAIM-DESCEND'),
    silent('r4-twin-repeated-claim-slice', ['C14'], [(RP, "        for item in reversed(self.items):\n            item.auto_claim_comments()", "        for item in self.items[::-1]:\n            item.auto_claim_comments()")]),
    fire('r4-add-expr-first-token-cached', ['C17', 'C10'], [(NA, "    @property\n    def first_token(self) -> base.RawTokenModel:\n        return self._raw_operands[0].first_token", "    @functools.cached_property\n    def first_token(self) -> base.RawTokenModel:\n        return self._raw_operands[0].first_token"),
                                                            (NA, "import decimal\n", "import decimal\nimport functools\n")], 'MEMO'),
    silent('r4-twin-schema-memo', ['C10', 'C17', 'C18'], [(PR, "    def register_update_handler(self, handler: RepeatedNodeWrapperUpdateHandler) -> None:", "    @functools.cached_property\n    def _default_separators(self) -> tuple[base.RawTokenModel, ...]:\n        return self._field.separators\n\n    def register_update_handler(self, handler: RepeatedNodeWrapperUpdateHandler) -> None:")]),
    fire('r4-node-wrapper-extend-mixin', ['C19'], [(PR, "    def extend(self, values: Iterable[_M]) -> None:\n        values = list(values)\n        index = len(self._repeated.items)\n        self._insert_tokens(index, values)\n        for value in values:\n            value.reattach(self._repeated.token_store)\n        self._repeated.items.extend(values)\n        self._notify_splice(index, index, values)\n\n", "")], 'MIXIN-BATCH'),
    fire('r4-tolerance-setter-partial', ['C09'], [(TO, "        self.raw_number.value = value", "        atom = self.raw_number.raw_number_add_expr.raw_operands[0].raw_operands[0]\n        atom.value = value  # type: ignore[union-attr]")], 'SET-COVERS'),
    silent('r4-twin-number-expr-setter-local', ['C09', 'C13'], [(NE, "        self.raw_number_add_expr = _add_expr_from_value(value)", "        rebuilt = _add_expr_from_value(value)\n        self.raw_number_add_expr = rebuilt")]),
    fire('r4-unclaim-empty-means-all', ['C14'], [(IC, "            {id(comment) for comment in comments} if comments is not None else None)", "            {id(comment) for comment in comments} if comments else None)")], 'PRESENCE-TRUTH'),
    silent('r4-twin-or-empty-default', ['C14', 'C10'], [(IC, "            {id(comment) for comment in comments} if comments is not None else None)", "            {id(comment) for comment in (comments or ())} if comments is not None else None)")]),
]
VARIANTS += ROUND4

SLOTSEM = [
    fire('slot-decimal-truthy-update', ['C09'], [(VP, "    def __set__(self, instance: _U, value: Optional[decimal.Decimal]) -> None:\n        current = self._inner_property.__get__(instance)\n        if current is not None and value is not None:\n            current.value = value\n        else:",
                                                  "    def __set__(self, instance: _U, value: Optional[decimal.Decimal]) -> None:\n        current = self._inner_property.__get__(instance)\n        if current is not None and value:\n            current.value = value\n        else:")], 'PRESENCE-TRUTH'),
    fire('slot-string-getter-default', ['C09'], [(VP, "    def _get(self, instance: _U) -> Optional[str]:\n        s = self._inner_property.__get__(instance)\n        return s.value if s is not None else None\n    \n    def __set__(self, instance: _U, value: Optional[str]) -> None:\n        current = self._inner_property.__get__(instance)\n        if current is not None and value is not None:\n            current.value = value\n        else:\n            s = self._inner_type.from_value(value) if value is not None else None",
                                                  "    def _get(self, instance: _U) -> Optional[str]:\n        s = self._inner_property.__get__(instance)\n        return s.value if s is not None else ''\n    \n    def __set__(self, instance: _U, value: Optional[str]) -> None:\n        current = self._inner_property.__get__(instance)\n        if current is not None and value is not None:\n            current.value = value\n        else:\n            s = self._inner_type.from_value(value) if value is not None else None")], 'SLOT-AGREE'),
    fire('slot-indented-without-indent', ['C09'], [(VP, "            s = self._inner_type.from_value(value, indent=indent) if value is not None else None", "            s = self._inner_type.from_value(value) if value is not None else None")], 'SLOT-AGREE'),
    silent('slot-twin-early-returns', ['C09'], [(VP, "        if current is not None and value is not None:\n            current.value = value\n        else:\n            s = self._inner_type.from_value(value) if value is not None else None\n            self._inner_property.__set__(instance, s)\n\n\nclass optional_indented_string_property",
                                                 "        if value is None:\n            self._inner_property.__set__(instance, None)\n            return\n        if current is not None:\n            current.value = value\n            return\n        self._inner_property.__set__(instance, self._inner_type.from_value(value))\n\n\nclass optional_indented_string_property")]),
]
VARIANTS += SLOTSEM

COPYSEM = [
    fire('copy-shallow-token', ['C11'], [(BA, "            new_token = copy.deepcopy(token)\n", "            new_token = copy.copy(token)\n")], 'COPY-STORE'),
    fire('copy-map-keyed-by-copy', ['C11'], [(BA, "            token_map[id(token)] = new_token", "            token_map[id(new_token)] = new_token")], 'COPY-STORE'),
    fire('copy-store-of-originals', ['C11'], [(BA, "            tokens.append(new_token)\n", "            tokens.append(token)\n")], 'COPY-STORE'),
    fire('copy-span-from-store-start', ['C11'], [(BA, "        for token in self._token_store.iter(self.first_token, self.last_token):\n            new_token = copy.deepcopy(token)", "        for token in self._token_store.iter(self._token_store.get_first(), self.last_token):\n            new_token = copy.deepcopy(token)")], 'COPY-STORE'),
    silent('copy-twin-pairs', ['C11'], [(BA, "        tokens: list[RawTokenModel] = []\n        token_map: dict[int, RawTokenModel] = {}\n        for token in self._token_store.iter(self.first_token, self.last_token):\n            new_token = copy.deepcopy(token)\n            tokens.append(new_token)\n            token_map[id(token)] = new_token\n",
                                         "        copied = [(token, copy.deepcopy(token)) for token in self._token_store.iter(self.first_token, self.last_token)]\n        tokens = [new_token for _, new_token in copied]\n        token_map = {id(token): new_token for token, new_token in copied}\n")]),
]
VARIANTS += COPYSEM

DROPSEM = [
    fire('drop-many-ascending', ['C10'], [(PR, "        indexes = sorted(indexes, reverse=True)\n        count = itertools.count()\n        ranges = (\n            list(r) for _, r in itertools.groupby(indexes, key=lambda i: i + next(count))\n        )\n        for r in ranges:\n            self._del_tokens(r[-1], r[0] + 1)",
                                           "        indexes = sorted(indexes)\n        count = itertools.count()\n        ranges = (\n            list(r) for _, r in itertools.groupby(indexes, key=lambda i: i - next(count))\n        )\n        for r in ranges:\n            self._del_tokens(r[0], r[-1] + 1)")], 'VIEW-WRITE'),
    fire('drop-many-items-first', ['C10'], [(PR, "        for r in ranges:\n            self._del_tokens(r[-1], r[0] + 1)\n        self._repeated.items[:] = (\n            item for i, item in enumerate(self._repeated.items) if i not in indexes\n        )\n",
                                             "        ranges = list(ranges)\n        self._repeated.items[:] = (\n            item for i, item in enumerate(self._repeated.items) if i not in indexes\n        )\n        for r in ranges:\n            self._del_tokens(r[-1], r[0] + 1)\n")], 'VIEW-WRITE'),
    fire('drop-many-run-off-by-one', ['C10'], [(PR, "            self._del_tokens(r[-1], r[0] + 1)", "            self._del_tokens(r[-1], r[0])")], 'VIEW-WRITE'),
    silent('drop-many-twin-enumerate', ['C10'], [(PR, "        count = itertools.count()\n        ranges = (\n            list(r) for _, r in itertools.groupby(indexes, key=lambda i: i + next(count))\n        )",
                                                  "        ranges = (\n            [i for _, i in r]\n            for _, r in itertools.groupby(enumerate(indexes), key=lambda p: p[1] + p[0])\n        )")]),
]
VARIANTS += DROPSEM

ES = 'autobean_refactor/models/escaped_string.py'
ESCSEM = [
    fire('esc-unescape-drops-unknown', ['C12'], [(ES, "            lambda c: cls.__UNESCAPE_MAP.get(c.group(1), c.group(1)),", "            lambda c: cls.__UNESCAPE_MAP.get(c.group(1), ''),")], 'ESC-TABLE'),
    fire('esc-unescape-keeps-backslash', ['C12'], [(ES, "            lambda c: cls.__UNESCAPE_MAP.get(c.group(1), c.group(1)),", "            lambda c: cls.__UNESCAPE_MAP.get(c.group(1), c.group(0)),")], 'ESC-TABLE'),
    fire('esc-escape-no-backslash', ['C12'], [(ES, "            lambda c: '\\\\' + cls.__ESCAPE_MAP[c.group(0)],", "            lambda c: cls.__ESCAPE_MAP[c.group(0)],")], 'ESC-TABLE'),
    fire('esc-map-two-same-images', ['C12'], [(ES, "        '\\f': 'f',", "        '\\f': 'n',")], 'ESC-TABLE'),
    silent('esc-twin-unescape-local-def', ['C12'], [(ES, "        return re.sub(\n            cls.__UNESCAPE_PATTERN,\n            lambda c: cls.__UNESCAPE_MAP.get(c.group(1), c.group(1)),\n            s)",
                                                     "        def replace(c: re.Match[str]) -> str:\n            escaped = c.group(1)\n            if escaped in cls.__UNESCAPE_MAP:\n                return cls.__UNESCAPE_MAP[escaped]\n            return escaped\n\n        return re.sub(cls.__UNESCAPE_PATTERN, replace, s)")]),
]
VARIANTS += ESCSEM

VARIANTS += [
    fire('claim-found-outer-no-discard', ['C14'], [(IC, "                if id(token) in self._comments_to_claim:\n                    self._comments_to_claim.discard(id(token))\n                    yield token", "                if id(token) in self._comments_to_claim:\n                    yield token")], 'CLAIM-FOUND'),
    fire('claim-found-inner-no-discard', ['C14'], [(IC, "                self._comments_to_claim.discard(id(prev_token))\n                yield prev_token", "                yield prev_token")], 'CLAIM-FOUND'),
]

VARIANTS += [
    fire('dec-exact-abs', ['C09', 'C13'], [(NE, "    number_token = number.Number.from_value(value.copy_abs())", "    number_token = number.Number.from_value(abs(value))")], 'DEC-EXACT'),
    fire('dec-exact-neg', ['C09'], [(NE, "    number_token = number.Number.from_value(value.copy_abs())", "    number_token = number.Number.from_value(-value if value < 0 else value)")], 'DEC-EXACT'),
    fire('dec-exact-create-decimal', ['C12', 'C13'], [(NM, "        return decimal.Decimal(raw_text.replace(',', ''))", "        return decimal.getcontext().create_decimal(raw_text.replace(',', ''))")], 'DEC-EXACT'),
    silent('dec-exact-twin-local', ['C09', 'C13'], [(NE, "    number_token = number.Number.from_value(value.copy_abs())", "    magnitude = value.copy_abs()\n    number_token = number.Number.from_value(magnitude)")]),
]

CU = 'autobean_refactor/models/custom.py'
VARIANTS += [
    fire('disambig-prev-ends-with-number', ['C15'], [(CU, "        if isinstance(prev, NumberExpr):\n            if isinstance(value, Amount):", "        if isinstance(prev, NumberExpr) and isinstance(prev.last_token, Number):\n            if isinstance(value, Amount):"),
                                                     (CU, "from .number_unary_expr import NumberUnaryExpr", "from .number_unary_expr import NumberUnaryExpr\nfrom .number import Number")], 'DISAMBIG'),
    fire('disambig-amount-not-inspected', ['C15'], [(CU, "            if isinstance(value, Amount):\n                number = value.raw_number\n            elif isinstance(value, NumberExpr):", "            if isinstance(value, NumberExpr):")], 'DISAMBIG'),
    fire('disambig-prev-updated-only-for-numbers', ['C15'], [(CU, "        yield value\n        prev = value", "        yield value\n        if isinstance(value, NumberExpr):\n            prev = value")], 'DISAMBIG'),
    silent('disambig-twin-flag', ['C15'], [(CU, "    prev = None\n    for value in values:\n        if isinstance(prev, NumberExpr):", "    prev_is_number = False\n    for value in values:\n        if prev_is_number:"),
                                           (CU, "        yield value\n        prev = value", "        yield value\n        prev_is_number = isinstance(value, NumberExpr)")]),
]

PRN = 'autobean_refactor/printer.py'
VARIANTS += [
    fire('print-skips-empty', ['C01'], [(PRN, "    for token in model.tokens:\n        file.write(token.raw_text)", "    for token in model.tokens:\n        if token.raw_text.strip():\n            file.write(token.raw_text)")], 'PRINT-ALL'),
    fire('print-tokens-drop-last', ['C01'], [(BA, "        return list(self.token_store.iter(self.first_token, self.last_token))", "        return list(self.token_store.iter(self.first_token, self.last_token))[:-1]")], 'PRINT-ALL'),
    fire('print-tokens-from-store-start', ['C01'], [(BA, "        return list(self.token_store.iter(self.first_token, self.last_token))", "        return list(self.token_store.iter(self.token_store.get_first(), self.last_token))")], 'PRINT-ALL'),
    silent('print-twin-attrgetter', ['C01'], [(PRN, "    for token in model.tokens:\n        file.write(token.raw_text)", "    for raw_text in map(operator.attrgetter('raw_text'), model.tokens):\n        file.write(raw_text)"),
                                              (PRN, "import io\n", "import io\nimport operator\n")]),
]

# ---------------------------------------------------------------------- round 6
_EDW = "            with p.open('w', newline='') as f:\n                f.write(updated_text)"
VARIANTS += [
    fire('r6-editor-tmp-sibling', ['C16'], [(ED, _EDW, "            tmp = p.with_name(p.name + '.tmp')\n            with tmp.open('w', newline='') as f:\n                f.write(updated_text)\n            tmp.replace(p)")], 'ED-TARGET'),
    fire('r6-editor-backup-copy', ['C16'], [(ED, _EDW, "            os.replace(p, str(p) + '~')\n" + _EDW)], 'ED-TARGET'),
    fire('r6-editor-unlink-join', ['C16'], [(ED, "            os.unlink(current_path)", "            os.unlink(os.path.join(os.path.dirname(path), os.path.basename(current_path)))")], 'ED-TARGET'),
    silent('r6-twin-editor-tempfile', ['C16'], [(ED, _EDW, "            fd, tmp = tempfile.mkstemp(dir=p.parent)\n            with open(fd, 'w', newline='') as f:\n                f.write(updated_text)\n            os.replace(tmp, p)"),
                                                (ED, "import pathlib\n", "import pathlib\nimport tempfile\n")]),
    silent('r6-twin-editor-fspath', ['C16'], [(ED, _EDW, "            with open(os.fspath(p), 'w', newline='') as f:\n                f.write(updated_text)")]),
    silent('r6-twin-editor-key-list', ['C16'], [(ED, "        for current_path, file in files.items():\n", "        for current_path in list(files):\n            file = files[current_path]\n")]),
    fire('r6-editor-skip-empty', ['C16'], [(ED, "            files[current_path] = self._parser.parse(texts[current_path], models.File)\n",
                                            "            if not texts[current_path]:\n                continue\n            files[current_path] = self._parser.parse(texts[current_path], models.File)\n")], 'ED-SEM'),
    fire('r6-editor-parse-guarded', ['C16'], [(ED, "            files[current_path] = self._parser.parse(texts[current_path], models.File)\n            queue.extend(_get_include_paths(current_path, files[current_path]))\n",
                                               "            if 'include' in texts[current_path]:\n                files[current_path] = self._parser.parse(texts[current_path], models.File)\n                queue.extend(_get_include_paths(current_path, files[current_path]))\n")], 'ED-SEM'),
    silent('r6-twin-editor-local-model', ['C16'], [(ED, "            files[current_path] = self._parser.parse(texts[current_path], models.File)\n            queue.extend(_get_include_paths(current_path, files[current_path]))\n",
                                                    "            parsed = self._parser.parse(texts[current_path], models.File)\n            queue.extend(_get_include_paths(current_path, parsed))\n            files[current_path] = parsed\n")]),
]

VARIANTS += [
    fire('r6-meta-pop-none-default', ['C10'], [(MI, "    def pop(self, index: int | str = -1, default: _V | _Empty = _EMPTY) -> MetaItem | _V:", "    def pop(self, index: int | str = -1, default: Optional[_V] = None) -> MetaItem | _V:"),
                                               (MI, "        if not isinstance(default, _Empty):\n            return default", "        if default is not None:\n            return default")], 'MAP-FIRST'),
    fire('r6-meta-pop-falsy-default', ['C10'], [(MI, "        if not isinstance(default, _Empty):\n            return default", "        if not isinstance(default, _Empty) and default:\n            return default")], 'MAP-FIRST'),
    silent('r6-twin-meta-pop-object-sentinel', ['C10'], [(MI, "class _Empty:\n    pass\n\n\n_EMPTY = _Empty()\n", "_MISSING: Any = object()\n"), (MI, "from typing import Callable,", "from typing import Any, Callable,"),
                                                         (MI, "default: _V | _Empty = _EMPTY) -> MetaItem | _V:", "default: Any = _MISSING) -> MetaItem | _V:"),
                                                         (MI, "default: _V | _Empty = _EMPTY) -> MetaItem | Optional[MetaValue] | _V:", "default: Any = _MISSING) -> MetaItem | Optional[MetaValue] | _V:"),
                                                         (MI, "        if not isinstance(default, _Empty):\n            return default", "        if default is not _MISSING:\n            return default"),
                                                         (MI, "        if not isinstance(default, _Empty):\n            return default", "        if default is not _MISSING:\n            return default")]),
]

VARIANTS += [
    fire('r6-deepcopy-memo-threaded', ['C11'], [(BA, "        del memo  # unused\n        tokens: list[RawTokenModel] = []\n", "        tokens: list[RawTokenModel] = []\n"), (BA, "            new_token = copy.deepcopy(token)\n", "            new_token = copy.deepcopy(token, memo)\n")], 'COPY-STORE'),
    silent('r6-twin-deepcopy-memo-ignored', ['C11'], [(BA, "        del memo  # unused\n        tokens: list[RawTokenModel] = []\n", "        _ = memo\n        tokens: list[RawTokenModel] = []\n")]),
]

GRM = 'autobean_refactor/beancount.lark'
VARIANTS += [
    fire('r6-grammar-account-digit', ['C12', 'C15'], [(GRM, "_ACCOUNT_NAME: (/[A-Z0-9]/ | _NON_ASCII)", "_ACCOUNT_NAME: (/[A-Z]/ | _NON_ASCII)")], 'TERM-DOMAIN'),
    fire('r6-grammar-link-underscore', ['C12'], [(GRM, "LINK: /\\^[A-Za-z0-9-_\\/.]+/", "LINK: /\\^[A-Za-z0-9\\-\\/.]+/")], 'TERM-DOMAIN'),
    fire('r6-grammar-currency-range', ['C12', 'C09'], [(GRM, "_CURRENCY_BODY: /[A-Z0-9'._-]*/", "_CURRENCY_BODY: /[A-Z0-9'.-_]*/")], 'TERM-DOMAIN'),
    silent('r6-twin-grammar-escaped-dash', ['C12', 'C15'], [(GRM, "TAG: /#[A-Za-z0-9-_\\/.]+/", "TAG: /#[A-Za-z0-9\\-_\\/.]+/"), (GRM, "META_KEY: /[a-z][a-zA-Z0-9-_]+:/", "META_KEY: /[a-z][a-zA-Z0-9\\-_]+:/")]),
    silent('r6-twin-grammar-account-one-helper', ['C12', 'C15'], [(GRM, "_ACCOUNT_TYPE: (/[A-Z]/ | _NON_ASCII) (/[A-Za-z0-9\\-]/ | _NON_ASCII)*\n_ACCOUNT_NAME: (/[A-Z0-9]/ | _NON_ASCII) (/[A-Za-z0-9\\-]/ | _NON_ASCII)*\nACCOUNT: _ACCOUNT_TYPE (\":\" _ACCOUNT_NAME)+",
                                                                   "_ACCOUNT_REST: (/[A-Za-z0-9\\-]/ | _NON_ASCII)*\nACCOUNT: (/[A-Z]/ | _NON_ASCII) _ACCOUNT_REST (\":\" (/[A-Z0-9]/ | _NON_ASCII) _ACCOUNT_REST)+")]),
    fire('r6-grammar-flag-priority', ['C15', 'C12'], [(GRM, "POSTING_FLAG: /[*!&#?%PSTCURM]/", "POSTING_FLAG.10: /[*!&#?%PSTCURM]/")], 'LEX-PRIO'),
    fire('fix-revert-bool-whole-word', ['C15'], [(GRM, "BOOL.10: /(?:TRUE|FALSE)(?![A-Za-z0-9'._:\\-]|[^\\x00-\\x7f])/", 'BOOL.10: "TRUE" | "FALSE"')], 'LEX-PRIO'),
    fire('r6-grammar-bool-word-boundary', ['C15'], [(GRM, "BOOL.10: /(?:TRUE|FALSE)(?![A-Za-z0-9'._:\\-]|[^\\x00-\\x7f])/", 'BOOL.10: /(?:TRUE|FALSE)\\b/')], None),
    silent('r6-twin-grammar-null-lookahead-class', ['C15', 'C12'], [(GRM, "NULL.10: /NULL(?![A-Za-z0-9'._:\\-]|[^\\x00-\\x7f])/", "NULL.10: /NULL(?![^\\x00-\\x7f]|[0-9A-Za-z:._'\\-])/")]),
]

DOC = 'autobean_refactor/models/document.py'
VARIANTS += [
    fire('r6-document-trailing-from-leading', ['C15'], [(DOC, "trailing_comment=BlockComment.from_value(trailing_comment) if trailing_comment is not None else None", "trailing_comment=BlockComment.from_value(leading_comment) if trailing_comment is not None else None")], 'FV-ARG'),
    silent('r6-twin-document-trailing-local', ['C15'], [(DOC, "        return cls.from_children(", "        tc = BlockComment.from_value(trailing_comment) if trailing_comment is not None else None\n        return cls.from_children("),
                                                        (DOC, "            trailing_comment=BlockComment.from_value(trailing_comment) if trailing_comment is not None else None,", "            trailing_comment=tc,")]),
]

VARIANTS += [
    fire('r6-meta-update-default-indent', ['C18'], [(MI, "    def keys(self) -> RepeatedMetaKeysView:\n", "    @no_type_check\n    def update(self, other=(), /, **kwargs) -> None:\n        values = dict(other, **kwargs)\n        for item in self:\n            if item.key in values:\n                item.value = values.pop(item.key)\n        self.extend(from_mapping(values, indent=self._default_indent_getter()))\n\n    def keys(self) -> RepeatedMetaKeysView:\n")], 'IND-FLOW'),
    silent('r6-twin-meta-update-sibling-indent', ['C18'], [(MI, "    def keys(self) -> RepeatedMetaKeysView:\n", "    @no_type_check\n    def update(self, other=(), /, **kwargs) -> None:\n        values = dict(other, **kwargs)\n        for item in self:\n            if item.key in values:\n                item.value = values.pop(item.key)\n        indent = self._get_indent()\n        self.extend(from_mapping(values, indent=indent))\n\n    def keys(self) -> RepeatedMetaKeysView:\n")]),
    fire('r6-transaction-meta-default-indent', ['C18'], [(TR, "meta=meta_item_internal.from_mapping(meta, indent=indent_by) if meta is not None else (),", "meta=meta_item_internal.from_mapping(meta) if meta is not None else (),"),
                                                          (MI, "*, indent: str) -> Iterator[MetaItem]:", "*, indent: str = ' ' * 4) -> Iterator[MetaItem]:")], 'IND-CLASS'),
    silent('r6-twin-from-mapping-default-unused', ['C18'], [(MI, "*, indent: str) -> Iterator[MetaItem]:", "*, indent: str = ' ' * 4) -> Iterator[MetaItem]:")]),
]

VARIANTS += [
    fire('r6-operand-zero-refused', ['C13'], [(NE, "        elif isinstance(other, decimal.Decimal):\n            other = NumberExpr.from_value(other)", "        elif isinstance(other, decimal.Decimal):\n            if not other.is_normal():\n                raise ValueError('not a number')\n            other = NumberExpr.from_value(other)")], 'OP-PAIR'),
    fire('r6-operand-negative-refused', ['C13'], [(NE, "        if isinstance(other, int):\n            other = NumberExpr.from_value(decimal.Decimal(other))", "        if isinstance(other, int):\n            if other < 0:\n                return NotImplemented\n            other = NumberExpr.from_value(decimal.Decimal(other))")], 'OP-PAIR'),
    silent('r6-twin-operand-nonfinite-refused', ['C13'], [(NE, "        elif isinstance(other, decimal.Decimal):\n            other = NumberExpr.from_value(other)", "        elif isinstance(other, decimal.Decimal):\n            if not other.is_finite():\n                raise ValueError('not a number')\n            other = NumberExpr.from_value(other)")]),
]

_ITER_PREV = ("    def iter_prev(self, token: _T) -> Iterator[_T]:\n        handle = _check_store_handle(token)\n        yield from reversed(handle.block.tokens[:handle.index])\n"
              "        for i in range(handle.block.index - 1, %s, -1):\n            yield from reversed(self._blocks[i].tokens)\n\n    def get_first(self) -> Optional[_T]:\n")
_SP_OLD = "        return tuple(reversed(_find_spacing(\n                self.token_store.get_prev(self.first_token),\n                self.token_store.get_prev)))"
_SP_NEW = "        it = self.token_store.iter_prev(self.first_token)\n        return tuple(reversed(_find_spacing(next(it, None), lambda _: next(it, None))))"
VARIANTS += [
    fire('r6-store-iter-prev-skips-block0', ['C07', 'C17'], [(TS, "    def get_first(self) -> Optional[_T]:\n", _ITER_PREV % '0'), (SP, _SP_OLD, _SP_NEW)], None),
    silent('r6-twin-store-iter-prev', ['C07', 'C17'], [(TS, "    def get_first(self) -> Optional[_T]:\n", _ITER_PREV % '-1'), (SP, _SP_OLD, _SP_NEW)]),
]

VARIANTS += [
    fire('r6-postlex-comment-no-block', ['C14'], [(PA, "            if indent_text and not indented:\n                indented = True", "            if indent_text and not indented and not comment_text:\n                indented = True")], 'POSTLEX-BLOCK'),
    fire('r6-postlex-no-final-dedent', ['C14'], [(PA, "        if indented:\n            yield lark.Token(self._DEDENT_MARK, '')", "        if indented and not prev_is_block_comment:\n            yield lark.Token(self._DEDENT_MARK, '')")], 'POSTLEX-BLOCK'),
    silent('r6-twin-postlex-flag-name', ['C14', 'C01'], [(PA, "            if indent_text and not indented:\n                indented = True", "            if not indented and indent_text:\n                indented = True")]),
    fire('r6-repeated-eq-subtrees', ['C20'], [(RP, "        return isinstance(other, Repeated) and self.items == other.items", "        if not isinstance(other, Repeated):\n            return False\n        return [i for i in self.items if isinstance(i, base.RawTreeModel)] == [i for i in other.items if isinstance(i, base.RawTreeModel)]")], 'COVER-EQ'),
    silent('r6-twin-repeated-eq-guard', ['C20'], [(RP, "        return isinstance(other, Repeated) and self.items == other.items", "        if not isinstance(other, Repeated):\n            return False\n        return self.items == other.items")]),
    fire('r6-claim-new-separator', ['C14', 'C04'], [(SC, "    backwards: bool,\n    ignore_if_already_claimed: bool,\n) -> Optional[BlockComment]:", "    separators: tuple[base.RawTokenModel, ...] = (),\n    backwards: bool,\n    ignore_if_already_claimed: bool,\n) -> Optional[BlockComment]:"),
                                                     (SC, "                [newline, comment, *ignored], first, comment)", "                [*separators, comment, *ignored], first, comment)")], None),
]

VARIANTS += [
    fire('r6-editor-read-surrogateescape', ['C16'], [(ED, "        with p.open(newline='') as f:", "        with p.open(newline='', errors='surrogateescape') as f:")], 'ED-CODEC'),
    fire('r6-editor-read-latin1', ['C16'], [(ED, "            with open(current_path, newline='') as f:", "            with open(current_path, newline='', encoding='latin-1') as f:")], 'ED-CODEC'),
    silent('r6-twin-editor-utf8-both', ['C16'], [(ED, "        with p.open(newline='') as f:", "        with p.open(newline='', encoding='utf-8') as f:"), (ED, "            with p.open('w', newline='') as f:", "            with p.open('w', newline='', encoding='utf-8') as f:")]),
    fire('r6-date-isoformat', ['C12'], [(DT, "        return f'{value.year:04d}-{value.month:02d}-{value.day:02d}'", "        return value.isoformat()")], 'FMT-LANG'),
]

VARIANTS += [
    fire('r6-claim-shift-nearest-after', ['C05', 'C14'], [(IC, "                self._repeated.token_store, first, comments_after[-1], backwards=False)", "                self._repeated.token_store, first, comments_after[0], backwards=False)")], 'SPLICE-ORDER'),
    fire('r6-claim-shift-nearest-before', ['C05'], [(IC, "                self._repeated.token_store, comments_before[0], self._repeated.first_token, backwards=True)", "                self._repeated.token_store, comments_before[-1], self._repeated.first_token, backwards=True)")], 'SPLICE-ORDER'),
    silent('r6-twin-claim-shift-local', ['C05', 'C14'], [(IC, "            _shift_ignored(\n                self._repeated.token_store, first, comments_after[-1], backwards=False)", "            farthest = comments_after[-1]\n            _shift_ignored(\n                self._repeated.token_store, first, farthest, backwards=False)")]),
]

VARIANTS += [
    fire('r6-drop-many-ascending', ['C19'], [(PR, "        indexes = sorted(indexes, reverse=True)\n", "        indexes = sorted(indexes)\n"),
                                             (PR, "key=lambda i: i + next(count))", "key=lambda i: i - next(count))"),
                                             (PR, "            self._del_tokens(r[-1], r[0] + 1)", "            self._del_tokens(r[0], r[-1] + 1)")], 'DROP-REFUSE'),
]

NU = 'autobean_refactor/models/number_unary_expr.py'
VARIANTS += [
    fire('fix-revert-unary-copy-negate', ['C09', 'C13'], [(NU, "            return self._operand.value.copy_negate()", "            return -self._operand.value")], 'DEC-EXACT'),
]

_BI_OLD = "        cursor = self._cursor\n        while cursor < len(self._tokens):\n            token = self._tokens[cursor]\n            if token.value:\n                if token.type == 'INDENT':\n                    self._fix_gap(cursor)\n                    return self._build_token(token)\n                if not token.type in _IGNORED_TOKENS:\n                    break\n            cursor += 1\n"
VARIANTS += [
    fire('r6-build-indent-skips-model-tokens', ['C01'], [(PA, _BI_OLD, "        for cursor in range(self._cursor, len(self._tokens)):\n            token = self._tokens[cursor]\n            if token.type == 'INDENT' and token.value:\n                self._fix_gap(cursor)\n                return self._build_token(token)\n")], 'BUILDER-CONS'),
    silent('r6-twin-build-indent-for-loop', ['C01'], [(PA, _BI_OLD, "        for cursor in range(self._cursor, len(self._tokens)):\n            token = self._tokens[cursor]\n            if not token.value:\n                continue\n            if token.type == 'INDENT':\n                self._fix_gap(cursor)\n                return self._build_token(token)\n            if token.type not in _IGNORED_TOKENS:\n                break\n")]),
]

# ---------------------------------------------------------------------- round 7
VARIANTS += [
    fire('fix-revert-inline-add-expr', ['C15'], [(NA, "    RULE = 'number_add_expr'\n    INLINE = True\n", "    RULE = 'number_add_expr'\n")], 'INLINE-EOL'),
    fire('r7-claimer-iterates-comments-twice', ['C14'], [(IC, "        self._repeated = repeated\n        self._notify = notify\n", "        self._repeated = repeated\n        self._notify = notify\n        if comments is not None and any(c.token_store is not repeated.token_store for c in comments):\n            pass\n")], 'ITER-ONCE'),
    silent('r7-twin-claimer-materialised', ['C14'], [(IC, "        self._repeated = repeated\n        self._notify = notify\n", "        self._repeated = repeated\n        self._notify = notify\n        if comments is not None:\n            comments = list(comments)\n            _ = len(comments)\n")]),
    fire('r7-unary-minus-again', ['C09'], [(NU, "            return self._operand.value.copy_negate()", "            return 0 - self._operand.value")], 'DEC-EXACT'),
    fire('r7-imuldiv-ops-prepended', ['C13'], [(NE, "            self_mul_expr.raw_ops + (mul_op,))", "            (mul_op,) + self_mul_expr.raw_ops)")], 'OP-SEM'),
    silent('r7-twin-imuldiv-unpack', ['C13'], [(NE, "            self_mul_expr.raw_operands + (atom_expr,),\n            self_mul_expr.raw_ops + (mul_op,))", "            (*self_mul_expr.raw_operands, atom_expr),\n            (*self_mul_expr.raw_ops, mul_op))")]),
    fire('r7-editor-normpath-edit-file', ['C16'], [(ED, "        p = pathlib.Path(path)\n", "        p = pathlib.Path(os.path.normpath(path))\n")], 'ED-SPELL'),
    fire('r7-pop-clears-claimed', ['C05', 'C14'], [(IC, "    def auto_claim_comments(self) -> None:\n        super().auto_claim_comments()\n        self.claim_interleaving_comments()", "    def pop(self, index: int = -1):  # type: ignore[override]\n        value = super().pop(index)\n        if isinstance(value, BlockComment):\n            value.claimed = False\n        return value\n\n    def auto_claim_comments(self) -> None:\n        super().auto_claim_comments()\n        self.claim_interleaving_comments()")], 'FLAG-WRITERS'),
]

# ---------------------------------------------------------------------- round 8
ILC = 'autobean_refactor/models/inline_comment.py'
PUN = 'autobean_refactor/models/punctuation.py'
MVI = 'autobean_refactor/models/meta_value_internal.py'
NM = 'autobean_refactor/models/number_mul_expr.py'
_HANDLER_INIT = ("    def __init__(\n            self,\n            raw_wrapper: properties.RepeatedNodeWrapper[Any],\n            raw_type: Type[_M] | tuple[Type[_M], ...],\n"
                 "            raw_indexes: list[int],\n    ) -> None:\n        self._raw_wrapper = raw_wrapper\n        self._raw_type = raw_type\n        self._raw_indexes = raw_indexes\n")
VARIANTS += [
    fire('fix-revert-setitem-self', ['C03', 'C19'], [(PR, "            if value is item:\n                return  # a[i] *= 2 ends with a[i] = a[i]: already in place, same as replace_node\n", "")], 'NODE-SEM'),
    fire('r8-inline-comment-marker-verbatim', ['C12', 'C09'], [(ILC, "        return f'; {value}' if value else ';'", "        if value.startswith(';'):\n            return value\n        return f'; {value}' if value else ';'")], 'TOK-RT'),
    fire('r8-inline-comment-splitlines', ['C12'], [(ILC, "        return f'; {value}' if value else ';'", "        value = ' '.join(value.splitlines())\n        return f'; {value}' if value else ';'")], 'TOK-RT'),
    fire('r8-inline-comment-rstrip', ['C12'], [(ILC, "        return raw_text.removeprefix(';').lstrip(' ')", "        return raw_text.removeprefix(';').strip(' ')")], 'TOK-RT'),
    silent('r8-twin-inline-comment-two-returns', ['C12', 'C09'], [(ILC, "        return f'; {value}' if value else ';'", "        if not value:\n            return ';'\n        return '; ' + value")]),
    fire('r8-indent-default-for-empty', ['C18'], [(PUN, "    RULE = 'INDENT'\n    DEFAULT = ' ' * 4\n", "    RULE = 'INDENT'\n    DEFAULT = ' ' * 4\n\n    @classmethod\n    def _format_value(cls, value: str) -> str:\n        return value or cls.DEFAULT\n")], 'TOK-RT'),
    silent('r8-twin-indent-identity-override', ['C18', 'C12'], [(PUN, "    RULE = 'INDENT'\n    DEFAULT = ' ' * 4\n", "    RULE = 'INDENT'\n    DEFAULT = ' ' * 4\n\n    @classmethod\n    def _format_value(cls, value: str) -> str:\n        return '' + value\n")]),
    fire('r8-print-builtin', ['C01', 'C02'], [(PRN, "    for token in model.tokens:\n        file.write(token.raw_text)\n", "    print(*(token.raw_text for token in model.tokens), sep='', end='', file=file)\n")], 'PRINT-ALL'),
    silent('r8-twin-print-join', ['C01', 'C02'], [(PRN, "    for token in model.tokens:\n        file.write(token.raw_text)\n", "    file.write(''.join(token.raw_text for token in model.tokens))\n")]),
    fire('r8-handler-dedupe-dataclass', ['C10'], [(PR, "        self._update_handlers.append(handler)\n", "        if handler not in self._update_handlers:\n            self._update_handlers.append(handler)\n"),
                                                  (VP, "import bisect\n", "import bisect\nimport dataclasses\n"),
                                                  (VP, "class _RepeatedValueWrapperUpdateHandler(properties.RepeatedNodeWrapperUpdateHandler):\n" + _HANDLER_INIT,
                                                   "@dataclasses.dataclass\nclass _RepeatedValueWrapperUpdateHandler(properties.RepeatedNodeWrapperUpdateHandler):\n    _raw_wrapper: properties.RepeatedNodeWrapper[Any]\n    _raw_type: Type[_M] | tuple[Type[_M], ...]\n    _raw_indexes: list[int]\n")], 'VIEW-LIVE'),
    silent('r8-twin-handler-dataclass', ['C10'], [(VP, "import bisect\n", "import bisect\nimport dataclasses\n"),
                                                  (VP, "class _RepeatedValueWrapperUpdateHandler(properties.RepeatedNodeWrapperUpdateHandler):\n" + _HANDLER_INIT,
                                                   "@dataclasses.dataclass\nclass _RepeatedValueWrapperUpdateHandler(properties.RepeatedNodeWrapperUpdateHandler):\n    _raw_wrapper: properties.RepeatedNodeWrapper[Any]\n    _raw_type: Type[_M] | tuple[Type[_M], ...]\n    _raw_indexes: list[int]\n")]),
    silent('r8-twin-handler-dedupe-identity', ['C10'], [(PR, "        self._update_handlers.append(handler)\n", "        if handler not in self._update_handlers:\n            self._update_handlers.append(handler)\n")]),
    fire('r8-handler-registered-first-only', ['C10'], [(PR, "        self._update_handlers.append(handler)\n", "        if not self._update_handlers:\n            self._update_handlers.append(handler)\n")], 'VIEW-LIVE'),
    fire('r8-notify-splice-first-handler', ['C10'], [(PR, "        for handler in self._update_handlers:\n            handler.handle_splice(l, r, values)", "        for handler in self._update_handlers[:1]:\n            handler.handle_splice(l, r, values)")], 'VIEW-LIVE'),
    fire('r8-values-view-by-key', ['C10'], [(MI, "class RepeatedMetaValuesView(_DictView, ValuesView[Optional[MetaValue]]):\n    def __iter__(self) -> Iterator[Optional[MetaValue]]:\n        for item in self._wrapper:\n            yield item.value\n",
                                             "class RepeatedMetaValuesView(_DictView, ValuesView[Optional[MetaValue]]):\n    def __iter__(self) -> Iterator[Optional[MetaValue]]:\n        for item in self._wrapper:\n            yield self._wrapper[item.key]\n")], 'MAP-FIRST'),
    fire('r8-popitem-unstripped', ['C10', 'C05'], [(MI, "    def keys(self) -> RepeatedMetaKeysView:\n", "    def popitem(self) -> tuple[str, Optional[MetaValue]]:\n        if not len(self):\n            raise KeyError('popitem(): mapping is empty')\n        item = super().pop()\n        return item.key, item.value\n\n    def keys(self) -> RepeatedMetaKeysView:\n")], 'MAP-FIRST'),
    silent('r8-twin-popitem-through-pop', ['C10', 'C05'], [(MI, "    def keys(self) -> RepeatedMetaKeysView:\n", "    def popitem(self) -> tuple[str, Optional[MetaValue]]:\n        if not len(self):\n            raise KeyError('popitem(): mapping is empty')\n        key = super().__getitem__(-1).key\n        last = len(self) - 1\n        item = super().pop(last)\n        value = item.value\n        if isinstance(value, base.RawModel) and value.token_store:\n            if prev := value.token_store.get_prev(value.first_token):\n                value.token_store.remove(item.first_token, prev)\n            if next := value.token_store.get_next(value.last_token):\n                value.token_store.remove(next, item.last_token)\n        return key, value\n\n    def keys(self) -> RepeatedMetaKeysView:\n")]),
    fire('r8-deepcopy-skips-unclaimed', ['C11'], [(BA, "        return cast(_T, self._map[id(token)])", "        return cast(_T, self._map.get(id(token), token))"),
                                                  (BA, "            token_map[id(token)] = new_token\n", "            if getattr(token, 'claimed', True):\n                token_map[id(token)] = new_token\n")], 'COPY-STORE'),
    silent('r8-twin-transformer-get', ['C11'], [(BA, "        return cast(_T, self._map[id(token)])", "        return cast(_T, self._map.get(id(token), token))")]),
    fire('r8-meta-from-value-exact-type', ['C09', 'C15'], [(MVI, "    match value:\n        case str():\n            return EscapedString.from_value(value)\n        case datetime.date():\n            return Date.from_value(value)\n        case decimal.Decimal():\n            return NumberExpr.from_value(value)\n        case bool():\n            return Bool.from_value(value)\n    return value",
                                                           "    wrap = {str: EscapedString.from_value, datetime.date: Date.from_value, decimal.Decimal: NumberExpr.from_value, bool: Bool.from_value}.get(type(value))\n    if wrap is not None:\n        return wrap(value)\n    return value")], 'META-SEM'),
    silent('r8-twin-meta-from-value-isinstance-chain', ['C09', 'C15'], [(MVI, "    match value:\n        case str():\n            return EscapedString.from_value(value)\n        case datetime.date():\n            return Date.from_value(value)\n        case decimal.Decimal():\n            return NumberExpr.from_value(value)\n        case bool():\n            return Bool.from_value(value)\n    return value",
                                                                        "    if isinstance(value, str):\n        return EscapedString.from_value(value)\n    if isinstance(value, datetime.date):\n        return Date.from_value(value)\n    if isinstance(value, decimal.Decimal):\n        return NumberExpr.from_value(value)\n    if isinstance(value, bool):\n        return Bool.from_value(value)\n    return value")]),
    fire('r8-mul-from-children-adopts-store', ['C15', 'C13'], [(NM, "        tokens = []\n        for operand, op in zip(operands, ops):\n", "        if not ops:\n            operand, = operands\n            return cls(operand.token_store, operands, ops)\n        tokens = []\n        for operand, op in zip(operands, ops):\n")], 'OP-SEM'),
    fire('r8-imuldiv-returns-new-root', ['C13'], [(NE, "        add_expr = NumberAddExpr(self.token_store, (mul_expr,), ())\n        self._number_add_expr = add_expr\n        return self\n\n    @overload\n    def __imul__", "        add_expr = NumberAddExpr(self.token_store, (mul_expr,), ())\n        return type(self)(add_expr.token_store, add_expr)\n\n    @overload\n    def __imul__")], 'OP-SEM'),
    fire('r8-glob-include-hidden', ['C16'], [(ED, "directive.filename), recursive=True)", "directive.filename), recursive=True, include_hidden=True)")], 'ED-GLOB'),
    silent('r8-twin-glob-hidden-false', ['C16'], [(ED, "directive.filename), recursive=True)", "directive.filename), recursive=True, include_hidden=False)")]),
    fire('r8-block-comment-detach-claims', ['C19', 'C14'], [(BC, "    @classmethod\n    def from_value(cls, value: str, *, indent: str = '') -> Self:", "    def detach(self) -> list[base.RawTokenModel]:\n        self._claimed = True\n        return super().detach()\n\n    @classmethod\n    def from_value(cls, value: str, *, indent: str = '') -> Self:")], None),
    silent('r8-twin-block-comment-detach-passthrough', ['C19', 'C14'], [(BC, "    @classmethod\n    def from_value(cls, value: str, *, indent: str = '') -> Self:", "    def detach(self) -> list[base.RawTokenModel]:\n        return super().detach()\n\n    @classmethod\n    def from_value(cls, value: str, *, indent: str = '') -> Self:")]),
    fire('r8-discard-ascending-pops', ['C10', 'C03'], [(VP, "        self._raw_wrapper.drop_many(\n            i for i in self._raw_indexes if self._from_raw_type(self._raw_wrapper[i]) == value)", "        matches = [\n            i for i in self._raw_indexes if self._from_raw_type(self._raw_wrapper[i]) == value]\n        for raw_index in matches:\n            self._raw_wrapper.pop(raw_index)")], 'VIEW-SEM'),
    silent('r8-twin-discard-descending-pops', ['C10', 'C03'], [(VP, "        self._raw_wrapper.drop_many(\n            i for i in self._raw_indexes if self._from_raw_type(self._raw_wrapper[i]) == value)", "        matches = [\n            i for i in self._raw_indexes if self._from_raw_type(self._raw_wrapper[i]) == value]\n        for raw_index in reversed(matches):\n            self._raw_wrapper.pop(raw_index)")]),
    fire('r8-from-children-shared-separators', ['C03'], [(RP, "        tokens: list[base.RawTokenModel] = [placeholder]\n", "        tokens: list[base.RawTokenModel] = [placeholder]\n        item_separators = copy.deepcopy(separators)\n"),
                                                         (RP, "            else:\n                tokens.extend(copy.deepcopy(separators))\n            tokens.extend(item.detach())", "            else:\n                tokens.extend(item_separators)\n            tokens.extend(item.detach())")], 'SEP-FRESH'),
    fire('r8-find-spacing-marker-rules', ['C17'], [(SP, "    while token is not None and not token.raw_text:\n", "    while token is not None and token.RULE in frozenset({'PLACEHOLDER', 'EOL'}):\n")], 'SP-SEM'),
    fire('r8-text-to-tokens-drops-tail', ['C17'], [(SP, "    for whitespace, newline in _SPACING_GROUP_RE.findall(text):\n        if whitespace:\n            yield Whitespace.from_raw_text(whitespace)\n        if newline:\n            yield Newline.from_raw_text(newline)\n",
                                                    "    parts = re.split(r'(\\r*\\n)', text)\n    for blanks, line_break in zip(parts[::2], parts[1::2]):\n        if blanks:\n            yield Whitespace.from_raw_text(blanks)\n        yield Newline.from_raw_text(line_break)\n")], 'SP-ROUTE'),
    silent('r8-twin-text-to-tokens-split', ['C17'], [(SP, "    for whitespace, newline in _SPACING_GROUP_RE.findall(text):\n        if whitespace:\n            yield Whitespace.from_raw_text(whitespace)\n        if newline:\n            yield Newline.from_raw_text(newline)\n",
                                                      "    parts = re.split(r'(\\r*\\n)', text)\n    for blanks, line_break in zip(parts[::2], parts[1::2]):\n        if blanks:\n            yield Whitespace.from_raw_text(blanks)\n        yield Newline.from_raw_text(line_break)\n    if parts[-1]:\n        yield Whitespace.from_raw_text(parts[-1])\n")]),
]

# ---------------------------------------------------------------------- round 9 (eight properties with the lowest first-run rates)
ACC = 'autobean_refactor/models/account.py'
NUMF = 'autobean_refactor/models/number.py'
CST = 'autobean_refactor/models/cost.py'
CUS = 'autobean_refactor/models/custom.py'
_UNS_OLD = ("    match value:\n        case str():\n            return EscapedString.from_value(value)\n        case datetime.date():\n            return Date.from_value(value)\n"
            "        case bool():\n            return Bool.from_value(value)\n        case decimal.Decimal():\n            return NumberExpr.from_value(value)\n        case _:\n            return value\n")
VARIANTS += [
    fire('r9-matches-text-prefix', ['C16'], [(PRN, "    return file\n", "    return file\n\n\ndef matches_text(model: models.RawModel, text: str) -> bool:\n    pos = 0\n    for token in model.tokens:\n        raw_text = token.raw_text\n        if not text.startswith(raw_text, pos):\n            return False\n        pos += len(raw_text)\n    return True\n"),
                                             (ED, "        updated_text = printer.print_model(file, io.StringIO()).getvalue()\n        if updated_text != text:\n            with p.open('w', newline='') as f:\n                f.write(updated_text)", "        if not printer.matches_text(file, text):\n            with p.open('w', newline='') as f:\n                printer.print_model(file, f)")], 'ED-SEM'),
    silent('r9-twin-matches-text-exact', ['C16'], [(PRN, "    return file\n", "    return file\n\n\ndef matches_text(model: models.RawModel, text: str) -> bool:\n    pos = 0\n    for token in model.tokens:\n        raw_text = token.raw_text\n        if not text.startswith(raw_text, pos):\n            return False\n        pos += len(raw_text)\n    return pos == len(text)\n"),
                                                   (ED, "        updated_text = printer.print_model(file, io.StringIO()).getvalue()\n        if updated_text != text:\n            with p.open('w', newline='') as f:\n                f.write(updated_text)", "        if not printer.matches_text(file, text):\n            with p.open('w', newline='') as f:\n                printer.print_model(file, f)")]),
    fire('r9-includes-stop-at-dated-entry', ['C16'], [(ED, "        if not isinstance(directive, models.Include):\n            continue\n", "        if not isinstance(directive, models.Include):\n            if hasattr(directive, 'raw_date'):\n                break\n            continue\n")], 'ED-SEM'),
    fire('r9-wrapper-caches-items', ['C10'], [(PR, "        self._update_handlers = list[RepeatedNodeWrapperUpdateHandler]()\n", "        self._items = repeated.items\n        self._update_handlers = list[RepeatedNodeWrapperUpdateHandler]()\n"),
                                              (PR, "    def __len__(self) -> int:\n        return len(self._repeated.items)", "    def __len__(self) -> int:\n        return len(self._items)")], 'ALIAS-REBIND'),
    silent('r9-twin-wrapper-caches-field-separators', ['C10'], [(PR, "        self._update_handlers = list[RepeatedNodeWrapperUpdateHandler]()\n", "        self._seps = field.separators\n        self._update_handlers = list[RepeatedNodeWrapperUpdateHandler]()\n")]),
    fire('r9-view-index-negative-start', ['C10'], [(VP, "    def discard(self, value: _V) -> None:\n", "    def index(self, value: _V, start: int = 0, stop: Optional[int] = None) -> int:\n        for i, raw_index in enumerate(self._raw_indexes[start:stop], start):\n            v = self._from_raw_type(self._raw_wrapper[raw_index])\n            if v is value or v == value:\n                return i\n        raise ValueError(f'{value!r} is not in list')\n\n    def discard(self, value: _V) -> None:\n")], 'VIEW-SEM'),
    fire('r9-account-nfc', ['C12', 'C09'], [(ACC, "    RULE = 'ACCOUNT'\n", "    RULE = 'ACCOUNT'\n\n    @classmethod\n    def _format_value(cls, value: str) -> str:\n        import unicodedata\n        return unicodedata.normalize('NFC', value)\n")], None),
    fire('r9-account-ascii-only-check', ['C12'], [(ACC, "    RULE = 'ACCOUNT'\n", "    RULE = 'ACCOUNT'\n\n    @classmethod\n    def _format_value(cls, value: str) -> str:\n        if not all(part[:1].isupper() or part[:1].isdigit() for part in value.split(':')):\n            raise ValueError(f'Invalid account name: {value!r}')\n        return value\n")], 'TOK-RT'),
    fire('r9-number-grouping-check-too-strict', ['C12'], [(NUMF, "        return decimal.Decimal(raw_text.replace(',', ''))", "        import re\n        if ',' in raw_text and not re.fullmatch(r'[0-9]{1,3}(,[0-9]{3})+(\\.[0-9]+)?', raw_text):\n            raise ValueError(f'Invalid number: {raw_text!r}')\n        return decimal.Decimal(raw_text.replace(',', ''))")], 'LEX-ACCEPT'),
    silent('r9-twin-number-grouping-check', ['C12'], [(NUMF, "        return decimal.Decimal(raw_text.replace(',', ''))", "        import re\n        if ',' in raw_text and not re.fullmatch(r'[0-9]{1,3}(,[0-9]{3})+(\\.[0-9]*)?', raw_text):\n            raise ValueError(f'Invalid number: {raw_text!r}')\n        return decimal.Decimal(raw_text.replace(',', ''))")]),
    fire('r9-custom-unsimplify-exact-type', ['C09', 'C15'], [(CUS, _UNS_OLD, "    raw_type = {str: EscapedString, datetime.date: Date, bool: Bool, decimal.Decimal: NumberExpr}.get(type(value))\n    if raw_type is None:\n        return value\n    return raw_type.from_value(value)\n")], 'CUSTOM-SEM'),
    fire('r9-parsed-children-truthy-narration', ['C09', 'C15'], [(TR, "        return super().from_parsed_children(\n            token_store,\n            leading_comment,\n            date,\n            flag,\n            string0,\n            string1,\n            string2,\n            *args)", "        model = super().from_parsed_children(\n            token_store,\n            leading_comment,\n            date,\n            flag,\n            string0,\n            string1,\n            string2,\n            *args)\n        if model.payee is not None and not model.narration:\n            model._string1, model._string2 = None, model._string1\n        return model")], 'PRESENCE-TRUTH'),
    fire('r9-swap-braces-whole-store', ['C09'], [(CST, "        self.token_store.replace(self._left_brace, dbl_left_brace)\n        self.token_store.replace(self._right_brace, dbl_right_brace)\n", "        old_left, *_, old_right = self.token_store\n        self.token_store.replace(old_left, dbl_left_brace)\n        self.token_store.replace(old_right, dbl_right_brace)\n")], 'STORE-EDGE'),
    fire('r9-find-spacing-none-hoisted', ['C17'], [(SP, "    while token is not None and not token.raw_text:\n        token = succ(token)\n", "    if token is None:\n        return tokens\n    while not token.raw_text:\n        token = succ(token)\n")], None),
    fire('r9-raw-text-redeclared-read-only', ['C02'], [(BA, "    @property\n    def token_store(self) -> Optional[TokenStore]:\n        return self.store_handle.block.store if self.store_handle else None", "    @property\n    def raw_text(self) -> str:\n        return super().raw_text\n\n    @property\n    def token_store(self) -> Optional[TokenStore]:\n        return self.store_handle.block.store if self.store_handle else None")], 'PROP-SHADOW'),
    # ------------------------------------------------------------------ round 10: TREE-SEM (tree-building half of ModelBuilder)
    fire('r10-tree-none-child-skipped', ['C01'], [(PA, "            if child is None:\n                children.append(child)\n", "            if child is None:\n                continue\n")], 'TREE-SEM'),
    fire('r10-tree-placeholder-after-items', ['C01', 'C05'], [(PA, "        placeholder = self._build_placeholder(_Floating.LEFT)\n        items = [\n            self._build_required_node(child) for child in node.children\n            if not (isinstance(child, lark.Tree) and child.data.endswith('_'))\n        ]\n", "        items = [\n            self._build_required_node(child) for child in node.children\n            if not (isinstance(child, lark.Tree) and child.data.endswith('_'))\n        ]\n        placeholder = self._build_placeholder(_Floating.LEFT)\n")], 'TREE-SEM'),
    fire('r10-tree-children-reversed-build', ['C01', 'C05'], [(PA, "        return model_type.from_parsed_children(self._token_store, *children)", "        return model_type.from_parsed_children(self._token_store, *sorted(children, key=lambda c: c is None))")], 'TREE-SEM'),
    fire('r10-tree-repeated-own-store', ['C05'], [(PA, "        return internal.Repeated(self._token_store, items, placeholder)", "        return internal.Repeated(models.TokenStore.from_tokens([]), items, placeholder)")], 'TREE-SEM'),
    silent('r10-twin-tree-repeated-lazy-items', ['C01', 'C05'], [(PA, "        items = [\n            self._build_required_node(child) for child in node.children\n            if not (isinstance(child, lark.Tree) and child.data.endswith('_'))\n        ]\n", "        items = (\n            self._build_required_node(child) for child in node.children\n            if not (isinstance(child, lark.Tree) and child.data.endswith('_'))\n        )\n")]),
    fire('r10-tree-dropped-subtree-in-repeated-kept', ['C01', 'C05'], [(PA, "            if not (isinstance(child, lark.Tree) and child.data.endswith('_'))\n        ]", "            if not (isinstance(child, lark.Tree) and child.data.endswith('__'))\n        ]")], None),
    fire('r10-tree-token-rebuilt-for-model', ['C05'], [(PA, "        if isinstance(node, lark.Token):\n            return self._build_token(node)\n", "        if isinstance(node, lark.Token):\n            self._build_token(node)\n            return models.TOKEN_MODELS[node.type].from_raw_text(node.value)\n")], 'TREE-SEM'),
    silent('r10-twin-tree-loop-restructured', ['C01', 'C05'], [(PA, "            elif is_tree and child.data.endswith('_'):\n                continue\n            else:\n                children.append(self._build_required_node(child))\n", "            elif not (is_tree and child.data.endswith('_')):\n                children.append(self._build_required_node(child))\n")]),
    silent('r10-twin-repeated-loop', ['C01', 'C05'], [(PA, "        items = [\n            self._build_required_node(child) for child in node.children\n            if not (isinstance(child, lark.Tree) and child.data.endswith('_'))\n        ]\n", "        items = []\n        for child in node.children:\n            if isinstance(child, lark.Tree) and child.data.endswith('_'):\n                continue\n            items.append(self._build_required_node(child))\n")]),
    fire('r10-registry-by-class-name', ['C01'], [('autobean_refactor/models/internal/registry.py', "    TREE_MODELS[cls.RULE] = cls\n", "    TREE_MODELS.setdefault(cls.RULE, cls)\n    TREE_MODELS[cls.__name__.lower()] = cls\n")], 'REG-SEM'),
    fire('r10-registry-first-wins-token', ['C01'], [('autobean_refactor/models/internal/registry.py', "    TOKEN_MODELS[cls.RULE] = cls\n    return cls", "    TOKEN_MODELS[cls.RULE] = cls\n    return TOKEN_MODELS[cls.RULE.upper()]")], 'REG-SEM'),
    silent('r10-twin-registry-update', ['C01'], [('autobean_refactor/models/internal/registry.py', "    TREE_MODELS[cls.RULE] = cls\n", "    TREE_MODELS.update({cls.RULE: cls})\n")]),
    fire('r10-raw-index-identity-first', ['C10', 'C05'], [(PR, "    def __deepcopy__(self, memo: dict[int, Any]) -> 'RepeatedNodeWrapper':\n        repeated = copy.deepcopy(self._repeated, memo)\n        return RepeatedNodeWrapper(repeated, self._field)", "    def index(self, value: Any, start: int = 0, stop: Optional[int] = None) -> int:\n        items = self._repeated.items\n        candidates = range(*slice(start, stop).indices(len(items)))\n        for i in candidates:\n            if items[i] is value:\n                return i\n        for i in candidates:\n            if items[i] == value:\n                return i\n        raise ValueError(f'{value!r} is not in list')\n\n    def __deepcopy__(self, memo: dict[int, Any]) -> 'RepeatedNodeWrapper':\n        repeated = copy.deepcopy(self._repeated, memo)\n        return RepeatedNodeWrapper(repeated, self._field)")], 'NODE-SEM'),
    silent('r10-twin-raw-index-single-pass', ['C10', 'C05', 'C03', 'C19'], [(PR, "    def __deepcopy__(self, memo: dict[int, Any]) -> 'RepeatedNodeWrapper':\n        repeated = copy.deepcopy(self._repeated, memo)\n        return RepeatedNodeWrapper(repeated, self._field)", "    def index(self, value: Any, start: int = 0, stop: Optional[int] = None) -> int:\n        items = self._repeated.items\n        for i in range(*slice(start, stop).indices(len(items))):\n            if items[i] is value or items[i] == value:\n                return i\n        raise ValueError(f'{value!r} is not in list')\n\n    def count(self, value: Any) -> int:\n        return sum(1 for item in self._repeated.items if item is value or item == value)\n\n    def __contains__(self, value: Any) -> bool:\n        return any(item is value or item == value for item in self._repeated.items)\n\n    def __deepcopy__(self, memo: dict[int, Any]) -> 'RepeatedNodeWrapper':\n        repeated = copy.deepcopy(self._repeated, memo)\n        return RepeatedNodeWrapper(repeated, self._field)")]),
    fire('r10-editor-crc-only', ['C16'], [(ED, "import pathlib\n", "import pathlib\nimport zlib\n"), (ED, "        yield file\n\n        updated_text = printer.print_model(file, io.StringIO()).getvalue()\n        if updated_text != text:", "        checksum = zlib.crc32(text.encode())\n        del text\n\n        yield file\n\n        updated_text = printer.print_model(file, io.StringIO()).getvalue()\n        if zlib.crc32(updated_text.encode()) != checksum:")], 'ED-SEM'),
    silent('r10-twin-editor-crc-fastpath', ['C16', 'C20', 'C05'], [(ED, "import pathlib\n", "import pathlib\nimport zlib\n"), (ED, "        yield file\n\n        updated_text = printer.print_model(file, io.StringIO()).getvalue()\n        if updated_text != text:", "        checksum = zlib.crc32(text.encode())\n\n        yield file\n\n        updated_text = printer.print_model(file, io.StringIO()).getvalue()\n        if zlib.crc32(updated_text.encode()) != checksum or updated_text != text:")]),
    fire('r10-editor-texts-on-instance', ['C16'], [(ED, "        texts = dict[str, str]()\n", "        self._texts = texts = dict[str, str]()\n"), (ED, "        for current_path in set(texts) - set(files):", "        for current_path in set(self._texts) - set(files):"), (ED, "            if updated_text != texts.get(current_path):", "            if updated_text != self._texts.get(current_path):")], 'ED-SEM'),
    silent('r10-twin-editor-texts-also-on-instance', ['C16'], [(ED, "        texts = dict[str, str]()\n", "        self._last_texts = texts = dict[str, str]()\n")]),
    fire('r10-escape-quote-after-backslash', ['C12', 'C09'], [('autobean_refactor/models/escaped_string.py', "    __ESCAPE_PATTERN = re.compile(r'[\\\\\"]')", "    __ESCAPE_PATTERN = re.compile(r'\\\\|(?<!\\\\)\"')")], 'ESC-RT'),
    silent('r10-twin-escape-pattern-alternation', ['C12', 'C09', 'C15'], [('autobean_refactor/models/escaped_string.py', "    __ESCAPE_PATTERN = re.compile(r'[\\\\\"]')", "    __ESCAPE_PATTERN = re.compile(r'\\\\|\"')")]),
    fire('r10-number-format-abs', ['C12', 'C09'], [('autobean_refactor/models/number.py', "        return format(value, 'f')", "        return format(abs(value), 'f')")], 'NUM-RT'),
    fire('r10-number-format-str-unless-positive-exponent', ['C12', 'C15'], [('autobean_refactor/models/number.py', "        return format(value, 'f')", "        if value.as_tuple().exponent > 0:\n            return format(value, 'f')\n        return str(value)")], 'NUM-RT'),
    silent('r10-twin-number-format-fstring', ['C12', 'C09', 'C15'], [('autobean_refactor/models/number.py', "        return format(value, 'f')", "        return f'{value:f}'")]),
    fire('r10-cost-right-brace-not-replaced', ['C09'], [('autobean_refactor/models/cost.py', "        self.token_store.replace(self._right_brace, dbl_right_brace)\n", "")], 'COST-SEM'),
    fire('r10-cost-braces-crossed', ['C09'], [('autobean_refactor/models/cost.py', "        return UnitCost(self.token_store, left_brace, self._components, right_brace)", "        return UnitCost(self.token_store, right_brace, self._components, left_brace)")], 'COST-SEM'),
    fire('r10-cost-into-unit-keeps-old-cost', ['C09'], [(CS, "        self._cost = total_cost.into_unit_cost()", "        total_cost.into_unit_cost()")], 'COST-SEM'),
    fire('r10-cost-merge-setter-inverted', ['C09'], [(CS, "        if current and not value:\n            self.raw_asterisk = None\n        elif not current and value:", "        if current and not value:\n            self.raw_asterisk = None\n        elif value:")], 'COST-SEM'),
    silent('r10-twin-cost-into-total-splice', ['C09', 'C05'], [('autobean_refactor/models/cost.py', "        self.token_store.replace(self._left_brace, dbl_left_brace)\n        self.token_store.replace(self._right_brace, dbl_right_brace)\n", "        store = self.token_store\n        store.replace(self._right_brace, dbl_right_brace)\n        store.replace(self._left_brace, dbl_left_brace)\n")]),
    silent('r10-twin-cost-merge-setter-compare', ['C09'], [(CS, "        if current and not value:\n            self.raw_asterisk = None\n        elif not current and value:", "        if current == bool(value):\n            return\n        if current:\n            self.raw_asterisk = None\n        else:")]),
    fire('r10-spacing-follow-line-endings', ['C17'], [(SP, "def _find_spacing(", "def _follow_line_endings(model: base.RawModel, text: str) -> str:\n    if model.token_store is None or '\\n' not in text:\n        return text\n    for token in model.token_store:\n        if isinstance(token, Newline):\n            if token.raw_text.endswith('\\r\\n'):\n                return re.sub(r'(?<!\\r)\\n', '\\r\\n', text)\n            break\n    return text\n\n\ndef _find_spacing("), (SP, "        self.raw_spacing_before = tuple(_text_to_tokens(value))", "        self.raw_spacing_before = tuple(_text_to_tokens(_follow_line_endings(self, value)))")], 'SP-ROUTE'),
    fire('r10-spacing-trailing-blanks-as-indent', ['C17'], [(SP, "from ..spacing import Newline, Whitespace\n", "from ..spacing import Newline, Whitespace\nfrom .registry import TOKEN_MODELS\n"), (SP, "    for whitespace, newline in _SPACING_GROUP_RE.findall(text):\n        if whitespace:\n            yield Whitespace.from_raw_text(whitespace)", "    groups = _SPACING_GROUP_RE.findall(text)\n    for i, (whitespace, newline) in enumerate(groups):\n        if whitespace:\n            if 0 < i == len(groups) - 1 and groups[i - 1][1]:\n                yield TOKEN_MODELS['INDENT'].from_raw_text(whitespace)\n            else:\n                yield Whitespace.from_raw_text(whitespace)")], 'SP-ROUTE'),
    silent('r10-twin-spacing-classes-from-registry', ['C17'], [(SP, "from ..spacing import Newline, Whitespace\n", "from ..spacing import Newline, Whitespace\nfrom .registry import TOKEN_MODELS\n"), (SP, "            yield Whitespace.from_raw_text(whitespace)", "            yield TOKEN_MODELS['WHITESPACE'].from_raw_text(whitespace)")]),
    fire('r10-tree-indent2-not-handled', ['C01'], [(PA, "            elif is_tree and child.data in ('indent', 'indent2'):", "            elif is_tree and child.data in ('indent',):")], 'GRAM-REG'),
    fire('r10-tree-helper-looks-at-token-text', ['C01', 'C05'], [(PA, "    def _build_tree(self, tree: lark.Tree) -> models.RawTreeModel:", "    @staticmethod\n    def _is_helper(node: lark.Token | lark.Tree) -> bool:\n        name = node.data if isinstance(node, lark.Tree) else str(node)\n        return name.endswith('_')\n\n    def _build_tree(self, tree: lark.Tree) -> models.RawTreeModel:"), (PA, "            elif is_tree and child.data.endswith('_'):", "            elif self._is_helper(child):")], 'TREE-SEM'),
    silent('r10-twin-tree-helper-for-dropped-rules', ['C01', 'C05'], [(PA, "    def _build_tree(self, tree: lark.Tree) -> models.RawTreeModel:", "    @staticmethod\n    def _is_helper(node: lark.Token | lark.Tree) -> bool:\n        return isinstance(node, lark.Tree) and node.data.endswith('_')\n\n    def _build_tree(self, tree: lark.Tree) -> models.RawTreeModel:"), (PA, "            elif is_tree and child.data.endswith('_'):", "            elif self._is_helper(child):"), (PA, "            if not (isinstance(child, lark.Tree) and child.data.endswith('_'))\n        ]", "            if not self._is_helper(child)\n        ]")]),
    fire('r10-build-no-final-gap-for-inline', ['C01'], [(PA, "        self._fix_gap(len(self._tokens))\n        self._token_store.insert_after", "        if not model_type.INLINE:\n            self._fix_gap(len(self._tokens))\n        self._token_store.insert_after")], 'TREE-SEM'),
    fire('r10-ignored-line-blank-before-eol', ['C15'], [('autobean_refactor/models/generated/ignored_line.py', "from ..spacing import Newline\n", "from ..spacing import Newline, Whitespace\n"), ('autobean_refactor/models/generated/ignored_line.py', "            *ignored.detach(),\n            *eol.detach(),", "            *ignored.detach(),\n            Whitespace.from_default(),\n            *eol.detach(),")], 'SEP-LEX'),
    fire('r10-find-inner-loop-negated', ['C14'], [(IC, "            while token is not None and token is not end:", "            while not (token is not None and token is not end):")], 'FIND-SEM'),
    fire('r10-find-inner-stops-at-claimed', ['C14'], [(IC, "                if prev_token.claimed:\n                    continue\n                self._comments_to_claim.discard(id(prev_token))\n                yield prev_token\n            yield item", "                if prev_token.claimed:\n                    break\n                self._comments_to_claim.discard(id(prev_token))\n                yield prev_token\n            yield item")], 'FIND-SEM'),
    silent('r10-twin-find-inner-store-local', ['C14'], [(IC, "                prev_token, token = token, self._repeated.token_store.get_next(token)", "                prev_token, token = token, token_store.get_next(token)")]),
]
