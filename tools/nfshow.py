#!/venv/bin/python
"""tools/nfshow.py <k.diff> <qualname>: print both normal forms (unparsed)"""
import ast, os, subprocess, sys, tempfile, shutil
sys.path.insert(0, '/verif')
from vf import nf
from tools.nfcheck import funcs
path, qual = sys.argv[1], sys.argv[2]
work = tempfile.mkdtemp(prefix='nf_', dir='/tmp')
dst = os.path.join(work, 'r')
shutil.copytree('/repo/autobean_refactor', os.path.join(dst, 'autobean_refactor'), ignore=shutil.ignore_patterns('__pycache__'))
subprocess.run(['patch', '-p1', '-s', '-i', os.path.abspath(path)], cwd=dst)
for f in [l[6:].strip() for l in open(path) if l.startswith('+++ b/') and l.strip().endswith('.py')]:
    a = funcs(ast.parse(open('/repo/' + f).read()))
    b = funcs(ast.parse(open(os.path.join(dst, f)).read()))
    if qual in a and qual in b:
        print('--- original'); print(ast.unparse(nf.normalise(a[qual])))
        print('--- twin'); print(ast.unparse(nf.normalise(b[qual])))
shutil.rmtree(work, ignore_errors=True)
