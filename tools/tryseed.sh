#!/bin/bash
# tools/tryseed.sh <seeded name> <prop> [...] : apply a stored seeded change to a scratch copy of /repo and show what the named checks say
n=$1; shift
w=$(mktemp -d /tmp/ts_XXXX); cp -r /repo/autobean_refactor $w/; (cd $w && git init -q . 2>/dev/null; patch -p1 -s < /verif/seeded/$n/patch.diff) || echo PATCH-FAILED
for p in "$@"; do VERIF_REPO=$w VERIF_EVIDENCE_DIR=$w/ev /verif/check $p ${TIER:+--tier $TIER} 2>&1 | grep "ANALYSIS\|rule      :\|instance  :\|construct :\|^C.. \[" | cut -c1-700; done
rm -rf $w
