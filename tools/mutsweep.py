#!/venv/bin/python -B
"""tools/mutsweep.py [-j N] [--max-per-func K] [module-substring ...] -- a blind-spot finder for the machinery (not a registered check).

For every function of the hand-written (non-test, non-generated) modules of /repo it derives a few crude mutants -- a statement replaced by
`pass`, an `if` / `while` test negated, a `return <expr>` of a non-constant turned into `return None` is NOT used (too noisy) -- applies each to a
scratch copy of the repository, and runs every registered quick check on the copy.  The output lists, per function, how many of its mutants made
some check exit 1 (and which rules), so that functions in which *nothing* is ever noticed stand out.  Most such mutants fail the unit tests and
many are equivalent; the sweep says where the checks do not look, nothing more.  Results: /tmp/mutsweep.json (or $MUTSWEEP_OUT)."""
import ast, concurrent.futures, json, os, re, shutil, subprocess, sys, tempfile, glob

HERE = os.path.dirname(os.path.dirname(os.path.abspath(__file__)))
REPO = os.environ.get('VERIF_REPO', '/repo')
MAN = json.load(open(f'{HERE}/MANIFEST.json'))
args = [a for a in sys.argv[1:]]
jobs = 8
maxper = 2
subs = []
i = 0
while i < len(args):
    if args[i] == '-j':
        jobs = int(args[i + 1]); i += 2
    elif args[i] == '--max-per-func':
        maxper = int(args[i + 1]); i += 2
    else:
        subs.append(args[i]); i += 1


def mutants_of(path: str):
    src = open(path).read()
    lines = src.splitlines(keepends=True)
    tree = ast.parse(src)
    offs = [0]
    for l in lines:
        offs.append(offs[-1] + len(l.encode()))
    bsrc = src.encode()

    def seg(n):
        return offs[n.lineno - 1] + n.col_offset, offs[n.end_lineno - 1] + n.end_col_offset

    out = []

    def visit(fn, qual):
        mine = []
        body = fn.body[1:] if fn.body and isinstance(fn.body[0], ast.Expr) and isinstance(getattr(fn.body[0], 'value', None), ast.Constant) else fn.body

        def walk(stmts, depth):
            for st in stmts:
                if isinstance(st, (ast.FunctionDef, ast.AsyncFunctionDef, ast.ClassDef)):
                    continue
                if isinstance(st, (ast.Expr, ast.Assign, ast.AugAssign)) and not (isinstance(st, ast.Expr) and isinstance(st.value, ast.Constant)):
                    a, b = seg(st)
                    mine.append(('del', st.lineno, a, b, b'pass'))
                if isinstance(st, (ast.If, ast.While)):
                    a, b = seg(st.test)
                    mine.append(('neg', st.lineno, a, b, b'not (' + bsrc[a:b] + b')'))
                for f in ('body', 'orelse', 'finalbody'):
                    if hasattr(st, f):
                        walk(getattr(st, f), depth + 1)
                if isinstance(st, ast.Try):
                    for h in st.handlers:
                        walk(h.body, depth + 1)
        walk(body, 0)
        # spread the picks over the function: first deletion, first negation, then the rest from the end
        picks = []
        for kind in ('del', 'neg'):
            c = [m for m in mine if m[0] == kind]
            if c:
                picks.append(c[0])
        rest = [m for m in reversed(mine) if m not in picks]
        picks += rest
        for kind, line, a, b, new in picks[:maxper]:
            out.append({'file': path, 'func': qual, 'kind': kind, 'line': line, 'a': a, 'b': b, 'new': new.decode(), 'old': bsrc[a:b].decode()[:80]})

    def rec(node, prefix):
        for ch in ast.iter_child_nodes(node):
            if isinstance(ch, ast.ClassDef):
                rec(ch, prefix + ch.name + '.')
            elif isinstance(ch, (ast.FunctionDef, ast.AsyncFunctionDef)):
                visit(ch, prefix + ch.name)
                rec(ch, prefix + ch.name + '.')
    rec(tree, '')
    return out


def run_one(m):
    work = tempfile.mkdtemp(prefix='ms_', dir='/tmp')
    try:
        dst = os.path.join(work, 'repo')
        shutil.copytree(REPO, dst, ignore=shutil.ignore_patterns('.git', '__pycache__', 'docs', '*.pyc', '*_test.py'))
        rel = os.path.relpath(m['file'], REPO)
        fp = os.path.join(dst, rel)
        b = open(fp, 'rb').read()
        nb = b[:m['a']] + m['new'].encode() + b[m['b']:]
        try:
            ast.parse(nb.decode())
        except SyntaxError:
            return m, 'syntax', {}
        open(fp, 'wb').write(nb)
        env = dict(os.environ, VERIF_REPO=dst, VERIF_EVIDENCE_DIR=os.path.join(work, 'ev'))
        res = {}
        for c in MAN['checks']:
            rr = subprocess.run(c['quick_cmd'], shell=True, cwd=HERE, env=env, capture_output=True, text=True)
            if rr.returncode != 0:
                rules = sorted(set(re.findall(r'^  rule      : ([A-Z0-9-]+)', rr.stdout, re.M)))
                res[c['property_id']] = {'exit': rr.returncode, 'rules': rules,
                                         'err': [l[:200] for l in rr.stdout.splitlines() if l.startswith('ANALYSIS')][:2]}
        return m, 'ran', res
    finally:
        shutil.rmtree(work, ignore_errors=True)


files = []
for f in sorted(glob.glob(f'{REPO}/autobean_refactor/**/*.py', recursive=True)):
    if f.endswith('_test.py') or '/generated/' in f or 'conftest' in f or '/modelgen/' in f or '/meta_models/' in f or '/tests/' in f:
        continue
    if subs and not any(s in f for s in subs):
        continue
    files.append(f)
muts = []
for f in files:
    muts += mutants_of(f)
print(len(files), 'files', len(muts), 'mutants', flush=True)
out_path = os.environ.get('MUTSWEEP_OUT', '/tmp/mutsweep.json')
results = []
with concurrent.futures.ProcessPoolExecutor(jobs) as ex:
    for k, (m, st, res) in enumerate(ex.map(run_one, muts)):
        fired = sorted({r for v in res.values() if v['exit'] == 1 for r in v['rules']})
        stopped = sorted(p for p, v in res.items() if v['exit'] == 2)
        results.append({**{x: m[x] for x in ('file', 'func', 'kind', 'line', 'old')}, 'status': st, 'fired': fired, 'exit2': stopped})
        print(f"{'CAUGHT ' if fired else 'exit2  ' if stopped else 'SILENT '} {os.path.relpath(m['file'], REPO)}:{m['line']} {m['func']} [{m['kind']}] {m['old'][:50]!r} -> {fired or stopped}", flush=True)
        if k % 20 == 0:
            json.dump(results, open(out_path, 'w'), indent=0)
json.dump(results, open(out_path, 'w'), indent=0)
byf = {}
for r in results:
    byf.setdefault((r['file'], r['func']), []).append(bool(r['fired']) or bool(r['exit2']))
blind = [k for k, v in byf.items() if not any(v)]
print(f'{len(results)} mutants; functions with no mutant noticed: {len(blind)} of {len(byf)}')
for f, q in blind:
    print('  BLIND', os.path.relpath(f, REPO), q)
