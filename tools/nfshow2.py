#!/venv/bin/python
"""tools/nfshow2.py <k.diff> <qualname>: normal forms with private helpers inlined (original vs twin)"""
import ast, os, subprocess, sys, tempfile, shutil
sys.path.insert(0, '/verif')
from vf import nf, baseline
path, qual = sys.argv[1], sys.argv[2]
work = tempfile.mkdtemp(prefix='nf_', dir='/tmp')
dst = os.path.join(work, 'r')
shutil.copytree('/repo/autobean_refactor', os.path.join(dst, 'autobean_refactor'), ignore=shutil.ignore_patterns('__pycache__'))
subprocess.run(['patch', '-p1', '-s', '-i', os.path.abspath(path)], cwd=dst)
for f in [l[6:].strip() for l in open(path) if l.startswith('+++ b/') and l.strip().endswith('.py')]:
    for label, root in (('original', '/repo/'), ('twin', dst + '/')):
        tree = ast.parse(open(root + f).read())
        fs = baseline.functions(tree)
        if qual in fs:
            node, _, _, cls = fs[qual]
            t = nf.helper_table(tree, cls)
            x = nf.inline_helpers(node, t)
            x = nf.inline_helpers(x, t, 1)
            print('---', label, sorted(t)); print(ast.unparse(nf.normalise(x)))
shutil.rmtree(work, ignore_errors=True)
