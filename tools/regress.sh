#!/bin/bash
# full regression of the machinery itself (not a registered check): baseline, all checks (both tiers), self-test, stored twins, seeded changes
cd /verif
/venv/bin/python tools/mkbaseline.py | tail -1
bad=0; for p in C01 C02 C03 C04 C05 C07 C08 C09 C10 C11 C12 C13 C14 C15 C16 C17 C18 C19 C20; do ./check $p > /tmp/out_$p.txt 2>&1 || { echo "CHECK $p FAILED"; bad=1; }; done
bad2=0; for p in C01 C02 C03 C04 C05 C07 C08 C09 C10 C11 C12 C13 C14 C15 C16 C17 C18 C19 C20; do VERIF_EVIDENCE_DIR=/tmp/ev_th ./check $p --tier thorough > /tmp/outth_$p.txt 2>&1 || { echo "THOROUGH $p FAILED"; bad2=1; }; done
echo "checks on the tree: quick $([ $bad = 0 ] && echo all exit 0 || echo SOME FAILED); thorough $([ $bad2 = 0 ] && echo all exit 0 || echo SOME FAILED)"
./selftest 2>&1 | grep -v "^ok" | tail -6
/venv/bin/python tools/twins.py twins/* > /tmp/reg_twins1.txt 2>&1; echo "twins : $(grep -c '^ok' /tmp/reg_twins1.txt) silent; alarms: $(grep '^ALARM\|^PATCH' /tmp/reg_twins1.txt | sed 's#.*/twins/##;s#.diff##' | tr '\n' ' ')"
/venv/bin/python tools/twins.py twins2/* > /tmp/reg_twins2.txt 2>&1; echo "twins2: $(grep -c '^ok' /tmp/reg_twins2.txt) silent; alarms: $(grep '^ALARM\|^PATCH' /tmp/reg_twins2.txt | sed 's#.*/twins2/##;s#.diff##' | tr '\n' ' ')"
/venv/bin/python tools/twins.py twins3/* > /tmp/reg_twins3.txt 2>&1; echo "twins3: $(grep -c '^ok' /tmp/reg_twins3.txt) silent; alarms: $(grep '^ALARM\|^PATCH' /tmp/reg_twins3.txt | sed 's#.*/twins3/##;s#.diff##' | tr '\n' ' ')"
/venv/bin/python tools/twins.py twins4/* > /tmp/reg_twins4.txt 2>&1; echo "twins4: $(grep -c '^ok' /tmp/reg_twins4.txt) silent; alarms: $(grep '^ALARM\|^PATCH' /tmp/reg_twins4.txt | sed 's#.*/twins4/##;s#.diff##' | tr '\n' ' ')"
/venv/bin/python tools/twins.py twins5/* > /tmp/reg_twins5.txt 2>&1; echo "twins5: $(grep -c '^ok' /tmp/reg_twins5.txt) silent; alarms: $(grep '^ALARM\|^PATCH' /tmp/reg_twins5.txt | sed 's#.*/twins5/##;s#.diff##' | tr '\n' ' ')"
for k in 1 2 3 4 5; do d=twins; [ $k -gt 1 ] && d=twins$k; /venv/bin/python tools/twins_status.py /verif/$d /tmp/reg_twins$k.txt > /dev/null; done
rm -f /tmp/rr_*.log
ls seeded | grep -v "neutralised\|json" | xargs -P 8 -I{} sh -c 'p=$(echo {} | cut -c1-3); /venv/bin/python tools/seeded.py $p {} --scratch --no-tests --src=/verif/seeded/{} > /tmp/rr_{}.log 2>&1'
miss=""; for f in /tmp/rr_*.log; do n=$(basename $f .log | sed s/rr_//); l=$(tail -1 $f); case "$l" in *"firing: {}"*|"") miss="$miss $n";; esac; done
echo "seeded: $(ls /tmp/rr_*.log | wc -l) re-run; not detected:${miss:- none}"
