#!/venv/bin/python
"""tools/known.py <replay.json> "<what fails>"  -- append a finding to known_findings.json (never run by a check)."""
import json, sys
r = json.load(open(sys.argv[1]))
k = json.load(open('/verif/known_findings.json'))
k['known'] = [x for x in k['known'] if x['key'] != r['key']]
k['known'].append({'property': r['property'], 'rule': r['rule'], 'construct': r['construct'], 'key': r['key'], 'what': sys.argv[2]})
json.dump(k, open('/verif/known_findings.json', 'w'), indent=1)
print('recorded', r['key'])
