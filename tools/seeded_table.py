#!/venv/bin/python
"""prints the markdown table of seeded changes (for DESIGN.md section 0.5) from /verif/seeded/*/meta.json"""
import glob, json, os
rows = []
first = json.load(open('/verif/seeded/first_run.json'))
for d in sorted(glob.glob('/verif/seeded/*')):
    try:
        m = json.load(open(os.path.join(d, 'meta.json')))
    except Exception:
        continue
    v = m.get('verification', {})
    firing = '; '.join(f"{k}: {', '.join(x['rules'])}" for k, x in sorted(v.get('checks_firing', {}).items())) or '-- none --'
    summ = (m.get('breaks') or m.get('agent_meta', {}).get('summary', '')).replace('\n', ' ').replace('|', '/')
    if len(summ) > 230:
        summ = summ[:227] + '...'
    status = 'confirmed' if v.get('confirmed') else m.get('status', 'not confirmed')
    fr = first.get(os.path.basename(d), {})
    fr_txt = fr.get('first_run', '?') + (' -> ' + ', '.join(fr['strengthened']) if fr.get('strengthened') else '')
    rows.append(f"| {os.path.basename(d)} | {m.get('property')} | {summ} | {status} | {fr_txt} | {firing} |")
print('| seeded/ | breaks | change | status | first run -> strengthening | caught now by |')
print('|---|---|---|---|---|---|')
print('\n'.join(rows))
