#!/venv/bin/python
"""tools/nfcheck.py <twins dir>...: for each k.diff, which changed functions have a different normal form than the original?"""
import ast, glob, os, subprocess, sys, tempfile, shutil
sys.path.insert(0, '/verif')
from vf import nf


def funcs(tree):
    out = {}
    def walk(body, prefix):
        for s in body:
            if isinstance(s, ast.ClassDef):
                walk(s.body, prefix + s.name + '.')
            elif isinstance(s, ast.FunctionDef):
                key = prefix + s.name
                k = key; i = 1
                while k in out:
                    i += 1; k = f'{key}#{i}'
                out[k] = s
    walk(tree.body, '')
    return out


def main():
    tot = same = 0
    for d in sys.argv[1:]:
        for path in sorted(glob.glob(os.path.join(os.path.abspath(d), '*.diff'))):
            work = tempfile.mkdtemp(prefix='nf_', dir='/tmp')
            try:
                dst = os.path.join(work, 'r')
                shutil.copytree('/repo/autobean_refactor', os.path.join(dst, 'autobean_refactor'), ignore=shutil.ignore_patterns('__pycache__'))
                r = subprocess.run(['patch', '-p1', '-s', '-i', path], cwd=dst, capture_output=True, text=True)
                files = [l[6:].strip() for l in open(path) if l.startswith('+++ b/')]
                bad = []
                for f in files:
                    if not f.endswith('.py'):
                        continue
                    a = funcs(ast.parse(open('/repo/' + f).read()))
                    b = funcs(ast.parse(open(os.path.join(dst, f)).read()))
                    for k in sorted(set(a) | set(b)):
                        if k not in a or k not in b:
                            bad.append(f'{k}: {"added" if k not in a else "removed"}')
                            continue
                        if ast.dump(a[k]) == ast.dump(b[k]):
                            continue
                        if nf.normal_form(a[k]) != nf.normal_form(b[k]):
                            bad.append(k)
                tot += 1
                same += not bad
                print(('same ' if not bad else 'DIFF ') + path.replace('/verif/', ''), '; '.join(bad)[:200])
            finally:
                shutil.rmtree(work, ignore_errors=True)
    print(same, 'of', tot, 'twins reduce to the original normal form')


if __name__ == '__main__':
    main()
