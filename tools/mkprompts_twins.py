#!/venv/bin/python
"""writes the prompts for the 'refactoring' sub-agents (/tmp/agent_prompts_tw/<area>.txt): each produces behaviour-preserving
rewrites of one area of the repository, used to test that the checks stay silent on code where the properties still hold."""
AREAS = {
 'ts': 'autobean_refactor/token_store.py (all classes and functions)',
 'props': 'autobean_refactor/models/internal/properties.py (node properties, RepeatedNodeWrapper and its helpers, custom_property classes)',
 'fields': 'autobean_refactor/models/internal/fields.py, repeated.py, placeholder.py, maybe.py and indexes.py',
 'values': 'autobean_refactor/models/internal/value_properties.py and autobean_refactor/models/meta_item_internal.py, meta_value_internal.py',
 'comments': 'autobean_refactor/models/internal/interleaving_comments.py and surrounding_comments.py, autobean_refactor/models/block_comment.py, inline_comment.py',
 'parser': 'autobean_refactor/parser.py and autobean_refactor/printer.py',
 'editor': 'autobean_refactor/editor.py',
 'tokens': 'autobean_refactor/models/base.py, autobean_refactor/models/internal/base_token_models.py and the token model classes (date.py, number.py, bool.py, escaped_string.py, spacing.py, account.py, currency.py, tag.py, link.py ...)',
 'exprs': 'autobean_refactor/models/number_expr.py, number_add_expr.py, number_mul_expr.py, number_unary_expr.py, number_paren_expr.py, cost_spec.py, cost.py, transaction.py, custom.py, amount.py',
 'gen': 'the generator: autobean_refactor/modelgen/raw_model.mako and autobean_refactor/modelgen/descriptor.py / generate.py (change the SHAPE of the generated code without changing what it does, then regenerate with: /venv/bin/python -m autobean_refactor.modelgen.generate all ; the generated files are part of the patch)',
 'spacing': 'autobean_refactor/models/internal/spacing_accessors.py, autobean_refactor/models/internal/registry.py, autobean_refactor/models/internal/__init__.py and autobean_refactor/models/file.py, posting-related hand-written models',
}
for area, files in AREAS.items():
    wt, out = f'/tmp/tw_{area}', f'/tmp/tw_{area}_out'
    txt = f"""You are helping to test a static verification tool. Your job is to produce EIGHT independent, strictly BEHAVIOUR-PRESERVING refactorings of one area of a Python library -- the kind of clean-up a maintainer might do -- so that we can check the tool does not raise false alarms on code that still behaves exactly as before.

Work ONLY inside the git worktree {wt} (a checkout of the project "autobean-refactor": a lossless beancount ledger parser and editor). You may create files under {out}/ (create it). Do NOT read, list or touch /verif, /repo, other /tmp/* directories. Do NOT use `git stash`.

Your area: {files}

Each refactoring must
  (a) leave the observable behaviour of the library EXACTLY unchanged for every input and every sequence of API calls (same results, same exceptions at the same points, same side effects in the same order as far as a caller can observe) -- equivalence must be evident to a reviewer from the diff alone; do not "fix" or "improve" behaviour, do not change public names or signatures;
  (b) be a real structural change of the code, not just whitespace/comments: e.g. rename local variables or private helpers, introduce or inline a local temporary, extract a private helper function/method or inline one, restructure if/elif/else chains (early returns, swapped branches with negated conditions, De Morgan), replace a loop by an equivalent comprehension / `next()` / `any()` or the reverse, use or remove a walrus, reorder statements that are independent of each other, commute arithmetic / comparisons, replace `isinstance(x, A | B)` by a tuple form, split or merge conditions, replace an f-string by concatenation, change a `while` into an equivalent `for`, move a computation into/out of a branch when it has no side effects, use a dict/tuple lookup instead of an if-chain with identical results, etc.;
  (c) be of moderate size (roughly 3-40 changed lines) and touch ONE function/method/class (or one helper plus its call sites);
  (d) be different in kind from your other seven.
Try to cover different functions of the area, including the intricate ones (index arithmetic, token splicing, loops with break/else, descriptors).

PROCEDURE, for k = 1..8:
  1. Start from a clean tree (`git -C {wt} checkout -- .`; `git -C {wt} status --porcelain` must be empty).
  2. Make refactoring k. Write {out}/k.diff = output of `git -C {wt} diff`, and {out}/k.txt = two or three sentences: what was changed and why it is equivalent.
After all eight: apply ALL eight together if they do not overlap (otherwise in two groups) and run the full test suite once per group: cd {wt} && /venv/bin/python -m pytest -q -p no:cacheprovider -n 6   (about 3 minutes; 1699 tests must pass). If a test fails, find the offending refactoring, fix or replace it, and re-run. Finally make sure every k.diff applies on its own to a clean tree (`git -C {wt} checkout -- . && git -C {wt} apply --check {out}/k.diff`).
In your final answer list the eight refactorings in one line each."""
    open(f'/tmp/agent_prompts_tw/{area}.txt', 'w').write(txt)
print(len(AREAS))
