#!/bin/bash
# tools/round10.sh Cxx : confirm both round-10 changes of the sub-agent for Cxx and run the FROZEN machinery (first run) on them
p=$1
for s in A B; do n=$( [ $s = A ] && echo a || echo b )
  VERIF_HOME=/tmp/verif_frozen10 /venv/bin/python /verif/tools/seeded.py $p $p-r10$n --scratch --src=/tmp/w10_${p}_out$s > /tmp/seed_$p$n.log 2>&1 &
done; wait
for n in a b; do echo "== $p-r10$n"; /venv/bin/python - <<EOF
import json
m=json.load(open('/verif/seeded/$p-r10$n/meta.json'))
v=m.get('verification',{})
print('confirmed', v.get('confirmed'), 'demo', v.get('demo_without_change_exit'), v.get('demo_with_change_exit'), 'tests', v.get('test_suite_tail'))
sc=m.get('checks_scratch') or m.get('scratch_checks') or {}
for k,c in (sc or {}).items():
    if c.get('exit'): print('  ',k,c['exit'],c.get('rules'),(c.get('constructs') or [''])[0][:150])
EOF
done
