#!/venv/bin/python
"""tools/mkbaseline.py: (re)writes /verif/baseline/functions.json from /repo's current HEAD. Run after every fix: commit, with the
tree clean, and only once the checks pass on it."""
import json, os, subprocess, sys
sys.path.insert(0, '/verif')
from vf import baseline
st = subprocess.run(['git', '-C', '/repo', 'status', '--porcelain'], capture_output=True, text=True).stdout.strip()
assert not st, '/repo is not clean'
d = baseline.build('/repo')
d['commit'] = subprocess.run(['git', '-C', '/repo', 'rev-parse', 'HEAD'], capture_output=True, text=True).stdout.strip()
os.makedirs('/verif/baseline', exist_ok=True)
json.dump(d, open(baseline.PATH, 'w'), indent=0, sort_keys=True)
n = sum(len(v) for v in d['files'].values())
bad = sum(1 for v in d['files'].values() for e in v.values() if e['nf'].startswith('unnormalisable'))
print(n, 'functions in', len(d['files']), 'files;', bad, 'not normalisable')
