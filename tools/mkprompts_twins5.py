#!/venv/bin/python
"""writes the prompts for the 'refactoring' sub-agents (/tmp/agent_prompts_tw5/<area>.txt): each produces behaviour-preserving
rewrites of one area of the repository, used to test that the checks stay silent on code where the properties still hold."""
AREAS = {
 'tokfmt': 'the token classes that convert between a value and its text: autobean_refactor/models/inline_comment.py, punctuation.py, tag.py, link.py, meta_key.py, transaction_flag.py, spacing.py, account.py, currency.py and autobean_refactor/models/internal/base_token_models.py (the _format_value / _parse_value pairs, from_value / from_raw_text, the value and raw_text setters)',
 'handlers': 'autobean_refactor/models/internal/properties.py (RepeatedNodeWrapper: __init__, register_update_handler, _notify, _notify_splice and the mutators that call them) and autobean_refactor/models/internal/value_properties.py (_RepeatedValueWrapperUpdateHandler, RepeatedValueWrapper including index, remove, discard, __eq__)',
 'metamap': 'autobean_refactor/models/meta_item_internal.py (the two mapping wrappers, their pop / __getitem__ / __setitem__ / __delitem__ / __contains__ and the keys / values / items view classes) and autobean_refactor/models/meta_value_internal.py (optional_meta_value_property, update_value, from_value)',
 'spacing2': 'autobean_refactor/models/internal/spacing_accessors.py (all of it: _tokens_to_text, _text_to_tokens, _find_spacing, _replace_spacing, the mixin properties) and autobean_refactor/models/spacing.py',
 'copyprint': 'autobean_refactor/printer.py and autobean_refactor/models/base.py (the token transformers, RawModel.tokens / detach, RawTokenModel, RawTreeModel.__deepcopy__ / clone / reattach) and autobean_refactor/models/block_comment.py',
 'exprs2': 'autobean_refactor/models/number_expr.py (the module-level helpers and NumberExpr._iaddsub / _imuldiv / wrap_with_parenthesis / from_value), number_add_expr.py and number_mul_expr.py (value, from_children, iter_children_formatted) and autobean_refactor/models/internal/repeated.py (Repeated.from_children)',
 'editor3': 'autobean_refactor/editor.py',
}
for area, files in AREAS.items():
    wt, out = f'/tmp/tw5_{area}', f'/tmp/tw5_{area}_out'
    txt = f"""You are helping to test a static verification tool. Your job is to produce EIGHT independent, strictly BEHAVIOUR-PRESERVING refactorings of one area of a Python library -- the kind of clean-up a maintainer might do -- so that we can check the tool does not raise false alarms on code that still behaves exactly as before.

Work ONLY inside the git worktree {wt} (a checkout of the project "autobean-refactor": a lossless beancount ledger parser and editor). You may create files under {out}/ (create it). Do NOT read, list or touch /verif, /repo, other /tmp/* directories. Do NOT use `git stash`.

Your area: {files}

Each refactoring must
  (a) leave the observable behaviour of the library EXACTLY unchanged for every input and every sequence of API calls (same results, same exceptions at the same points, same side effects in the same order as far as a caller can observe) -- equivalence must be evident to a reviewer from the diff alone; do not "fix" or "improve" behaviour, do not change public names or signatures;
  (b) be a real structural change of the code, not just whitespace/comments: e.g. rename local variables or private helpers, introduce or inline a local temporary, extract a private helper function/method or inline one, restructure if/elif/else chains (early returns, swapped branches with negated conditions, De Morgan), replace a loop by an equivalent comprehension / `next()` / `any()` or the reverse, use or remove a walrus, reorder statements that are independent of each other, commute arithmetic / comparisons, replace `isinstance(x, A | B)` by a tuple form, split or merge conditions, replace an f-string by concatenation, change a `while` into an equivalent `for`, move a computation into/out of a branch when it has no side effects, use a dict/tuple lookup instead of an if-chain with identical results, etc.;
  (c) be of moderate size (roughly 3-40 changed lines) and touch ONE function/method/class (or one helper plus its call sites);
  (d) be different in kind from your other seven.
Try to cover different functions of the area, including the intricate ones (index arithmetic, token splicing, loops with break/else, descriptors).

PROCEDURE, for k = 1..8:
  1. Start from a clean tree (`git -C {wt} checkout -- .`; `git -C {wt} status --porcelain` must be empty).
  2. Make refactoring k. Write {out}/k.diff = output of `git -C {wt} diff`, and {out}/k.txt = two or three sentences: what was changed and why it is equivalent.
After all eight: apply ALL eight together if they do not overlap (otherwise in two groups) and run the full test suite once per group: cd {wt} && /venv/bin/python -m pytest -q -p no:cacheprovider -n 6   (about 3 minutes; 1699 tests must pass). If a test fails, find the offending refactoring, fix or replace it, and re-run. Finally make sure every k.diff applies on its own to a clean tree (`git -C {wt} checkout -- . && git -C {wt} apply --check {out}/k.diff`).
In your final answer list the eight refactorings in one line each."""
    open(f'/tmp/agent_prompts_tw5/{area}.txt', 'w').write(txt)
print(len(AREAS))
