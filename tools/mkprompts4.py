#!/venv/bin/python
"""writes the round-3 sub-agent prompts (/tmp/agent_prompts4/Cxx.txt): property text only + a list of places earlier
rounds already used (so that the new changes exercise different mechanisms). Nothing from /verif's checkers is included."""
import json, os
AVOID = {
 'token_store.py': '_splice / _merge_blocks / _update_block / _update_block_indexes / update() / iter() / get_position / replace / _build_blocks / Token._update_raw_text',
 'value_properties.py': 'handle_splice, RepeatedValueWrapper.__setitem__ value materialisation, optional_indented_string_property.__set__',
 'interleaving_comments.py': 'unclaim_interleaving_comments, _shift_ignored, _CommentClaimer scans and claim(), the cached-wrapper test in _get',
 'surrounding_comments.py': '_claim_comment, _take_ignored',
 'base.py': 'RawTreeModel.__eq__ / __deepcopy__, RawModel.detach, RawTokenModel hash/eq caching',
 'number_expr.py': '_unary, _iaddsub, _imuldiv, _wrap_paren, adding __bool__',
 'number_mul_expr.py': 'value evaluation order',
 'cost_spec.py': 'the currency setter, raw_number_total setter clearing, from_value early return, caching raw_cost_components',
 'block_comment.py': '_format_value, _parse_value, raw_text setter, claimed setter, _clone',
 'date.py': '_parse_value separators, lazy value',
 'editor.py': 'path normalisation, the texts.get comparison, read_text, StringIO newline, a parse cache',
 'meta_item_internal.py': '_get_default_indent, _get_indent first sibling, pop(key) guard, __setitem__(key) first match',
 'custom.py': '_disambiguate_values',
 'parser.py': 'ModelBuilder._fix_gap, the PostLex split regex',
 'beancount.lark': 'INLINE_COMMENT character class',
 'properties.py': 'notifications of __setitem__, replace_node, extend, _insert_tokens separator copies, __deepcopy__ of the wrapper',
 'fields.py': 'optional_left_field._remove_node',
 'base_token_models.py': 'raw_text setter order, adding __len__, value-based __eq__',
 'spacing_accessors.py': '_find_spacing loops, the "no existing spacing" branch of raw_spacing_after',
 'raw_model.mako': 'dropping indent_by from clone(), order of claim calls in auto_claim_comments',
 'transaction.py': 'raw_payee setter order',
}
props = [json.loads(l) for l in open('/verif/properties.jsonl')]
for d in props:
    pid = d['id']
    wt, out = f'/tmp/w4_{pid}', f'/tmp/w4_{pid}_out'
    avoid = '\n'.join(f'   - {k}: {v}' for k, v in AVOID.items())
    txt = f"""You are helping to test a verification tool by producing TWO realistic, subtle, mutually unrelated bugs in a Python library.

Work ONLY inside the git worktree {wt} (a checkout of the project "autobean-refactor": a lossless beancount ledger parser and editor built on lark, with a concrete syntax tree over a blocked token store; edits preserve formatting and comments). You may create scratch files under {out}A/ and {out}B/ (create those directories). Do NOT read, list or touch /verif, /repo, other /tmp/w* directories, or anything else outside your worktree and those two directories -- your work must be independent of everything outside. Do NOT use `git stash` (the stash is shared between worktrees and other people are working in sibling worktrees). Start by reading README.md, docs/ and the source under autobean_refactor/ as needed.

The property that the library is supposed to satisfy:

  {pid}: {d['title']}
  {d['statement']}
  (It is meant to hold over: {d['quantifier']['text']})

YOUR TASK, twice (change A, then change B): make a small, realistic change to the library source (under {wt}/autobean_refactor/, not the tests) that BREAKS this property, such that
  (a) the code still imports and compiles,
  (b) the ENTIRE existing test suite still passes unchanged:  cd {wt} && /venv/bin/python -m pytest -q -p no:cacheprovider -n 6 -x   (about 3 minutes, 1699 tests; run it and make sure nothing fails),
  (c) the change looks like a plausible developer mistake, over-eager optimisation or refactoring slip, and
  (d) it needs something SPECIFIC to manifest -- a multi-step sequence of operations, an unusual but legal input, particular sizes/positions, a fault at a particular point, or two cooperating code sites that each look fine alone -- not something that ordinary use exposes at once.
Keep each change small (a few lines, one or two sites). Changes A and B must use DIFFERENT mechanisms in DIFFERENT functions (preferably different files).

Earlier rounds already produced changes at the following places; do NOT change these functions again and do not produce close variants of them -- find OTHER places and OTHER mechanisms (index arithmetic in indexes.py and the repeated-field wrappers' insert / pop / __delitem__ / drop_many, optional_right_field, repeated.py, required/optional node property setters, the filtered / string views other than handle_splice, meta mapping views (keys/values/items, __contains__, raw wrapper), hand-written models (amount, cost, posting, file, open/close/balance ...), escaped_string / number / bool / account token classes, the ModelBuilder's tree building, PostLexInline, the printer, edit_file_recursive's include handling and deletion, the generator template and descriptor.py, reattach / clone of fields, auto_claim_comments of generated classes, NumberExpr operators other than the ones listed, rarely used branches, interactions between two modules):
{avoid}

Note: files under autobean_refactor/models/generated/ are checked by a test against the generator in autobean_refactor/modelgen; if you want to change them you must change the template/descriptor and regenerate with: cd {wt} && /venv/bin/python -m autobean_refactor.modelgen.generate all

PROCEDURE
 1. Make change A. Run the test suite. Write {out}A/patch.diff = output of `git -C {wt} diff` (library source only).
 2. Write {out}A/demo.py -- a standalone script using the public API that checks the property's observable behaviour for the situation you chose. It is run as  PYTHONPATH=<checkout> /venv/bin/python demo.py  and must exit 0 on the UNMODIFIED code and exit 1 (printing what went wrong) WITH the change. Verify both yourself: with the change use PYTHONPATH={wt}; for the unmodified code run `git -C {wt} apply -R {out}A/patch.diff`, run the demo, then `git -C {wt} apply {out}A/patch.diff`.
 3. Write {out}A/meta.json -- JSON: {{"property": "{pid}", "summary": "...", "needs_to_manifest": "...", "files_changed": [...], "commands_run": [...], "tests_pass_with_change": true}}
 4. Revert change A completely (`git -C {wt} checkout -- .`; check `git -C {wt} status --porcelain` is empty), then repeat steps 1-3 for change B with {out}B/.
Leave the worktree with change B applied. In your final answer give, for each of A and B, a short summary of the change, why the existing tests miss it, and what the demo does."""
    open(f'/tmp/agent_prompts4/{pid}.txt', 'w').write(txt)
print(len(props), 'prompts written')
