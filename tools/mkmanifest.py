import json
claimed = json.load(open('/verif/claims.json'))
checks=[]
for c in claimed['checks']:
    pid=c['id']
    checks.append({
      "property_id": pid,
      "quick_cmd": f"./check {pid} --tier quick",
      "thorough_cmd": f"./check {pid} --tier thorough",
      "evidence_file": f"/verif/evidence/{pid}.json",
      "replay_cmd_template": f"./check {pid} --replay {{path}}",
      "engine": "vf",
      "level_claimed": {"category":"other","text":c['text'],"design_ref":c.get('design_ref', f"DESIGN.md section 4 ({pid})")},
      "level_note": c['note'],
      "technique": c['technique'],
    })
na=list(claimed['not_applicable'])
have={c['id'] for c in claimed['checks']}|{n['property_id'] for n in na}
for line in open('/verif/properties.jsonl'):
    pid=json.loads(line)['id']
    if pid not in have:
        na.append({"property_id":pid,"reason":"not claimed yet: the check for this property is still being built (see DESIGN.md section 4 for the plan)"})
m={
 "version":1,
 "setup_cmd":"/venv/bin/python -c \"import ast, lark\"",
 "hooks":{"guard":"AUTOBEAN_REFACTOR_VERIF","enable":"none needed: checks are static and never run repository code; no hook commits exist","baseline_off_cmd":"cd /repo && /venv/bin/python -m pytest -ra -q -p no:cacheprovider --timeout=900 --continue-on-collection-errors","source_commits":[],"add_only":True},
 "engines":[{"name":"vf","path":"/verif/vf","serves_properties":[c['id'] for c in claimed['checks']],"kind_free_text":"repository-specific static analyser: resolved program model (imports, MRO, descriptor table), path-forking typestate walker, effect/ownership abstract interpreter, finite-domain abstract evaluators, grammar/regex language inclusion"}],
 "checks":checks,
 "notes":claimed.get('notes',''),
 "not_applicable":na,
}
json.dump(m,open('/verif/MANIFEST.json','w'),indent=1)
print(len(checks),'checks')
