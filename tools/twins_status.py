#!/venv/bin/python
"""tools/twins_status.py <corpus dir> <twins.py output>: rewrite <corpus>/STATUS.json from a run of tools/twins.py"""
import json, re, sys
corpus, out = sys.argv[1].rstrip('/'), sys.argv[2]
res = {}
first_run = None
try:
    old = json.load(open(f'{corpus}/STATUS.json'))
    first_run = old.get('first_run')
except Exception:
    old = {}
for line in open(out):
    m = re.match(r'^(ok|ALARM|PATCH-FAILED)\s+\S*/%s/(\S+)\.diff' % re.escape(corpus.rsplit('/', 1)[-1]), line)
    if m:
        res[m.group(2)] = m.group(1)
d = {'_comment': 'verdict of tools/twins.py on every stored behaviour-preserving rewrite (ok = all 19 checks exit 0)', 'results': dict(sorted(res.items()))}
if first_run:
    d['first_run'] = first_run
if len(sys.argv) > 3:
    d['first_run'] = sys.argv[3]
json.dump(d, open(f'{corpus}/STATUS.json', 'w'), indent=1)
print(corpus, sum(1 for v in res.values() if v == 'ok'), 'ok of', len(res))
