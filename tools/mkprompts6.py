#!/venv/bin/python
"""writes the round-5 sub-agent prompts (/tmp/agent_prompts6/Cxx.txt): property text only + the list of places earlier rounds
already used, generated from seeded/*/meta.json (file + first words of the description).  Nothing from /verif's checkers is included."""
import glob, json, os, re
used = {}
for d in sorted(glob.glob('/verif/seeded/*')):
    try:
        m = json.load(open(os.path.join(d, 'meta.json')))
    except Exception:
        continue
    files = m.get('files_changed') or m.get('agent_meta', {}).get('files_changed') or []
    summ = (m.get('breaks') or m.get('agent_meta', {}).get('summary', '')).replace('\n', ' ')
    summ = re.sub(r'\s+', ' ', summ)[:170]
    for f in files:
        used.setdefault(os.path.basename(f), []).append(summ)
os.makedirs('/tmp/agent_prompts6', exist_ok=True)
props = [json.loads(l) for l in open('/verif/properties.jsonl')]
avoid = '\n'.join(f'   - {k}:\n' + '\n'.join(f'       * {s}...' for s in v) for k, v in sorted(used.items()))
for d in props:
    pid = d['id']
    wt, out = f'/tmp/w6_{pid}', f'/tmp/w6_{pid}_out'
    txt = f"""You are helping to test a verification tool by producing TWO realistic, subtle, mutually unrelated bugs in a Python library.

Work ONLY inside the git worktree {wt} (a checkout of the project "autobean-refactor": a lossless beancount ledger parser and editor built on lark, with a concrete syntax tree over a blocked token store; edits preserve formatting and comments). You may create scratch files under {out}A/ and {out}B/ (create those directories). Do NOT read, list or touch /verif, /repo, other /tmp/w* directories, or anything else outside your worktree and those two directories -- your work must be independent of everything outside. Do NOT use `git stash` (the stash is shared between worktrees and other people are working in sibling worktrees). Start by reading README.md, docs/ and the source under autobean_refactor/ as needed.

The property that the library is supposed to satisfy:

  {pid}: {d['title']}
  {d['statement']}
  (It is meant to hold over: {d['quantifier']['text']})

YOUR TASK, twice (change A, then change B): make a small, realistic change to the library source (under {wt}/autobean_refactor/, not the tests) that BREAKS this property, such that
  (a) the code still imports and compiles,
  (b) the ENTIRE existing test suite still passes unchanged:  cd {wt} && /venv/bin/python -m pytest -q -p no:cacheprovider -n 6 -x   (about 3 minutes, 1699 tests; run it and make sure nothing fails),
  (c) the change looks like a plausible developer mistake, over-eager optimisation or refactoring slip, and
  (d) it needs something SPECIFIC to manifest -- a multi-step sequence of operations, an unusual but legal input, particular sizes/positions, a fault at a particular point, or two cooperating code sites that each look fine alone -- not something that ordinary use exposes at once.
Keep each change small (a few lines, one or two sites). Changes A and B must use DIFFERENT mechanisms in DIFFERENT functions (preferably different files).

Five earlier rounds already produced about 160 changes. They are listed below by file with the first words of their description. Do NOT change the same function in the same way again and do not produce close variants -- find OTHER functions and OTHER kinds of mistake. Kinds of mistake that have been used a lot and should be avoided unless in a really new place: dropping a re-index / rebuild call in the token store, truthiness instead of `is None`, view index vs raw index confusion, adding a cache / memoisation, reordering detach and reattach, stripping characters from token text. Also used a lot by now: == where identity is meant, an equal-value shortcut in a setter, validation moved after a mutation, caching. Kinds that have hardly been used: wrong default argument, wrong class in an isinstance test, off-by-one in slice normalisation (indexes.py), wrong branch taken for negative / extended slices, swapped arguments between two parameters of the same type, a subclass override that forgets to call super or forgets one field, an exception type that is caught too broadly, iteration over a collection that is mutated, aliasing of a mutable default or of a list passed by the caller, shallow vs deep copy, comparing with == where identity is needed (or the reverse), a generator consumed twice, a wrong separator constant in a field declaration of a generated model (change the template/descriptor and regenerate), a changed grammar rule (not only terminals), a changed priority of terminals, hash/eq disagreement, a setter that validates after mutating, wrong handling of the last / first element, Unicode / line-separator classes, paths and include globs in the editor, wrong operator precedence or associativity handling when an expression is rebuilt (parentheses), wrong token class chosen when a value is converted to a token, a field order mistake in a hand-written from_children / from_value, an inherited method of a base class that a subclass needed to override, an off-by-one in a position or length computation that only shows across a block boundary or with multi-line tokens, a property that is read twice and may change in between, a comparison of a Decimal / date with a string, a mistake in negative-index or empty-collection handling, swapped before/after or first/last, a wrong indentation source, an exception swallowed by a bare except or a finally that returns.
{avoid}

Note: files under autobean_refactor/models/generated/ are checked by a test against the generator in autobean_refactor/modelgen; if you want to change them you must change the template/descriptor and regenerate with: cd {wt} && /venv/bin/python -m autobean_refactor.modelgen.generate all

PROCEDURE
 1. Make change A. Run the test suite. Write {out}A/patch.diff = output of `git -C {wt} diff` (library source only).
 2. Write {out}A/demo.py -- a standalone script using the public API that checks the property's observable behaviour for the situation you chose. It is run as  PYTHONPATH=<checkout> /venv/bin/python demo.py  and must exit 0 on the UNMODIFIED code and exit 1 (printing what went wrong) WITH the change. Verify both yourself: with the change use PYTHONPATH={wt}; for the unmodified code run `git -C {wt} apply -R {out}A/patch.diff`, run the demo, then `git -C {wt} apply {out}A/patch.diff`.
 3. Write {out}A/meta.json -- JSON: {{"property": "{pid}", "summary": "...", "needs_to_manifest": "...", "files_changed": [...], "commands_run": [...], "tests_pass_with_change": true}}
 4. Revert change A completely (`git -C {wt} checkout -- .`; check `git -C {wt} status --porcelain` is empty), then repeat steps 1-3 for change B with {out}B/.
Leave the worktree with change B applied. In your final answer give, for each of A and B, a short summary of the change, why the existing tests miss it, and what the demo does."""
    open(f'/tmp/agent_prompts6/{pid}.txt', 'w').write(txt)
print(len(props), 'prompts written;', sum(len(v) for v in used.values()), 'used sites listed;', len(txt), 'chars per prompt')
