#!/venv/bin/python
"""tools/seeded.py Cxx [name] -- confirm a seeded change produced by a sub-agent and run every check against it.

1. copies patch.diff / demo.py / meta.json from /tmp/wt_<ID>_out to /verif/seeded/<name>/
2. in a fresh scratch worktree of /repo HEAD: demo passes; with the patch: demo fails; full test suite passes
3. applies the patch to /repo itself, runs all registered quick checks (evidence redirected), undoes it
4. records everything in /verif/seeded/<name>/meta.json
"""
import json, os, re, shutil, subprocess, sys, tempfile

args = [a for a in sys.argv[1:] if not a.startswith('--')]
SCRATCH = '--scratch' in sys.argv      # run the checks on the scratch worktree (VERIF_REPO) instead of patching /repo
NO_TESTS = '--no-tests' in sys.argv
pid = args[0]
name = args[1] if len(args) > 1 else pid
src = next((a.split('=', 1)[1] for a in sys.argv if a.startswith('--src=')), f'/tmp/wt_{pid}_out')
dst = f'/verif/seeded/{name}'
os.makedirs(dst, exist_ok=True)
for f in ('patch.diff', 'demo.py'):
    if os.path.abspath(src) != os.path.abspath(dst):
        shutil.copy(os.path.join(src, f), os.path.join(dst, f))
agent_meta = {}
try:
    agent_meta = json.load(open(os.path.join(src, 'meta.json')))
    if 'agent_meta' in agent_meta:          # re-run from /verif/seeded/<name>: keep the sub-agent's own record
        agent_meta = agent_meta['agent_meta']
except Exception as e:
    agent_meta = {'error': f'agent meta.json unreadable: {e}'}
patch = os.path.join(dst, 'patch.diff')
demo = os.path.join(dst, 'demo.py')
ran = []


def sh(cmd, **kw):
    ran.append(cmd if isinstance(cmd, str) else ' '.join(cmd))
    return subprocess.run(cmd, shell=isinstance(cmd, str), capture_output=True, text=True, **kw)


wt = tempfile.mkdtemp(prefix=f'sv_{pid}_', dir='/tmp')
os.rmdir(wt)
res = {'property': pid}
try:
    r = sh(f'git -C /repo worktree add -q --detach {wt} HEAD')
    assert r.returncode == 0, r.stderr
    env = dict(os.environ, PYTHONPATH=wt)
    r0 = sh(['/venv/bin/python', demo], env=env, cwd=wt)
    res['demo_without_change_exit'] = r0.returncode
    ra = sh(f'git -C {wt} apply -3 --whitespace=nowarn {patch}')
    res['patch_applies'] = ra.returncode == 0
    if ra.returncode != 0:
        res['apply_error'] = ra.stderr[-500:]
    r1 = sh(['/venv/bin/python', demo], env=env, cwd=wt)
    res['demo_with_change_exit'] = r1.returncode
    res['demo_output_with_change'] = (r1.stdout + r1.stderr)[-1500:]
    if NO_TESTS and os.path.exists(os.path.join(dst, 'meta.json')):
        old = json.load(open(os.path.join(dst, 'meta.json'))).get('verification', {})
        res['test_suite_tail'] = old.get('test_suite_tail', '')
        res['tests_pass_with_change'] = old.get('tests_pass_with_change', False)
    else:
        rt = sh(f'cd {wt} && /venv/bin/python -m pytest -q -p no:cacheprovider -n 8 -x 2>&1 | tail -3')
        res['test_suite_tail'] = rt.stdout.strip().splitlines()[-1] if rt.stdout.strip() else ''
        res['tests_pass_with_change'] = bool(re.search(r'\b1699 passed', rt.stdout)) and 'failed' not in rt.stdout
    scratch_checks = {}
    if SCRATCH:
        ev = tempfile.mkdtemp(prefix='ev_', dir='/tmp')
        home = os.environ.get('VERIF_HOME', '/verif')      # a frozen copy of the machinery for honest first runs
        manifest = json.load(open(f'{home}/MANIFEST.json'))
        for c in manifest['checks']:
            r = sh(c['quick_cmd'], cwd=home, env=dict(os.environ, VERIF_EVIDENCE_DIR=ev, VERIF_REPO=wt))
            rules = sorted(set(re.findall(r'^  rule      : ([A-Z0-9-]+)', r.stdout, re.M)))
            scratch_checks[c['property_id']] = {'exit': r.returncode, 'rules': rules,
                                                'constructs': re.findall(r'^  construct : (.*)$', r.stdout, re.M)[:4]}
        shutil.rmtree(ev, ignore_errors=True)
finally:
    sh(f'git -C /repo worktree remove --force {wt}')
res['confirmed'] = bool(res.get('patch_applies') and res.get('demo_without_change_exit') == 0 and res.get('demo_with_change_exit') == 1
                        and res.get('tests_pass_with_change'))

# run the checks against /repo with the patch applied
checks = {}
if SCRATCH:
    checks = scratch_checks
    ra = None
else:
    st = sh('git -C /repo status --porcelain')
    assert not st.stdout.strip(), '/repo is not clean'
    ra = sh(f'git -C /repo apply --whitespace=nowarn {patch}')
try:
    if ra is not None and ra.returncode == 0:
        ev = tempfile.mkdtemp(prefix='ev_', dir='/tmp')
        manifest = json.load(open('/verif/MANIFEST.json'))
        for c in manifest['checks']:
            r = sh(c['quick_cmd'], cwd='/verif', env=dict(os.environ, VERIF_EVIDENCE_DIR=ev))
            rules = sorted(set(re.findall(r'^  rule      : ([A-Z0-9-]+)', r.stdout, re.M)))
            checks[c['property_id']] = {'exit': r.returncode, 'rules': rules,
                                        'constructs': re.findall(r'^  construct : (.*)$', r.stdout, re.M)[:4]}
        shutil.rmtree(ev, ignore_errors=True)
finally:
    if not SCRATCH:
        sh('git -C /repo checkout -- .')
res['checks_run_on'] = 'scratch worktree (VERIF_REPO)' if SCRATCH else '/repo with the patch applied (git apply), undone afterwards'
res['checks_firing'] = {k: v for k, v in checks.items() if v['exit'] == 1}
res['checks_error'] = {k: v for k, v in checks.items() if v['exit'] not in (0, 1)}
res['detected'] = bool(res['checks_firing'])
meta = {'property': pid, 'breaks': agent_meta.get('summary', ''), 'needs_to_manifest': agent_meta.get('needs_to_manifest', ''),
        'files_changed': agent_meta.get('files_changed', []), 'agent_meta': agent_meta, 'verification': res, 'commands_run': ran}
json.dump(meta, open(os.path.join(dst, 'meta.json'), 'w'), indent=1)
print(json.dumps({k: res[k] for k in ('confirmed', 'demo_without_change_exit', 'demo_with_change_exit', 'tests_pass_with_change', 'detected')}))
print('firing:', {k: v['rules'] for k, v in res['checks_firing'].items()}, 'errors:', list(res['checks_error']))
