#!/venv/bin/python
"""re-inserts the seeded-change table into DESIGN.md section 0.5 (between the SEEDED-TABLE markers)"""
import subprocess, re
s = open('/verif/DESIGN.md').read()
table = subprocess.run(['/venv/bin/python', '/verif/tools/seeded_table.py'], capture_output=True, text=True).stdout.strip()
block = f'<!-- SEEDED-TABLE-BEGIN -->\n{table}\n<!-- SEEDED-TABLE-END -->'
if '<!-- SEEDED-TABLE-BEGIN -->' in s:
    s = re.sub(r'<!-- SEEDED-TABLE-BEGIN -->.*?<!-- SEEDED-TABLE-END -->', lambda m: block, s, flags=re.S)
else:
    s = s.replace('SEEDED_TABLE', block)
open('/verif/DESIGN.md', 'w').write(s)
