#!/venv/bin/python
"""writes the round-10 sub-agent prompts (/tmp/agent_prompts10/Cxx.txt): property text only + the list of places earlier rounds
already used, generated from seeded/*/meta.json (file + first words of the description).  Nothing from /verif's checkers is included."""
import glob, json, os, re
used = {}
for d in sorted(glob.glob('/verif/seeded/*')):
    try:
        m = json.load(open(os.path.join(d, 'meta.json')))
    except Exception:
        continue
    files = m.get('files_changed') or m.get('agent_meta', {}).get('files_changed') or []
    summ = (m.get('breaks') or m.get('agent_meta', {}).get('summary', '')).replace('\n', ' ')
    summ = re.sub(r'\s+', ' ', summ)[:170]
    for f in files:
        used.setdefault(os.path.basename(f), []).append(summ)
os.makedirs('/tmp/agent_prompts10', exist_ok=True)
props = [json.loads(l) for l in open('/verif/properties.jsonl')]
avoid = '\n'.join(f'   - {k}:\n' + '\n'.join(f'       * {s}...' for s in v) for k, v in sorted(used.items()))
for d in props:
    pid = d['id']
    wt, out = f'/tmp/w10_{pid}', f'/tmp/w10_{pid}_out'
    txt = f"""You are helping to test a verification tool by producing TWO realistic, subtle, mutually unrelated bugs in a Python library.

Work ONLY inside the git worktree {wt} (a checkout of the project "autobean-refactor": a lossless beancount ledger parser and editor built on lark, with a concrete syntax tree over a blocked token store; edits preserve formatting and comments). You may create scratch files under {out}A/ and {out}B/ (create those directories). Do NOT read, list or touch /verif, /repo, other /tmp/w* directories, or anything else outside your worktree and those two directories -- your work must be independent of everything outside. Do NOT use `git stash` (the stash is shared between worktrees and other people are working in sibling worktrees). Start by reading README.md, docs/ and the source under autobean_refactor/ as needed.

The property that the library is supposed to satisfy:

  {pid}: {d['title']}
  {d['statement']}
  (It is meant to hold over: {d['quantifier']['text']})

YOUR TASK, twice (change A, then change B): make a small, realistic change to the library source (under {wt}/autobean_refactor/, not the tests) that BREAKS this property, such that
  (a) the code still imports and compiles,
  (b) the ENTIRE existing test suite still passes unchanged:  cd {wt} && /venv/bin/python -m pytest -q -p no:cacheprovider -n 4 -x   (about 3 minutes, 1699 tests; run it and make sure nothing fails),
  (c) the change looks like a plausible developer mistake, over-eager optimisation or refactoring slip, and
  (d) it needs something SPECIFIC to manifest -- a multi-step sequence of operations, an unusual but legal input, particular sizes/positions, a fault at a particular point, or two cooperating code sites that each look fine alone -- not something that ordinary use exposes at once.
Keep each change small (a few lines, one or two sites). Changes A and B must use DIFFERENT mechanisms in DIFFERENT functions (preferably different files).

Nine earlier rounds already produced about 300 changes. They are listed below by file with the first words of their description. Do NOT change the same function in the same way again and do not produce close variants -- find OTHER functions and OTHER kinds of mistake. Kinds of mistake that have been used a lot and should be avoided unless in a really new place: dropping a re-index / rebuild call in the token store, truthiness instead of `is None`, view index vs raw index confusion, adding a cache / memoisation, reordering detach and reattach, stripping characters from token text, == where identity is meant, an equal-value shortcut in a setter, validation moved after a mutation, narrowing a character class or changing a priority in the grammar, writing the ledger through a differently named file, a `None` default that shadows a legal argument, passing the deepcopy memo on, a mutable default argument, per-instance state stored on a class-level descriptor, a bool taken for an int / a datetime for a date, an iterable walked twice, `normpath` in the editor, an operator list built in the wrong order. PREFER files and functions that appear rarely or not at all in the list below (for instance the tree-building half of parser.py's ModelBuilder, models/internal/fields.py, maybe.py, placeholder.py, registry.py, base_property.py, the generator template and descriptors under modelgen/ and meta_models/, models/base.py, file.py, posting.py, amount.py, tolerance.py, include.py, option.py, the small token classes) over the ones that have been changed many times (token_store.py, properties.py, interleaving_comments.py, value_properties.py, number_expr.py, editor.py, cost_spec.py). Kinds that have hardly been used: a NEW public method or helper added to one class and used from another module with a corner case wrong; different behaviour for a value of a SUBCLASS type (bool is an int, a datetime is a date, an OrderedDict / defaultdict is a dict, a str subclass, a Decimal subclass); wrong handling of an EMPTY document, an empty model, an empty string value or a single-element collection; generator laziness (evaluation deferred past a mutation) or a generator / iterator consumed twice; a mutable class attribute or default argument shared between instances; string methods with different Unicode semantics (isdigit / isdecimal / isnumeric, splitlines vs split('\n'), strip() vs strip(' '), upper / casefold); slice corner cases (negative step, None bounds, stop < start, indexes beyond the ends); sort stability / sort keys mixing types; dict ordering assumptions; zip truncation; a loop variable captured late by a lambda / closure; a variable shadowed inside a comprehension or nested loop; `for ... else` / early return inside a loop; a changed exception class that callers catch (or a bare except that swallows one); `__eq__` / `__hash__` / `__lt__` interplay on token classes; copy.copy vs copy.deepcopy of wrappers and descriptors; attribute set in the wrong order inside `__init__` / `_reattach`; a wrong class-level constant (RULE, INLINE, DEFAULT, separators) in a hand-written model or in the generator's descriptors (regenerate); a changed grammar RULE (structure, optionality, order of alternatives -- not only terminals); off-by-one in a position / length computation that only shows across a storage-block boundary, with multi-line tokens or with tabs; a property that is read twice and may change in between; swapped arguments between two parameters of the same type; swapped before/after or first/last in a rarely taken branch; wrong operator precedence / associativity handling when an expression is rebuilt; an inherited method of a base class that a subclass needed to override (or an override that forgets super()); wrong token class chosen when a value is converted to a token; include / glob / path handling in the editor (relative vs absolute, `..`, symlinks, case), file modes and line endings; something that only shows when the SAME object is used twice (the same token, model or store passed twice, self-assignment `x.prop = x.prop`, extending a view with itself).
{avoid}

Note: files under autobean_refactor/models/generated/ are checked by a test against the generator in autobean_refactor/modelgen; if you want to change them you must change the template/descriptor and regenerate with: cd {wt} && /venv/bin/python -m autobean_refactor.modelgen.generate all

PROCEDURE
 1. Make change A. Run the test suite. Write {out}A/patch.diff = output of `git -C {wt} diff` (library source only).
 2. Write {out}A/demo.py -- a standalone script using the public API that checks the property's observable behaviour for the situation you chose. It is run as  PYTHONPATH=<checkout> /venv/bin/python demo.py  and must exit 0 on the UNMODIFIED code and exit 1 (printing what went wrong) WITH the change. Verify both yourself: with the change use PYTHONPATH={wt}; for the unmodified code run `git -C {wt} apply -R {out}A/patch.diff`, run the demo, then `git -C {wt} apply {out}A/patch.diff`.
 3. Write {out}A/meta.json -- JSON: {{"property": "{pid}", "summary": "...", "needs_to_manifest": "...", "files_changed": [...], "commands_run": [...], "tests_pass_with_change": true}}
 4. Revert change A completely (`git -C {wt} checkout -- .`; check `git -C {wt} status --porcelain` is empty), then repeat steps 1-3 for change B with {out}B/.
Leave the worktree with change B applied. In your final answer give, for each of A and B, a short summary of the change, why the existing tests miss it, and what the demo does."""
    open(f'/tmp/agent_prompts10/{pid}.txt', 'w').write(txt)
print(len(props), 'prompts written;', sum(len(v) for v in used.values()), 'used sites listed;', len(txt), 'chars per prompt')
