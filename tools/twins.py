#!/venv/bin/python
"""tools/twins.py <dir with k.diff files> [...]: applies each behaviour-preserving rewrite to a scratch copy of /repo and runs every
registered quick check on it.  A check that does not exit 0 on such a copy is a false alarm (exit 1) or a brittle anchor (exit 2)
of the checker -- unless reading the diff shows the rewrite is not behaviour-preserving after all.  Keeps accepted twins under
/verif/twins/<area>/ with a verdict file.  Not part of any registered check."""
import concurrent.futures, glob, json, os, re, shutil, subprocess, sys, tempfile

HERE = '/verif'
MAN = json.load(open(f'{HERE}/MANIFEST.json'))
if os.environ.get('TWINS_ONLY'):          # restrict to some properties (a quick look after a change to a few rules)
    MAN['checks'] = [c for c in MAN['checks'] if c['property_id'] in os.environ['TWINS_ONLY'].split(',')]


def run_one(path: str):
    work = tempfile.mkdtemp(prefix='tw_', dir='/tmp')
    try:
        dst = os.path.join(work, 'repo')
        shutil.copytree('/repo', dst, ignore=shutil.ignore_patterns('.git', '__pycache__', 'docs', '*.pyc'))
        r = subprocess.run(['patch', '-p1', '-s', '-i', path], cwd=dst, capture_output=True, text=True)
        if r.returncode != 0:
            return path, 'PATCH-FAILED', {}, r.stdout[-300:] + r.stderr[-300:]
        env = dict(os.environ, VERIF_REPO=dst, VERIF_EVIDENCE_DIR=os.path.join(work, 'ev'))
        bad = {}
        for c in MAN['checks']:
            rr = subprocess.run(c['quick_cmd'], shell=True, cwd=HERE, env=env, capture_output=True, text=True)
            if rr.returncode != 0:
                lines = [l for l in rr.stdout.splitlines() if l.startswith(('  rule', '  construct', '  instance', '  diagnosis', 'ANALYSIS'))]
                bad[c['property_id']] = {'exit': rr.returncode, 'out': [l[:260] for l in lines[:8]]}
        return path, 'ok' if not bad else 'ALARM', bad, ''
    finally:
        shutil.rmtree(work, ignore_errors=True)


def main():
    paths = []
    for d in sys.argv[1:]:
        paths += sorted(glob.glob(os.path.join(os.path.abspath(d), '*.diff')))
    res = {}
    with concurrent.futures.ThreadPoolExecutor(8) as ex:
        for path, verdict, bad, err in ex.map(run_one, paths):
            print(f'{verdict:13} {path}')
            for k, v in bad.items():
                print(f'      {k} exit {v["exit"]}')
                for l in v['out']:
                    print('        ' + l)
            if err:
                print('      ' + err)
            res[path] = {'verdict': verdict, 'checks': bad}
    print(sum(1 for v in res.values() if v['verdict'] == 'ok'), 'silent of', len(res))
    json.dump(res, open('/tmp/twins_last.json', 'w'), indent=1)


if __name__ == '__main__':
    main()
