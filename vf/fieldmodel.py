"""Ordered field model of the tree-model classes (generated classes and peers).

The reference order of child fields is the order of the `self.<field> = <param>`
assignments in `__init__` (which is also the order in which the parser hands
children to `from_parsed_children`).  Every sibling method (clone, _reattach, _eq,
from_children, iter_children_formatted, auto_claim_comments, pivots, first/last
token) is compared against it by the per-property rules.
"""
from __future__ import annotations

import ast
import dataclasses
from typing import Any, Optional

from .model import (AnalysisError, ClassInfo, DescriptorDecl, FuncInfo, Program, self_attr, stmts_no_doc)

FIELD_KINDS = {
    'required_field': 'required',
    'optional_left_field': 'optional_left',
    'optional_right_field': 'optional_right',
    'repeated_field': 'repeated',
    'data_field': 'data',
}


@dataclasses.dataclass(eq=False)
class Field:
    name: str
    kind: str                  # required | optional_left | optional_right | repeated | data
    decl: DescriptorDecl
    param: str                 # constructor parameter

    @property
    def optional(self) -> bool:
        return self.kind in ('optional_left', 'optional_right')

    @property
    def always_present(self) -> bool:
        return self.kind in ('required', 'repeated')

    @property
    def type_expr(self) -> Optional[ast.AST]:
        return self.decl.type_args

    def separators(self) -> Optional[ast.AST]:
        return self.decl.kwarg('separators')

    def separators_before(self) -> Optional[ast.AST]:
        return self.decl.kwarg('separators_before')


@dataclasses.dataclass(eq=False)
class TreeClass:
    cls: ClassInfo             # the class that defines __init__ and the fields
    init: FuncInfo
    fields: list[Field]        # child fields, constructor order
    data: list[Field]          # data fields (indent_by)
    store_param: str

    def field(self, name: str) -> Optional[Field]:
        for f in self.fields + self.data:
            if f.name == name:
                return f
        return None

    @property
    def all_fields(self) -> list[Field]:
        return self.fields + self.data


def field_kind(p: Program, c: ClassInfo, attr: str) -> Optional[tuple[str, DescriptorDecl]]:
    sym = c.lookup(attr)
    if isinstance(sym, DescriptorDecl) and sym.kind.name in FIELD_KINDS:
        return FIELD_KINDS[sym.kind.name], sym
    return None


def build_tree_classes(p: Program) -> list[TreeClass]:
    out: list[TreeClass] = []
    seen: set[int] = set()
    for c in p.tree_model_classes():
        owner = c.lookup_owner('__init__')
        if owner is None or id(owner) in seen:
            continue
        seen.add(id(owner))
        init = owner.attrs.get('__init__')
        if not isinstance(init, FuncInfo):
            continue
        has_fields = any(isinstance(v, DescriptorDecl) and v.kind.name in FIELD_KINDS
                         for k in owner.mro for v in k.attrs.values())
        if not has_fields:
            continue
        params = init.params
        if len(params) < 2:
            raise AnalysisError(f'{owner.qualname}.__init__ has no token store parameter')
        store_param = params[1]
        fields: list[Field] = []
        data: list[Field] = []
        for st in stmts_no_doc(init.node.body):
            if isinstance(st, ast.Expr) and isinstance(st.value, ast.Call):
                continue  # super().__init__(token_store)
            if isinstance(st, ast.Assign) and len(st.targets) == 1:
                attr = self_attr(st.targets[0])
                if attr is not None and isinstance(st.value, ast.Name):
                    fk = field_kind(p, owner, attr)
                    if fk is None:
                        raise AnalysisError(
                            f'{owner.qualname}.__init__ assigns self.{attr} which is not a declared field')
                    fld = Field(attr, fk[0], fk[1], st.value.id)
                    (data if fk[0] == 'data' else fields).append(fld)
                    continue
            raise AnalysisError(f'{owner.qualname}.__init__: unsupported statement {ast.unparse(st)!r}')
        out.append(TreeClass(owner, init, fields, data, store_param))
    return out


# ---- semantic form of `first_token` / `last_token` / pivot expressions -------------
@dataclasses.dataclass(frozen=True)
class Operand:
    field: str
    edge: str        # first_token | last_token
    guarded: bool    # `(self._f and self._f.edge)`


def parse_edge_chain(e: ast.AST, resolver: Optional[Any] = None, depth: int = 0) -> Optional[list[Operand]]:
    """`(self._a and self._a.last_token) or self._b.last_token` -> operands, else None.  `resolver(name)` gives the return expression of
    another edge property of the same class (`self._x_pivot`), so that a chain may end by delegating to it."""
    parts = e.values if isinstance(e, ast.BoolOp) and isinstance(e.op, ast.Or) else [e]
    out: list[Operand] = []
    for part in parts:
        if resolver is not None and depth < 8 and isinstance(part, ast.Attribute) and self_attr(part) is not None \
                and part.attr not in ('first_token', 'last_token'):
            inner = resolver(part.attr)
            rest_ = parse_edge_chain(inner, resolver, depth + 1) if inner is not None else None
            if rest_ is None:
                return None
            out.extend(rest_)
            continue
        if isinstance(part, ast.BoolOp) and isinstance(part.op, ast.And) and len(part.values) == 2:
            g, acc = part.values
            gf = self_attr(g)
            if gf is None and isinstance(g, ast.Attribute) and g.attr == 'items':
                gf = self_attr(g.value)          # `self._f.items and self._f.last_token`: the field counts only when it has items
            if gf is None or not isinstance(acc, ast.Attribute):
                return None
            af = self_attr(acc.value)
            if af != gf or acc.attr not in ('first_token', 'last_token'):
                return None
            out.append(Operand(gf, acc.attr, True))
        elif isinstance(part, ast.Attribute) and part.attr in ('first_token', 'last_token'):
            af = self_attr(part.value)
            if af is None:
                return None
            out.append(Operand(af, part.attr, False))
        elif isinstance(part, ast.IfExp):
            # `self._a.last_token if self._a is not None else <rest>` (equivalent idiom)
            t = part.test
            guard: Optional[str] = None
            if isinstance(t, ast.Compare) and len(t.ops) == 1 and isinstance(t.ops[0], ast.IsNot) \
                    and isinstance(t.comparators[0], ast.Constant) and t.comparators[0].value is None:
                guard = self_attr(t.left)
            elif self_attr(t) is not None:
                guard = self_attr(t)
            if guard is None or not isinstance(part.body, ast.Attribute) or self_attr(part.body.value) != guard:
                return None
            out.append(Operand(guard, part.body.attr, True))
            rest = parse_edge_chain(part.orelse, resolver, depth + 1)
            if rest is None:
                return None
            out.extend(rest)
        else:
            return None
    return out


def truncate(chain: list[Operand], tc: TreeClass) -> list[Operand]:
    """Drop operands after the first one that is always truthy (unguarded access on an always-present field)."""
    out: list[Operand] = []
    for op in chain:
        out.append(op)
        f = tc.field(op.field)
        if not op.guarded and f is not None and f.always_present:
            break
    return out


def expected_chain(tc: TreeClass, start: int, step: int, edge: str) -> list[Operand]:
    """Scan fields from index `start` in direction `step`; optional -> guarded, stop at first always-present."""
    out: list[Operand] = []
    i = start
    while 0 <= i < len(tc.fields):
        f = tc.fields[i]
        if f.always_present:
            out.append(Operand(f.name, edge, False))
            return out
        out.append(Operand(f.name, edge, True))
        i += step
    return out


def single_return_expr(fn: FuncInfo) -> Optional[ast.AST]:
    body = stmts_no_doc(fn.node.body)
    if len(body) == 1 and isinstance(body[0], ast.Return) and body[0].value is not None:
        return body[0].value
    return None
