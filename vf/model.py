"""E0 -- program model of /repo/autobean_refactor built from source only.

Nothing from the repository is imported or executed.  Every consumer gets:
  * modules with resolved imports (relative, aliased, star imports),
  * classes with resolved bases and a statically computed C3 MRO,
  * functions with interpreted decorators (property / setter / classmethod /
    custom_property + setter),
  * the descriptor table (class level `name = <descriptor class>(...)`).
"""
from __future__ import annotations

import ast
import dataclasses
import hashlib
import os
from typing import Iterator, Optional, Union

REPO = os.environ.get('VERIF_REPO', '/repo')
PKG = 'autobean_refactor'


class AnalysisError(Exception):
    """The analyser cannot interpret an anchored construct (exit 2, never a verdict)."""


def norm(node: ast.AST | None) -> str:
    """Normalised source text of a node (position independent key)."""
    if node is None:
        return ''
    return ast.unparse(node)


@dataclasses.dataclass
class External:
    """A symbol that lives outside the repository (stdlib, lark, typing, ...)."""
    qualname: str

    def __repr__(self) -> str:
        return f'<ext {self.qualname}>'


@dataclasses.dataclass
class Const:
    """A module/class level assignment that is not a class/function/import."""
    name: str
    node: ast.AST            # the value expression
    module: 'ModuleInfo'
    owner: Optional['ClassInfo'] = None

    def __repr__(self) -> str:
        return f'<const {self.module.name}.{self.name}>'


@dataclasses.dataclass(eq=False)
class FuncInfo:
    name: str
    node: ast.FunctionDef
    module: 'ModuleInfo'
    cls: Optional['ClassInfo']
    kind: str = 'function'   # function|method|classmethod|staticmethod|getter|setter|custom_getter|custom_setter|overload
    prop: Optional[str] = None   # property name for getter/setter kinds
    parent: Optional['FuncInfo'] = None  # enclosing function for nested defs

    @property
    def qualname(self) -> str:
        owner = f'{self.cls.name}.' if self.cls else ''
        parent = f'{self.parent.qualname}.<locals>.' if self.parent else ''
        suffix = {'setter': '[set]', 'custom_setter': '[set]'}.get(self.kind, '')
        shown = self.prop if self.kind in ('setter', 'custom_setter') and self.prop else self.name
        return f'{parent}{owner}{shown}{suffix}'

    @property
    def where(self) -> str:
        return f'{self.module.relpath}:{self.node.lineno}'

    @property
    def params(self) -> list[str]:
        a = self.node.args
        return [x.arg for x in [*a.posonlyargs, *a.args]]

    def __repr__(self) -> str:
        return f'<func {self.module.name}:{self.qualname}>'


@dataclasses.dataclass(eq=False)
class DescriptorDecl:
    owner: 'ClassInfo'
    name: str
    kind: 'ClassInfo'                 # the descriptor class
    call: ast.Call
    order: int
    type_args: Optional[ast.AST] = None  # subscript on the descriptor class, e.g. required_field[Date]

    def arg(self, i: int, kw: str | None = None) -> Optional[ast.AST]:
        if i < len(self.call.args):
            return self.call.args[i]
        if kw:
            for k in self.call.keywords:
                if k.arg == kw:
                    return k.value
        return None

    def kwarg(self, kw: str) -> Optional[ast.AST]:
        for k in self.call.keywords:
            if k.arg == kw:
                return k.value
        return None

    def __repr__(self) -> str:
        return f'<desc {self.owner.name}.{self.name}: {self.kind.name}>'


@dataclasses.dataclass(eq=False)
class CustomProp:
    """A @custom_property / @cached_custom_property / @property style accessor."""
    owner: 'ClassInfo'
    name: str
    flavour: str                       # property | custom_property | cached_custom_property | cached_property
    fget: Optional[FuncInfo] = None
    fset: Optional[FuncInfo] = None
    order: int = 0

    def __repr__(self) -> str:
        return f'<prop {self.owner.name}.{self.name} ({self.flavour})>'


Symbol = Union['ModuleInfo', 'ClassInfo', FuncInfo, Const, External, DescriptorDecl, CustomProp]


def _decorator_name(d: ast.AST, table: dict) -> str:
    """the decorator as written, or -- for a plain name imported under an alias (`from .registry import token_model as _token_model`) --
    the name it was imported from"""
    if isinstance(d, ast.Name):
        t = table.get(d.id)
        real = getattr(t, 'name', None) if isinstance(t, FuncInfo) else getattr(t, 'qualname', None) if isinstance(t, External) else None
        if isinstance(t, FuncInfo) and real and real != d.id:
            return real
        if isinstance(t, External) and real:
            last = real.rstrip('?').rsplit('.', 1)[-1]
            if last and last != d.id:
                return last
    return norm(d)


@dataclasses.dataclass(eq=False)
class ClassInfo:
    name: str
    node: ast.ClassDef
    module: 'ModuleInfo'
    base_exprs: list[ast.AST] = dataclasses.field(default_factory=list)
    bases: list[Union['ClassInfo', External]] = dataclasses.field(default_factory=list)
    mro: list['ClassInfo'] = dataclasses.field(default_factory=list)
    attrs: dict[str, Symbol] = dataclasses.field(default_factory=dict)   # own class-level names
    attr_order: list[str] = dataclasses.field(default_factory=list)
    decorators: list[str] = dataclasses.field(default_factory=list)
    subclasses: list['ClassInfo'] = dataclasses.field(default_factory=list)

    @property
    def qualname(self) -> str:
        return f'{self.module.name}.{self.name}'

    @property
    def where(self) -> str:
        return f'{self.module.relpath}:{self.node.lineno}'

    def mangle(self, name: str) -> str:
        if name.startswith('__') and not name.endswith('__'):
            return f'_{self.name.lstrip("_")}{name}'
        return name

    def lookup(self, name: str) -> Optional[Symbol]:
        for c in self.mro:
            if name in c.attrs:
                return c.attrs[name]
        return None

    def lookup_owner(self, name: str) -> Optional['ClassInfo']:
        for c in self.mro:
            if name in c.attrs:
                return c
        return None

    def is_subclass_of(self, other: 'ClassInfo') -> bool:
        return other in self.mro

    def has_external_base(self, qual_suffix: str) -> bool:
        for c in self.mro:
            for b in c.bases:
                if isinstance(b, External) and b.qualname.endswith(qual_suffix):
                    return True
        return False

    def all_subclasses(self) -> list['ClassInfo']:
        out: list[ClassInfo] = []
        todo = list(self.subclasses)
        while todo:
            c = todo.pop()
            if c not in out:
                out.append(c)
                todo.extend(c.subclasses)
        return out

    def methods(self) -> Iterator[FuncInfo]:
        for v in self.attrs.values():
            if isinstance(v, FuncInfo):
                yield v
            elif isinstance(v, CustomProp):
                if v.fget:
                    yield v.fget
                if v.fset:
                    yield v.fset

    def __repr__(self) -> str:
        return f'<class {self.qualname}>'


@dataclasses.dataclass(eq=False)
class ModuleInfo:
    name: str
    path: str
    relpath: str
    tree: ast.Module
    source: str
    is_pkg: bool
    symbols: dict[str, Symbol] = dataclasses.field(default_factory=dict)
    classes: list[ClassInfo] = dataclasses.field(default_factory=list)
    functions: list[FuncInfo] = dataclasses.field(default_factory=list)
    _resolved: bool = False

    @property
    def package(self) -> str:
        return self.name if self.is_pkg else self.name.rsplit('.', 1)[0]

    def __repr__(self) -> str:
        return f'<module {self.name}>'


_PROPERTY_DECOS = {
    'property': 'property',
    'functools.cached_property': 'cached_property',
    'cached_property': 'cached_property',
}
_CUSTOM_PROP_CLASSES = {'custom_property', 'cached_custom_property'}


def _desugar_lambda_properties(tree: ast.Module) -> ast.Module:
    """`name = <...property>(lambda self: EXPR)` in a class body is the decorator form `@<...property> def name(self): return EXPR`"""
    for cls in [n for n in ast.walk(tree) if isinstance(n, ast.ClassDef)]:
        for i, st in enumerate(cls.body):
            if isinstance(st, ast.Assign) and len(st.targets) == 1 and isinstance(st.targets[0], ast.Name) and isinstance(st.value, ast.Call) \
                    and len(st.value.args) == 1 and not st.value.keywords and isinstance(st.value.args[0], ast.Lambda) \
                    and (ast.unparse(st.value.func).split('.')[-1] in ('property', 'custom_property', 'cached_custom_property', 'cached_property')):
                lam = st.value.args[0]
                fn = ast.FunctionDef(name=st.targets[0].id, args=lam.args, body=[ast.Return(value=lam.body)],
                                     decorator_list=[st.value.func], returns=None, type_comment=None, type_params=[])
                ast.copy_location(fn, st)
                ast.fix_missing_locations(fn)
                fn.end_lineno = getattr(st, 'end_lineno', st.lineno)
                cls.body[i] = fn
    return tree


class Program:
    def __init__(self, repo: str = REPO, include_tests: bool = False) -> None:
        self.repo = repo
        self.root = os.path.join(repo, PKG)
        self.modules: dict[str, ModuleInfo] = {}
        self.all_funcs: list[FuncInfo] = []
        self.digest = hashlib.sha256()
        if not os.path.isdir(self.root):
            raise AnalysisError(f'package directory not found: {self.root}')
        self._load(include_tests)
        for m in list(self.modules.values()):
            self._resolve_module(m)
        self._fix_deferred()
        self._finish_classes()

    # ---------------------------------------------------------------- loading
    def _load(self, include_tests: bool) -> None:
        self.restored: list[str] = []
        for dirpath, dirnames, filenames in os.walk(self.root):
            dirnames.sort()
            if not include_tests:
                dirnames[:] = [d for d in dirnames if d not in ('tests', '__pycache__')]
            for fn in sorted(filenames):
                if not fn.endswith('.py'):
                    continue
                if not include_tests and fn.endswith('_test.py'):
                    continue
                path = os.path.join(dirpath, fn)
                rel = os.path.relpath(path, self.repo)
                parts = rel[:-3].split(os.sep)
                is_pkg = parts[-1] == '__init__'
                if is_pkg:
                    parts = parts[:-1]
                name = '.'.join(parts)
                with open(path, encoding='utf-8') as f:
                    src = f.read()
                self.digest.update(rel.encode() + b'\0' + src.encode() + b'\0')
                try:
                    tree = ast.parse(src, filename=path)
                except SyntaxError as e:  # the build is broken; nothing can be decided
                    raise AnalysisError(f'cannot parse {rel}: {e}')
                tree = _desugar_lambda_properties(tree)
                from . import baseline
                tree = baseline.restore(rel, tree, self.restored)
                if os.environ.get('VERIF_NO_CANON') != '1':
                    from .canon import canonicalise
                    tree = canonicalise(tree)
                self.modules[name] = ModuleInfo(name, path, rel, tree, src, is_pkg)

    def module(self, name: str) -> ModuleInfo:
        full = name if name.startswith(PKG) else f'{PKG}.{name}'
        m = self.modules.get(full)
        if m is None:
            raise AnalysisError(f'anchor module vanished: {full}')
        return m

    # -------------------------------------------------------------- resolution
    def _abs_module(self, m: ModuleInfo, level: int, mod: Optional[str]) -> str:
        if level == 0:
            return mod or ''
        base = m.package.split('.')
        if level > 1:
            base = base[:-(level - 1)]
        return '.'.join(base + ([mod] if mod else []))

    def _resolve_module(self, m: ModuleInfo) -> None:
        if m._resolved:
            return
        m._resolved = True  # guards cycles: a cyclic star import sees what is there so far
        self._scan_body(m, m.tree.body, m.symbols, None, None)

    def _import_from(self, m: ModuleInfo, st: ast.ImportFrom, table: dict[str, Symbol]) -> None:
        target = self._abs_module(m, st.level, st.module)
        tm = self.modules.get(target)
        for alias in st.names:
            if alias.name == '*':
                if tm is None:
                    continue
                self._resolve_module(tm)
                for k, v in tm.symbols.items():
                    if not k.startswith('_'):
                        table[k] = v
                continue
            bound = alias.asname or alias.name
            sub = self.modules.get(f'{target}.{alias.name}')
            if tm is not None:
                self._resolve_module(tm)
                if alias.name in tm.symbols:
                    table[bound] = tm.symbols[alias.name]
                    continue
            if sub is not None:
                table[bound] = sub
                continue
            if tm is not None:
                # a repo module that does not (yet) define the name: a cycle or a real miss
                table[bound] = External(f'{target}.{alias.name}?')
            else:
                table[bound] = External(f'{target}.{alias.name}')

    def _scan_body(self, m: ModuleInfo, body: list[ast.stmt], table: dict[str, Symbol],
                   cls: Optional[ClassInfo], parent: Optional[FuncInfo]) -> None:
        order = 0
        for st in body:
            order += 1
            if isinstance(st, ast.Import):
                for alias in st.names:
                    bound = alias.asname or alias.name.split('.')[0]
                    target = alias.name if alias.asname else alias.name.split('.')[0]
                    table[bound] = self.modules.get(target) or External(target)
            elif isinstance(st, ast.ImportFrom):
                self._import_from(m, st, table)
            elif isinstance(st, ast.ClassDef):
                ci = ClassInfo(st.name, st, m, base_exprs=list(st.bases))
                ci.decorators = [_decorator_name(d, table) for d in st.decorator_list]
                table[st.name] = ci
                m.classes.append(ci)
                if cls is not None:
                    cls.attr_order.append(st.name)
                # bases are resolved against the table as it is *now*
                for b in st.bases:
                    ci.bases.append(self._resolve_base(m, table, b))
                self._scan_class(m, ci, table)
            elif isinstance(st, (ast.FunctionDef, ast.AsyncFunctionDef)):
                self._scan_function(m, st, table, cls, parent, order)
            elif isinstance(st, (ast.Assign, ast.AnnAssign)):
                targets = st.targets if isinstance(st, ast.Assign) else [st.target]
                value = st.value
                if value is None:
                    continue
                for t in targets:
                    if isinstance(t, ast.Name):
                        self._bind_assignment(m, table, cls, t.id, value, order)
            elif isinstance(st, (ast.If, ast.Try, ast.With)):
                # TYPE_CHECKING blocks, try/except imports, `with open(...)` at module level
                bodies: list[list[ast.stmt]] = []
                if isinstance(st, ast.If):
                    bodies = [st.body, st.orelse]
                elif isinstance(st, ast.Try):
                    bodies = [st.body, st.orelse, st.finalbody] + [h.body for h in st.handlers]
                else:
                    bodies = [st.body]
                for b in bodies:
                    self._scan_body(m, b, table, cls, parent)

    def _bind_assignment(self, m: ModuleInfo, table: dict[str, Symbol], cls: Optional[ClassInfo],
                         name: str, value: ast.AST, order: int) -> None:
        key = cls.mangle(name) if cls else name
        if cls is not None and key not in cls.attr_order:
            cls.attr_order.append(key)
        # alias of an existing symbol (`raw_date = raw_date_comp`, `cost = raw_cost`, `Directive = A | B`)
        if isinstance(value, (ast.Name, ast.Attribute)):
            sym = self.resolve_expr(m, value, table, cls)
            if sym is not None and not isinstance(sym, External):
                table[key] = sym
                return
        if isinstance(value, ast.Call) and cls is not None:
            fn = value.func
            targs = None
            if isinstance(fn, ast.Subscript):
                targs = fn.slice
                fn = fn.value
            sym = self.resolve_expr(m, fn, table, cls)
            if isinstance(sym, ClassInfo):
                table[key] = DescriptorDecl(cls, key, sym, value, order, targs)
                return
        table[key] = Const(key, value, m, cls)

    def _resolve_base(self, m: ModuleInfo, table: dict[str, Symbol], b: ast.AST) -> Union[ClassInfo, External]:
        e = b
        if isinstance(e, ast.Subscript):
            e = e.value
        sym = self.resolve_expr(m, e, table, None)
        if isinstance(sym, ClassInfo):
            return sym
        return External(norm(e) if not isinstance(sym, External) else sym.qualname)

    def _scan_class(self, m: ModuleInfo, ci: ClassInfo, outer: dict[str, Symbol]) -> None:
        # class bodies see module names + own names; we give them a layered table
        table = _Layered(ci.attrs, outer)
        self._scan_body(m, ci.node.body, table, ci, None)  # type: ignore[arg-type]

    def _scan_function(self, m: ModuleInfo, st: ast.FunctionDef, table: dict[str, Symbol],
                       cls: Optional[ClassInfo], parent: Optional[FuncInfo], order: int) -> None:
        fi = FuncInfo(st.name, st, m, cls, 'method' if cls else 'function', parent=parent)
        self.all_funcs.append(fi)
        if cls is None:
            m.functions.append(fi)
        decos = [norm(d) for d in st.decorator_list]
        key = cls.mangle(st.name) if cls else st.name
        if cls is not None and key not in cls.attr_order:
            cls.attr_order.append(key)
        bound: Symbol = fi
        for d, dnode in zip(decos, st.decorator_list):
            last = d.rsplit('.', 1)[-1]
            if d in ('overload', 'typing.overload'):
                fi.kind = 'overload'
                return  # overload stubs never become the binding
            if d in ('classmethod',):
                fi.kind = 'classmethod'
            elif d in ('staticmethod',):
                fi.kind = 'staticmethod'
            elif d in _PROPERTY_DECOS and cls is not None:
                fi.kind, fi.prop = 'getter', key
                bound = CustomProp(cls, key, _PROPERTY_DECOS[d], fget=fi, order=order)
            elif last in _CUSTOM_PROP_CLASSES and cls is not None:
                fi.kind, fi.prop = 'custom_getter', key
                bound = CustomProp(cls, key, last, fget=fi, order=order)
            elif last == 'setter' and isinstance(dnode, ast.Attribute) and cls is not None:
                target = self.resolve_expr(m, dnode.value, table, cls)
                if isinstance(target, CustomProp):
                    if target.owner is not cls:
                        # setter defined in a subclass on an inherited property: new prop object
                        target = CustomProp(cls, target.name, target.flavour, target.fget, None, order)
                    fi.kind = 'setter' if target.flavour == 'property' else 'custom_setter'
                    fi.prop = target.name
                    target.fset = fi
                    bound = target
                    # python `@x.setter def x` rebinds x; custom_property.setter returns self,
                    # so the (mangled) function name is an alias of the same property
                    table[target.name] = target
            # other decorators (final, abc.abstractmethod, no_type_check, _operand_type_check,
            # contextlib.contextmanager, dataclass...) keep the function binding
        table[key] = bound
        # nested functions
        for sub in ast.walk(st):
            if sub is st:
                continue
            if isinstance(sub, (ast.FunctionDef, ast.AsyncFunctionDef)) and _direct_parent_func(st, sub):
                nested = FuncInfo(sub.name, sub, m, None, 'function', parent=fi)
                self.all_funcs.append(nested)

    def resolve_expr(self, m: ModuleInfo, e: ast.AST, table: Optional[dict[str, Symbol]] = None,
                     cls: Optional[ClassInfo] = None) -> Optional[Symbol]:
        """Resolve a Name / dotted Attribute chain / Subscript-of-class to a symbol."""
        if table is None:
            table = m.symbols
        if isinstance(e, ast.Subscript):
            return self.resolve_expr(m, e.value, table, cls)
        if isinstance(e, ast.Name):
            nm = cls.mangle(e.id) if cls else e.id
            if nm in table:
                return table[nm]
            if e.id in table:
                return table[e.id]
            if e.id in m.symbols:
                return m.symbols[e.id]
            return None
        if isinstance(e, ast.Attribute):
            basesym = self.resolve_expr(m, e.value, table, cls)
            if isinstance(basesym, ModuleInfo):
                self._resolve_module(basesym)
                if e.attr in basesym.symbols:
                    return basesym.symbols[e.attr]
                sub = self.modules.get(f'{basesym.name}.{e.attr}')
                return sub
            if isinstance(basesym, ClassInfo):
                if not basesym.mro:
                    # during scanning the MRO is not there yet: search own + resolved bases
                    return _early_lookup(basesym, e.attr)
                return basesym.lookup(e.attr)
            if isinstance(basesym, External):
                return External(f'{basesym.qualname}.{e.attr}')
            return None
        return None

    def _fix_deferred(self) -> None:
        """names imported from a module that was still being scanned (import cycle) are looked up again"""
        for _ in range(3):
            changed = False
            for m in self.modules.values():
                for k, v in list(m.symbols.items()):
                    if isinstance(v, External) and v.qualname.endswith('?'):
                        modname, _, name = v.qualname[:-1].rpartition('.')
                        tm = self.modules.get(modname)
                        if tm is not None and name in tm.symbols and not (
                                isinstance(tm.symbols[name], External) and tm.symbols[name].qualname.endswith('?')):
                            m.symbols[k] = tm.symbols[name]
                            changed = True
            if not changed:
                break

    # ------------------------------------------------------------------- MRO
    def _finish_classes(self) -> None:
        allc = [c for m in self.modules.values() for c in m.classes]
        for c in allc:
            self._mro(c)
        for c in allc:
            for b in c.bases:
                if isinstance(b, ClassInfo):
                    b.subclasses.append(c)
        self.classes = allc
        self.class_by_name: dict[str, list[ClassInfo]] = {}
        for c in allc:
            self.class_by_name.setdefault(c.name, []).append(c)

    def _mro(self, c: ClassInfo) -> list[ClassInfo]:
        if c.mro:
            return c.mro
        seqs: list[list[ClassInfo]] = []
        for b in c.bases:
            if isinstance(b, ClassInfo):
                seqs.append(list(self._mro(b)))
        seqs.append([b for b in c.bases if isinstance(b, ClassInfo)])
        out = [c]
        seqs = [s for s in seqs if s]
        while seqs:
            for s in seqs:
                cand = s[0]
                if not any(cand in t[1:] for t in seqs):
                    break
            else:
                raise AnalysisError(f'inconsistent MRO for {c.qualname}')
            out.append(cand)
            seqs = [[x for x in s if x is not cand] for s in seqs]
            seqs = [s for s in seqs if s]
        c.mro = out
        return out

    # ------------------------------------------------------------- conveniences
    def cls(self, name: str, module: Optional[str] = None) -> ClassInfo:
        cands = self.class_by_name.get(name, [])
        if module:
            full = module if module.startswith(PKG) else f'{PKG}.{module}'
            cands = [c for c in cands if c.module.name == full]
        if len(cands) != 1:
            raise AnalysisError(f'anchor class {name!r} (module {module}) resolves to {len(cands)} classes')
        return cands[0]

    def func(self, module: str, name: str) -> FuncInfo:
        m = self.module(module)
        sym = m.symbols.get(name)
        if not isinstance(sym, FuncInfo):
            raise AnalysisError(f'anchor function vanished: {module}.{name}')
        return sym

    def method(self, c: ClassInfo, name: str, *, setter: bool = False, inherited: bool = True) -> FuncInfo:
        sym = c.lookup(name) if inherited else c.attrs.get(name)
        if isinstance(sym, FuncInfo) and not setter:
            return sym
        if isinstance(sym, CustomProp):
            f = sym.fset if setter else sym.fget
            if f is not None:
                return f
        raise AnalysisError(f'anchor method vanished: {c.qualname}.{name}{"[set]" if setter else ""}')

    def try_method(self, c: ClassInfo, name: str, *, setter: bool = False, inherited: bool = True) -> Optional[FuncInfo]:
        try:
            return self.method(c, name, setter=setter, inherited=inherited)
        except AnalysisError:
            return None

    def tree_model_classes(self) -> list[ClassInfo]:
        base = self.cls('RawTreeModel', 'models.base')
        return [c for c in self.classes if base in c.mro and c is not base]

    def token_model_classes(self) -> list[ClassInfo]:
        base = self.cls('RawTokenModel', 'models.base')
        return [c for c in self.classes if base in c.mro and c is not base]

    def registered(self, decorator_last: str) -> list[ClassInfo]:
        return [c for c in self.classes
                if any(d.rsplit('.', 1)[-1] == decorator_last for d in c.decorators)]

    def class_const(self, c: ClassInfo, name: str) -> Optional[ast.AST]:
        sym = c.lookup(name)
        if isinstance(sym, Const):
            return sym.node
        return None

    def functions_in(self, m: ModuleInfo) -> list[FuncInfo]:
        return [f for f in self.all_funcs if f.module is m]


class _Layered(dict):  # type: ignore[type-arg]
    """Name table for a class body: writes go to the class, reads fall through to the module."""

    def __init__(self, own: dict[str, Symbol], outer: dict[str, Symbol]) -> None:
        super().__init__()
        self._own = own
        self._outer = outer

    def __contains__(self, k: object) -> bool:
        return k in self._own or k in self._outer

    def __getitem__(self, k: str) -> Symbol:
        if k in self._own:
            return self._own[k]
        return self._outer[k]

    def __setitem__(self, k: str, v: Symbol) -> None:
        self._own[k] = v

    def get(self, k: str, d: object = None) -> object:  # type: ignore[override]
        try:
            return self[k]
        except KeyError:
            return d

    def setdefault(self, k: str, v: Symbol) -> Symbol:  # type: ignore[override]
        if k not in self._own:
            self._own[k] = v
        return self._own[k]

    def items(self):  # type: ignore[no-untyped-def,override]
        return self._own.items()


def _early_lookup(c: ClassInfo, name: str) -> Optional[Symbol]:
    seen: set[int] = set()
    todo: list[ClassInfo] = [c]
    while todo:
        k = todo.pop(0)
        if id(k) in seen:
            continue
        seen.add(id(k))
        if name in k.attrs:
            return k.attrs[name]
        todo.extend(b for b in k.bases if isinstance(b, ClassInfo))
    return None


def _direct_parent_func(outer: ast.AST, inner: ast.AST) -> bool:
    """True if `inner` is nested in `outer` with no other def in between."""
    def walk(n: ast.AST) -> bool:
        for ch in ast.iter_child_nodes(n):
            if ch is inner:
                return True
            if isinstance(ch, (ast.FunctionDef, ast.AsyncFunctionDef, ast.ClassDef, ast.Lambda)):
                continue
            if walk(ch):
                return True
        return False
    return walk(outer)


# ------------------------------------------------------------------ small AST helpers
def self_attr(e: ast.AST, name: str = 'self') -> Optional[str]:
    """`self.x` -> 'x'."""
    if isinstance(e, ast.Attribute) and isinstance(e.value, ast.Name) and e.value.id == name:
        return e.attr
    return None


def dotted(e: ast.AST) -> Optional[str]:
    parts: list[str] = []
    while isinstance(e, ast.Attribute):
        parts.append(e.attr)
        e = e.value
    if isinstance(e, ast.Name):
        parts.append(e.id)
        return '.'.join(reversed(parts))
    return None


def call_name(c: ast.AST) -> Optional[str]:
    if isinstance(c, ast.Call):
        return dotted(c.func)
    return None


def stmts_no_doc(body: list[ast.stmt]) -> list[ast.stmt]:
    if body and isinstance(body[0], ast.Expr) and isinstance(body[0].value, ast.Constant) \
            and isinstance(body[0].value.value, str):
        return body[1:]
    return body


def walk_no_nested(node: ast.AST) -> Iterator[ast.AST]:
    """ast.walk that does not descend into nested function/class definitions (lambdas are entered)."""
    todo = [node]
    first = True
    while todo:
        n = todo.pop()
        if not first and isinstance(n, (ast.FunctionDef, ast.AsyncFunctionDef, ast.ClassDef)):
            continue
        first = False
        yield n
        todo.extend(reversed(list(ast.iter_child_nodes(n))))   # depth-first, source order
