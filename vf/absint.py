"""E2 -- effect / ownership abstract interpreter over the repository's own code.

It executes function bodies over abstract values (absval) and records, in program
order along every path, two kinds of events:

    Mut(kind, own)  a mutation of document state: store structure, token text, tree shape,
                    claim flag -- counted only when the mutated object is Borrowed
    Ref(reason)     a point where the call may be refused with an exception

Per invocation the effect state is None (nothing Borrowed mutated yet), INH (the caller had
already mutated) or a relative stack naming the first mutation.  A Ref reached in a
non-clean state is an ordering violation.  Invocations are summarised context-free
(function x abstract arguments x entered-dirty) and memoised.

Nothing from the repository is imported or run; unsupported syntax inside an analysed
function raises AnalysisError (exit 2), never a verdict.
"""
from __future__ import annotations

import ast
import dataclasses
from typing import Any, Optional

from .absval import (B, F, CallableField, ClosureV, ClsV, DescV, ExtV, FuncV, ListV, ModV, NoneV, Obj, Plain, StoreV, SuperV,
                     TupleV, Unknown, join_own, join_values, own_of)
from .model import (AnalysisError, ClassInfo, Const, CustomProp, DescriptorDecl, External, FuncInfo, ModuleInfo, Program, norm)

INH = 'INH'
Stack = tuple            # tuple of (function qualname, statement text)

FIELD_KINDS = {'required_field', 'optional_left_field', 'optional_right_field', 'repeated_field', 'data_field'}
STORE_MUTATORS = {'splice', 'insert_after', 'insert_before', 'remove', 'replace', '_splice'}
STORE_READS_TOKEN = {'get_prev', 'get_next', 'get_first', 'get_last'}
LIST_MUTATORS = {'append', 'extend', 'insert', 'pop', 'remove', 'clear', 'sort', 'reverse'}
REFUSAL_EXC = {'ValueError', 'KeyError', 'IndexError', 'TypeError'}
TEXT_ATTRS = {'_value', '_indent', '_raw_text'}


@dataclasses.dataclass
class Summary:
    outcomes: list = dataclasses.field(default_factory=list)      # [(value, fx)]
    raised: list = dataclasses.field(default_factory=list)        # [fx] of paths that end in a raise
    inh_refs: list = dataclasses.field(default_factory=list)      # relative stacks of Refs reachable while fx == INH
    muts: dict = dataclasses.field(default_factory=dict)          # relative stack -> (kind, detail)
    refs: dict = dataclasses.field(default_factory=dict)          # relative stack -> reason (any Ref, informational)
    violations: dict = dataclasses.field(default_factory=dict)    # (mut stack, ref stack) -> reason
    done: bool = False
    muts_any: bool = False                                        # some mutation of any ownership happened (invalidates attribute facts)


class Frame:
    def __init__(self, fn_name: str, module: ModuleInfo, cls: Optional[ClassInfo], summary: Summary) -> None:
        self.fn_name = fn_name
        self.module = module
        self.cls = cls
        self.summary = summary
        self.stmt = ''
        self.serial = 0
        self.raise_flags = 0
        self.yields: list = []


class State:
    """one path: variable environment + effect state"""
    __slots__ = ('env', 'fx')

    def __init__(self, env: dict, fx: Any) -> None:
        self.env = env
        self.fx = fx

    def key(self) -> tuple:
        return (tuple(sorted(self.env.items(), key=lambda kv: kv[0])), self.fx)

    def with_env(self, name: str, v: Any) -> 'State':
        e = dict(self.env)
        e[name] = v
        return State(e, self.fx)

    def with_fx(self, fx: Any) -> 'State':
        return State(self.env, fx)


def dedupe(states: list[State]) -> list[State]:
    """one representative per (environment, clean / inherited / dirty): any dirty state is enough to expose a later refusal"""
    seen = set()
    out = []
    for s in states:
        try:
            k = (tuple(sorted(s.env.items(), key=lambda kv: kv[0])), None if s.fx is None else INH if s.fx == INH else 'dirty')
            hash(k)
        except TypeError:
            out.append(s)
            continue
        if k not in seen:
            seen.add(k)
            out.append(s)
    return out


class Interp:
    def __init__(self, p: Program) -> None:
        self.p = p
        self.funcs: list[FuncInfo] = []
        self.fid: dict[int, int] = {}
        self.closures: list[tuple] = []       # (node, env dict, module, cls, name)
        self.descs: list[dict] = []           # {'kind': ClassInfo, 'attrs': {name: Value}, 'decl': ..., 'label': str}
        self.desc_of_decl: dict[int, int] = {}
        self.memo: dict[tuple, Summary] = {}
        self.active: set[tuple] = set()
        self.stats = {'calls': 0, 'memo_hits': 0, 'unresolved_calls': 0, 'recursion_cuts': 0, 'functions_interpreted': set(),
                      'unresolved_sites': {}}
        self.base_token = p.cls('RawTokenModel', 'models.base')
        self.base_tree = p.cls('RawTreeModel', 'models.base')
        self.base_model = p.cls('RawModel', 'models.base')
        self.store_cls = p.cls('TokenStore', 'token_store')
        self.token_cls = p.cls('Token', 'token_store')
        self.data_field = p.cls('data_field', 'models.internal.fields')
        self.cls_by_qual = {c.qualname: c for c in p.classes}
        self.callable_sites: dict[tuple[str, str], list] = {}
        self.depth = 0

    # ------------------------------------------------------------------ registries
    def func_value(self, f: FuncInfo, self_: Any = None) -> FuncV:
        if id(f) not in self.fid:
            self.fid[id(f)] = len(self.funcs)
            self.funcs.append(f)
        return FuncV(self.fid[id(f)], self_)

    def is_model_class(self, c: ClassInfo) -> bool:
        return self.base_model in c.mro

    def classes_of(self, types: Optional[frozenset[str]]) -> list[ClassInfo]:
        if types is None:
            return []
        return [self.cls_by_qual[t] for t in types if t in self.cls_by_qual]

    # ------------------------------------------------------------------ type expressions -> classes
    def type_classes(self, m: ModuleInfo, e: Optional[ast.AST], cls: Optional[ClassInfo] = None, depth: int = 0
                     ) -> tuple[Optional[set[ClassInfo]], bool]:
        """(classes named by the annotation or None if not repo classes, nullable)"""
        if e is None or depth > 60:
            return None, False
        if isinstance(e, ast.Constant) and isinstance(e.value, str):
            try:
                return self.type_classes(m, ast.parse(e.value, mode='eval').body, cls, depth + 1)
            except SyntaxError:
                return None, False
        if isinstance(e, ast.Constant) and e.value is None:
            return set(), True
        if isinstance(e, ast.BinOp) and isinstance(e.op, ast.BitOr):
            a, an = self.type_classes(m, e.left, cls, depth + 1)
            b, bn = self.type_classes(m, e.right, cls, depth + 1)
            if a is None or b is None:
                return None, an or bn
            return a | b, an or bn
        if isinstance(e, ast.Subscript):
            head = norm(e.value).rsplit('.', 1)[-1]
            if head == 'Optional':
                a, _ = self.type_classes(m, e.slice, cls, depth + 1)
                return a, True
            if head == 'Union':
                parts = e.slice.elts if isinstance(e.slice, ast.Tuple) else [e.slice]
                out: set[ClassInfo] = set()
                nul = False
                for x in parts:
                    a, n = self.type_classes(m, x, cls, depth + 1)
                    nul = nul or n
                    if a is None:
                        return None, nul
                    out |= a
                return out, nul
            if head in ('Type',):
                return None, False
            return self.type_classes(m, e.value, cls, depth + 1)     # Repeated[_M] -> Repeated
        sym = self.p.resolve_expr(m, e, None, cls)
        if isinstance(sym, ClassInfo):
            return {sym}, False
        if isinstance(sym, Const):
            return self.type_classes(sym.module, sym.node, sym.owner, depth + 1)
        if isinstance(e, ast.Name):
            cands = [c for c in self.p.class_by_name.get(e.id, []) if self.is_model_class(c)]
            if cands:
                return set(cands), False
        return None, False

    def value_of_annotation(self, m: ModuleInfo, ann: Optional[ast.AST], own: str, cls: Optional[ClassInfo] = None) -> Any:
        if ann is None:
            return Obj(None, own, True)
        t = norm(ann)
        head = t.split('[')[0].rsplit('.', 1)[-1]
        if head in ('int', 'str', 'bool', 'float', 'Decimal', 'date', 'slice', 'bytes') or t in ('int | slice', 'int | slice | str', 'int | str'):
            return Plain('param', None, False, t if t in ('int', 'str', 'bool') else '')
        if head in ('Iterable', 'Iterator', 'Sequence', 'list', 'Collection', 'MutableSequence', 'tuple', 'Mapping'):
            inner = None
            if isinstance(ann, ast.Subscript):
                sl = ann.slice.elts[0] if isinstance(ann.slice, ast.Tuple) else ann.slice
                inner = self.value_of_annotation(m, sl, own, cls)
            return ListV(inner if inner is not None else Obj(None, own, False), F, 'local')
        if head == 'Callable':
            return Unknown('callable parameter')
        classes, nul = self.type_classes(m, ann, cls)
        if classes:
            if any(c is self.store_cls for c in classes) or 'TokenStore' in t:
                return StoreV(own, nul)
            return Obj(frozenset(c.qualname for c in classes), own, nul)
        if 'TokenStore' in t:
            return StoreV(own, 'Optional' in t)
        if classes is not None and nul:
            return NoneV()
        return Obj(None, own, 'Optional' in t or 'None' in t)

    # ------------------------------------------------------------------ descriptor objects
    def desc_for_symbol(self, sym: Any) -> Optional[DescV]:
        """DescV for a class-level DescriptorDecl or a custom_property-style CustomProp"""
        if isinstance(sym, DescriptorDecl):
            if id(sym) in self.desc_of_decl:
                return DescV(self.desc_of_decl[id(sym)])
            did = len(self.descs)
            self.desc_of_decl[id(sym)] = did
            rec = {'kind': sym.kind, 'attrs': {}, 'decl': sym, 'label': f'{sym.owner.name}.{sym.name}', 'type_args': sym.type_args,
                   'module': sym.owner.module, 'owner': sym.owner}
            self.descs.append(rec)
            self._init_descriptor(did, sym)
            return DescV(did)
        if isinstance(sym, CustomProp) and sym.flavour in ('custom_property', 'cached_custom_property'):
            if id(sym) in self.desc_of_decl:
                return DescV(self.desc_of_decl[id(sym)])
            did = len(self.descs)
            self.desc_of_decl[id(sym)] = did
            kind = self.p.cls(sym.flavour, 'models.internal.properties')
            attrs: dict[str, Any] = {'_attr': Plain('const', sym.name, True)}
            if sym.fget is not None:
                attrs['_fget'] = self.func_value(sym.fget)
            if sym.fset is not None:
                attrs['_fset'] = self.func_value(sym.fset)
            else:
                attrs['_fset'] = self.func_value(self.p.func('models.internal.properties', '_default_fset'))
            self.descs.append({'kind': kind, 'attrs': attrs, 'decl': sym, 'label': f'{sym.owner.name}.{sym.name}', 'type_args': None,
                               'module': sym.owner.module, 'owner': sym.owner})
            return DescV(did)
        return None

    def _init_descriptor(self, did: int, decl: DescriptorDecl) -> None:
        """run the descriptor class's __init__ abstractly to learn its attributes"""
        rec = self.descs[did]
        rec['attrs']['_attr'] = Plain('const', decl.name, True)
        init = decl.kind.lookup('__init__')
        if not isinstance(init, FuncInfo):
            return
        # evaluate constructor arguments in the scope of the declaring class
        fr = Frame(f'<class {decl.owner.name}>', decl.owner.module, decl.owner, Summary())
        st = State({}, None)
        args = []
        for a in decl.call.args:
            args.append(self._first(self.eval(a, st, fr)))
        kwargs = {k.arg: self._first(self.eval(k.value, st, fr)) for k in decl.call.keywords if k.arg}
        self.call_function(init, [DescV(did), *args], kwargs, st, fr, record=False)

    @staticmethod
    def _first(res: list) -> Any:
        return join_values([v for v, _ in res]) if res else Unknown('no value')

    def desc_attr(self, d: DescV, name: str) -> Any:
        return self.descs[d.did]['attrs'].get(name)

    # ------------------------------------------------------------------ events
    def mut(self, kind: str, own: str, detail: str, st: State, fr: Frame) -> State:
        fr.summary.muts_any = True
        if own != B:
            return _drop_facts(st)
        site = ((fr.fn_name, fr.stmt, fr.serial),)
        fr.summary.muts.setdefault(site, (kind, detail))
        st = _drop_facts(st)
        if st.fx is None:
            return st.with_fx(site)
        return st

    def ref(self, reason: str, st: State, fr: Frame) -> None:
        site = ((fr.fn_name, fr.stmt, fr.serial),)
        fr.summary.refs.setdefault(site, reason)
        if st.fx is None:
            return
        if st.fx == INH:
            if site not in fr.summary.inh_refs:
                fr.summary.inh_refs.append(site)
            return
        fr.summary.violations.setdefault((st.fx, site), reason)


@dataclasses.dataclass(frozen=True)
class PrimV:
    name: str                  # e.g. 'store.splice', 'list.append', 'model.detach', 'ctor.from_value', 'ext.copy.deepcopy'
    recv: Any = None


@dataclasses.dataclass(frozen=True)
class DictCacheV:
    own: str


@dataclasses.dataclass(frozen=True)
class InstV:
    """instance of a repository non-model class constructed during the analysis; attributes live in Interp.insts"""
    cls: str
    iid: int
    own: str


STR_METHODS = {'split', 'splitlines', 'rstrip', 'lstrip', 'strip', 'startswith', 'endswith', 'removeprefix', 'removesuffix', 'replace',
               'count', 'rfind', 'find', 'upper', 'lower', 'join', 'strftime', 'format', 'encode', 'partition', 'isoformat', 'quantize',
               'as_tuple', 'normalize', 'adjusted', 'is_zero', 'is_signed', 'copy_abs', 'copy_negate', 'to_integral_value', 'scaleb',
               'is_finite', 'is_nan', 'is_normal', 'is_subnormal', 'is_infinite', 'is_qnan', 'is_snan', 'is_canonical', 'copy_sign', 'compare',
               'compare_total', 'same_quantum', 'to_integral', 'to_integral_exact', 'number_class', 'canonical', 'year', 'month', 'day', 'group', 'groups', 'fullmatch', 'match', 'findall', 'sub'}
MODEL_PRIMS = {'detach', 'reattach', '_reattach', 'clone', '_clone', '__deepcopy__', 'iter_children_formatted'}
CTOR_PRIMS = {'from_value', 'from_default', 'from_raw_text', 'from_children', 'from_parsed_children', 'from_tokens'}
PURE_BUILTINS = {'len', 'str', 'int', 'id', 'repr', 'bool', 'abs', 'min', 'max', 'sum', 'range', 'hasattr', 'print', 'float',
                 'any', 'all', 'ord', 'chr', 'hash', 'format', 'round', 'divmod', 'callable', 'issubclass', 'slice', 'object'}
SEQ_BUILTINS = {'list', 'tuple', 'sorted', 'reversed', 'iter', 'set', 'frozenset'}


def _inst_table(self: 'Interp') -> list:
    if not hasattr(self, 'insts'):
        self.insts = []          # type: ignore[attr-defined]
    return self.insts            # type: ignore[attr-defined]


def _own(v: Any) -> str:
    if isinstance(v, (InstV, DictCacheV)):
        return v.own
    if isinstance(v, PrimV):
        return _own(v.recv) if v.recv is not None else F
    return own_of(v)


class _EvalMixin:
    # ---------------------------------------------------------------- symbols
    def symbol_value(self: Any, sym: Any, fr: Frame) -> Any:
        if isinstance(sym, ClassInfo):
            return ClsV(sym.qualname)
        if isinstance(sym, FuncInfo):
            return self.func_value(sym)
        if isinstance(sym, ModuleInfo):
            return ModV(sym.name)
        if isinstance(sym, External):
            return ExtV(sym.qualname)
        if isinstance(sym, (DescriptorDecl, CustomProp)):
            d = self.desc_for_symbol(sym)
            return d if d is not None else Unknown('class-level property')
        if isinstance(sym, Const):
            key = id(sym)
            cache = self.__dict__.setdefault('_const_cache', {})
            if key in cache:
                return cache[key]
            cache[key] = Unknown('const in progress')
            f2 = Frame(f'<module {sym.module.name}>', sym.module, sym.owner, Summary())
            try:
                v = self._first(self.eval(sym.node, State({}, None), f2))
            except AnalysisError:
                v = Unknown('const')
            cache[key] = v
            return v
        return Unknown('symbol')

    def lookup_name(self: Any, name: str, st: State, fr: Frame) -> Any:
        if name in st.env:
            return st.env[name]
        if fr.cls is not None:
            nm = fr.cls.mangle(name)
            if nm in fr.cls.attrs and fr.fn_name.startswith('<class'):
                return self.symbol_value(fr.cls.attrs[nm], fr)
        if name in fr.module.symbols:
            return self.symbol_value(fr.module.symbols[name], fr)
        if name in ('True', 'False'):
            return Plain('const', name == 'True', True)
        if name in PURE_BUILTINS or name in SEQ_BUILTINS or name in ('isinstance', 'next', 'enumerate', 'zip', 'map', 'filter', 'type',
                                                                      'super', 'getattr', 'dict', 'property', 'classmethod', 'staticmethod'):
            return ExtV(name)
        if name in ('ValueError', 'KeyError', 'IndexError', 'TypeError', 'NotImplementedError', 'AssertionError', 'NotImplemented',
                    'StopIteration', 'Exception'):
            return ExtV(name)
        return Unknown(f'name {name}')

    # ---------------------------------------------------------------- iteration
    def elem_of(self: Any, v: Any, st: State, fr: Frame) -> Any:
        if isinstance(v, ListV):
            return v.elem if v.elem is not None else Unknown('element')
        if isinstance(v, TupleV):
            return join_values(list(v.elems)) if v.elems else Unknown('empty tuple')
        if isinstance(v, (Obj, InstV)):
            for nm in ('__iter__',):
                res = self.load_attr(v, nm, st, fr)
                for m, s2 in res:
                    if isinstance(m, (FuncV, ClosureV)):
                        out = self.call_value(m, [], {}, s2, fr)
                        vals = [self.elem_of(x, s3, fr) for x, s3 in out]
                        if vals:
                            return join_values(vals)
            res = self.load_attr(v, '__getitem__', st, fr)
            for m, s2 in res:
                if isinstance(m, (FuncV, ClosureV)):
                    out = self.call_value(m, [Plain('derived')], {}, s2, fr)
                    vals = [x for x, _ in out]
                    if vals:
                        return join_values(vals)
            return Obj(None, _own(v), False)
        if isinstance(v, StoreV):
            return Obj(frozenset({self.base_token.qualname}), v.own, False)
        return Unknown('element of unknown')

    # ---------------------------------------------------------------- attribute load
    def inst_attr(self: Any, c: ClassInfo, attr: str, recv: Any) -> Any:
        own = _own(recv)
        for k in c.mro:
            init = k.attrs.get('__init__')
            if not isinstance(init, FuncInfo):
                continue
            ann = {a.arg: a.annotation for a in [*init.node.args.args, *init.node.args.kwonlyargs]}
            for n in ast.walk(init.node):
                if isinstance(n, ast.Assign) and len(n.targets) == 1 and isinstance(n.targets[0], ast.Attribute) \
                        and isinstance(n.targets[0].value, ast.Name) and n.targets[0].value.id == 'self' and n.targets[0].attr == attr:
                    if isinstance(n.value, ast.Name) and n.value.id in ann:
                        return self.value_of_annotation(k.module, ann[n.value.id], own, k)
                    if isinstance(n.value, ast.Call) and norm(n.value.func) == 'list' and n.value.args \
                            and isinstance(n.value.args[0], ast.Name) and n.value.args[0].id in ann:
                        inner = self.value_of_annotation(k.module, ann[n.value.args[0].id], own, k)
                        return ListV(inner.elem if isinstance(inner, ListV) else Obj(None, own), own, 'attr', attr)
                    if isinstance(n.value, ast.Call) and isinstance(n.value.func, ast.Subscript) and norm(n.value.func.value) == 'list':
                        inner = self.value_of_annotation(k.module, n.value.func.slice, own, k)
                        return ListV(inner, own, 'attr', attr)
                    if isinstance(n.value, (ast.List, ast.ListComp, ast.Call, ast.Dict, ast.Set, ast.SetComp, ast.IfExp)):
                        return ListV(Unknown('element'), own, 'attr', attr)
                    return Unknown(f'attribute {attr}')
        if attr in TEXT_ATTRS or attr in ('_claimed', 'RULE', 'DEFAULT', 'INLINE', '_attr'):
            return Plain('derived')
        if attr == 'items':
            return ListV(Obj(None, own, False), own, 'attr', 'items')
        if attr in STR_METHODS:
            # a method of str / Decimal / date on a receiver whose union type also names model classes (`other: NumberExpr | Decimal`)
            return PrimV('plain.' + attr, Plain('derived'))
        return Unknown(f'attribute {attr}')

    def load_attr(self: Any, v: Any, attr: str, st: State, fr: Frame) -> list:
        if isinstance(v, InstV):
            tab = _inst_table(self)[v.iid]
            if attr in tab:
                return [(tab[attr], st)]
            c = self.cls_by_qual[v.cls]
            return self._class_attr_on_instance(c, attr, v, st, fr)
        if isinstance(v, Obj):
            if attr == '__dict__':
                return [(DictCacheV(v.own), st)]
            if attr == 'token_store':
                return [(StoreV(v.own, v.types is None), st)]     # children of a tree and trees themselves always have a store
            if attr in ('first_token', 'last_token'):
                return [(Obj(frozenset({self.base_token.qualname}), v.own, False), st)]
            if attr == 'tokens':
                return [(ListV(Obj(frozenset({self.base_token.qualname}), v.own, False), F, 'local'), st)]
            if attr == 'store_handle':
                return [(Unknown('store handle'), st)]
            if attr in MODEL_PRIMS:
                return [(PrimV('model.' + attr, v), st)]
            classes = self.classes_of(v.types)
            if not classes:
                if attr in ('value', 'raw_text', 'indent', 'key', 'claimed', 'RULE', 'size', 'filename', 'indent_by'):
                    return [(Plain('derived'), st)]
                if attr == 'items':
                    return [(ListV(Obj(None, v.own, False), v.own, 'attr', 'items'), st)]
                if attr in ('auto_claim_comments',):
                    return [(PrimV('unknown.' + attr, v), st)]
                if attr in STR_METHODS:
                    return [(PrimV('plain.' + attr, Plain('derived')), st)]
                return [(Obj(None, v.own, True), st)]
            out: list = []
            seen: set = set()
            for c in classes:
                sym = c.lookup(c.mangle(attr) if attr.startswith('__') and not attr.endswith('__') and fr.cls is c else attr)
                key = id(sym) if sym is not None else ('inst', attr)
                if key in seen:
                    continue
                seen.add(key)
                recv = v if len(classes) == 1 else dataclasses.replace(v, types=frozenset({c.qualname}))
                out.extend(self._class_attr_on_instance(c, attr, recv, st, fr, sym))
            return out
        if isinstance(v, StoreV):
            return [(PrimV('store.' + attr, v), st)]
        if isinstance(v, ListV):
            return [(PrimV('list.' + attr, v), st)]
        if isinstance(v, DictCacheV):
            return [(PrimV('cache.' + attr, v), st)]
        if isinstance(v, ClsV):
            c = self.cls_by_qual.get(v.qual)
            if c is None:
                return [(Unknown('class attr'), st)]
            if attr in CTOR_PRIMS and (self.is_model_class(c) or c is self.store_cls):
                own_sym = c.lookup(attr)
                # hand-written constructors that can refuse on plain values are interpreted, generated ones are primitives
                return [(PrimV('ctor.' + attr, v), st)]
            sym = c.lookup(attr)
            if isinstance(sym, FuncInfo):
                return [(self.func_value(sym, v if sym.kind == 'classmethod' else None), st)]
            if sym is None:
                return [(Unknown(f'class attribute {attr}'), st)]
            return [(self.symbol_value(sym, fr), st)]
        if isinstance(v, DescV):
            rec = self.descs[v.did]
            if attr in rec['attrs']:
                return [(rec['attrs'][attr], st)]
            sym = rec['kind'].lookup(attr)
            if isinstance(sym, FuncInfo):
                return [(self.func_value(sym, v), st)]
            if isinstance(sym, CustomProp) and sym.fget is not None:
                return self.call_function(sym.fget, [v], {}, st, fr)
            return [(Unknown(f'descriptor attribute {attr}'), st)]
        if isinstance(v, ModV):
            m = self.p.modules.get(v.name)
            if m is not None:
                if attr in m.symbols:
                    return [(self.symbol_value(m.symbols[attr], fr), st)]
                sub = self.p.modules.get(f'{v.name}.{attr}')
                if sub is not None:
                    return [(ModV(sub.name), st)]
            return [(Unknown('module attr'), st)]
        if isinstance(v, ExtV):
            return [(ExtV(f'{v.name}.{attr}'), st)]
        if isinstance(v, SuperV):
            c = self.cls_by_qual[v.cls]
            recv = v.self_
            mro = c.mro
            if isinstance(recv, Obj) and recv.types and len(recv.types) == 1:
                rc = self.classes_of(recv.types)[0]
                if c in rc.mro:
                    mro = rc.mro[rc.mro.index(c):]
            elif isinstance(recv, InstV):
                rc = self.cls_by_qual[recv.cls]
                if c in rc.mro:
                    mro = rc.mro[rc.mro.index(c):]
            elif isinstance(recv, DescV):
                rc = self.descs[recv.did]['kind']
                if c in rc.mro:
                    mro = rc.mro[rc.mro.index(c):]
            elif isinstance(recv, ClsV):
                rc = self.cls_by_qual[recv.qual]
                if c in rc.mro:
                    mro = rc.mro[rc.mro.index(c):]
            for k in mro[1:]:
                if attr in k.attrs:
                    sym = k.attrs[attr]
                    if isinstance(sym, FuncInfo):
                        return [(self.func_value(sym, recv), st)]
                    if isinstance(sym, CustomProp) and sym.fget is not None:
                        return self.call_function(sym.fget, [recv], {}, st, fr)
            if isinstance(recv, ClsV) and attr in CTOR_PRIMS:
                return [(PrimV('ctor.' + attr, recv), st)]
            if attr in MODEL_PRIMS and isinstance(recv, Obj):
                return [(PrimV('model.' + attr, recv), st)]
            return [(PrimV('ext.super.' + attr, recv), st)]     # collections.abc mixin / object method
        if isinstance(v, TupleV):
            return [(PrimV('tuple.' + attr, v), st)]
        if isinstance(v, (Plain, NoneV)):
            return [(PrimV('plain.' + attr, v), st)]
        if isinstance(v, (FuncV, ClosureV)):
            return [(Unknown('function attribute'), st)]
        if isinstance(v, Unknown):
            if v.why.startswith('external') or v.why.startswith('exception'):
                return [(ExtV(f'{v.why}.{attr}'), st)]
            if attr in MODEL_PRIMS:
                return [(PrimV('model.' + attr, Obj(None, B, False)), st)]
            if attr in ('handle', 'handle_splice'):
                return [(PrimV('noop.' + attr, None), st)]        # view index maintenance: decided by C10, never refuses
            if attr in STR_METHODS:
                return [(PrimV('plain.' + attr, Plain('derived')), st)]
        return [(Unknown(f'attribute {attr} of unknown'), st)]

    def _class_attr_on_instance(self: Any, c: ClassInfo, attr: str, recv: Any, st: State, fr: Frame, sym: Any = '<lookup>') -> list:
        if sym == '<lookup>':
            sym = c.lookup(attr)
        if isinstance(sym, (DescriptorDecl,)) or (isinstance(sym, CustomProp) and sym.flavour in ('custom_property', 'cached_custom_property')):
            d = self.desc_for_symbol(sym)
            return self.desc_get(d, recv, st, fr)
        if isinstance(sym, CustomProp):
            if sym.fget is None:
                return [(Unknown('write-only property'), st)]
            if _is_abstract(sym.fget):
                return [(Obj(None, _own(recv), True), st)]
            return self.call_function(sym.fget, [recv], {}, st, fr)
        if isinstance(sym, FuncInfo):
            if sym.kind == 'classmethod':
                return [(self.func_value(sym, ClsV(c.qualname)), st)]
            if sym.kind == 'staticmethod':
                return [(self.func_value(sym), st)]
            return [(self.func_value(sym, recv), st)]
        if isinstance(sym, Const):
            return [(self.symbol_value(sym, fr), st)]
        if isinstance(sym, ClassInfo):
            return [(ClsV(sym.qualname), st)]
        if sym is None and c.has_external_base('MutableSequence') and attr in ('remove', 'index', 'count', 'reverse', '__iadd__', '__contains__',
                                                                             '__iter__', '__reversed__', 'setdefault', 'update', 'popitem', 'get'):
            return [(PrimV('ext.abc.' + attr, recv), st)]
        return [(self.inst_attr(c, attr, recv), st)]

    def _field_get(self: Any, d: DescV, instance: Any, st: State) -> list:
        rec = self.descs[d.did]
        kn = rec['kind'].name
        own = _own(instance)
        if kn == 'data_field' or isinstance(instance, NoneV):
            return [(Plain('derived'), st)]
        if kn == 'repeated_field':
            rep = self.p.cls('Repeated', 'models.internal.repeated')
            return [(Obj(frozenset({rep.qualname}), own, False), st)]
        classes, _ = self.type_classes(rec['module'], rec['type_args'], rec['owner'])
        types = frozenset(c.qualname for c in classes) if classes else None
        return [(Obj(types, own, kn.startswith('optional')), st)]

    def desc_get(self: Any, d: DescV, instance: Any, st: State, fr: Frame) -> list:
        rec = self.descs[d.did]
        kind: ClassInfo = rec['kind']
        g = kind.lookup('_get')
        if self.data_field in kind.mro and isinstance(g, FuncInfo) and g.cls is self.data_field:
            return self._field_get(d, instance, st)
        getter = kind.lookup('__get__')
        if isinstance(getter, FuncInfo):
            return self.call_function(getter, [d, instance], {}, st, fr)
        return [(Unknown('descriptor without __get__'), st)]

    def desc_set(self: Any, d: DescV, instance: Any, value: Any, st: State, fr: Frame) -> list[State]:
        rec = self.descs[d.did]
        kind: ClassInfo = rec['kind']
        s = kind.lookup('__set__')
        if not isinstance(s, FuncInfo):
            raise AnalysisError(f'descriptor {rec["label"]} has no __set__')
        if s.cls is self.data_field:
            return [self.mut('tree', _own(instance), f'field {rec["label"]}', st, fr)]
        return [s2 for _, s2 in self.call_function(s, [d, instance, value], {}, st, fr)]


def _parse_may_raise(f: FuncInfo) -> bool:
    """can this _parse_value reject a string?  False only for bodies made of slicing / str methods / own helpers"""
    for n in ast.walk(f.node):
        if isinstance(n, ast.Call):
            fn = n.func
            if isinstance(fn, ast.Attribute) and (fn.attr in STR_METHODS or (isinstance(fn.value, ast.Name) and fn.value.id == 'cls')):
                continue
            return True
        if isinstance(n, ast.Subscript) and not isinstance(n.slice, ast.Slice):
            return True
        if isinstance(n, ast.Assign) and isinstance(n.targets[0], ast.Tuple):
            return True
    return False


def _is_abstract(f: FuncInfo) -> bool:
    body = [s for s in f.node.body if not (isinstance(s, ast.Expr) and isinstance(s.value, ast.Constant) and isinstance(s.value.value, str))]
    if len(body) == 1:
        s = body[0]
        if isinstance(s, ast.Expr) and isinstance(s.value, ast.Constant) and s.value.value is Ellipsis:
            return True
        if isinstance(s, ast.Pass):
            return True
        if isinstance(s, ast.Raise) and 'NotImplementedError' in norm(s):
            return True
    return False


class _ExprMixin:
    # ---------------------------------------------------------------- attribute / subscript stores
    def store_attr(self: Any, recv: Any, attr: str, value: Any, st: State, fr: Frame) -> list[State]:
        if isinstance(recv, InstV):
            c = self.cls_by_qual[recv.cls]
            sym = c.lookup(attr)
            if isinstance(sym, DescriptorDecl) or (isinstance(sym, CustomProp) and sym.fset is not None):
                return self._store_via_symbol(c, sym, recv, attr, value, st, fr)
            _inst_table(self)[recv.iid][attr] = value     # attribute of an object created by the analysed call
            return [st]
        if isinstance(recv, DescV):
            self.descs[recv.did]['attrs'][attr] = value
            return [st]
        if isinstance(recv, Obj):
            classes = self.classes_of(recv.types)
            if not classes:
                kind = 'claim' if attr in ('claimed', '_claimed') else 'text' if attr in ('value', 'raw_text', 'indent') or attr in TEXT_ATTRS \
                    else 'reattach' if attr == '_token_store' else 'tree'
                if kind == 'reattach':
                    return [st]
                return [self.mut(kind, recv.own, f'.{attr} = ...', st, fr)]
            out: list[State] = []
            seen: set = set()
            for c in classes:
                name = c.mangle(attr) if fr.cls is c else attr
                sym = c.lookup(name)
                key = id(sym) if sym is not None else ('plain', attr)
                if key in seen:
                    continue
                seen.add(key)
                r1 = recv if len(classes) == 1 else dataclasses.replace(recv, types=frozenset({c.qualname}))
                out.extend(self._store_via_symbol(c, sym, r1, attr, value, st, fr))
            return out
        if isinstance(recv, (Unknown, Plain, NoneV, ExtV, ModV, ClsV, StoreV, ListV)):
            return [st]
        return [st]

    def _store_via_symbol(self: Any, c: ClassInfo, sym: Any, recv: Any, attr: str, value: Any, st: State, fr: Frame) -> list[State]:
        if isinstance(sym, DescriptorDecl) or (isinstance(sym, CustomProp) and sym.flavour in ('custom_property', 'cached_custom_property')):
            d = self.desc_for_symbol(sym)
            return self.desc_set(d, recv, value, st, fr)
        if isinstance(sym, CustomProp):
            if sym.fset is None:
                raise AnalysisError(f'assignment to read-only property {c.name}.{attr} in {fr.fn_name}')
            return [s2 for _, s2 in self.call_function(sym.fset, [recv, value], {}, st, fr)]
        own = _own(recv)
        if attr == '_token_store':
            return [st]
        kind = 'claim' if attr == '_claimed' else 'text' if attr in TEXT_ATTRS else 'tree'
        return [self.mut(kind, own, f'{c.name}.{attr} = ...', st, fr)]

    def store_subscript(self: Any, recv: Any, value: Any, st: State, fr: Frame, detail: str) -> list[State]:
        if isinstance(recv, ListV) and recv.origin == 'attr':
            if recv.attr in ('_update_handlers',):
                return [st]
            return [self.mut('tree', recv.own, f'{recv.attr}[...] = ...', st, fr)]
        return [st]       # locals, caches (__dict__), unknown containers

    # ---------------------------------------------------------------- truthiness / refinement
    def truth(self: Any, v: Any, st: State, fr: Frame) -> Optional[bool]:
        if isinstance(v, NoneV):
            return False
        if isinstance(v, Plain) and v.known:
            return bool(v.const)
        if isinstance(v, (ClsV, FuncV, ClosureV, DescV, ModV, PrimV)):
            return True
        if isinstance(v, InstV):
            c = self.cls_by_qual[v.cls]
            for nm in ('__bool__', '__len__'):
                f = c.lookup(nm)
                if isinstance(f, FuncInfo):
                    res = self.call_function(f, [v], {}, st, fr)
                    ts = {self.truth(x, s, fr) for x, s in res}
                    if len(ts) == 1:
                        return ts.pop()
                    return None
            return True
        if isinstance(v, Obj):
            if v.nullable:
                return None
            classes = self.classes_of(v.types)
            if classes and all(self.is_model_class(c) and c.lookup('__len__') is None and c.lookup('__bool__') is None for c in classes):
                return True
            return None
        if isinstance(v, StoreV):
            return None if v.nullable else True       # the store of an attached node holds at least that node's tokens
        return None

    def branch(self: Any, test: ast.AST, st: State, fr: Frame) -> tuple[list[State], list[State]]:
        """(states where `test` is true, states where it is false), with short-circuit order and refinement"""
        if isinstance(test, ast.BoolOp):
            is_and = isinstance(test.op, ast.And)
            go = [st]
            done: list[State] = []
            for sub in test.values:
                nxt: list[State] = []
                for s in go:
                    t, f = self.branch(sub, s, fr)
                    if is_and:
                        nxt.extend(t)
                        done.extend(f)
                    else:
                        nxt.extend(f)
                        done.extend(t)
                go = nxt
            return (go, done) if is_and else (done, go)
        if isinstance(test, ast.UnaryOp) and isinstance(test.op, ast.Not):
            t, f = self.branch(test.operand, st, fr)
            return f, t
        ts: list[State] = []
        fs: list[State] = []
        for v, s in self.eval(test, st, fr):
            t = self.truth(v, s, fr)
            if t is None or t:
                a = self.refine(test, True, s, fr)
                if a is not None:
                    ts.append(a)
            if t is None or not t:
                b = self.refine(test, False, s, fr)
                if b is not None:
                    fs.append(b)
        return ts, fs

    def refine(self: Any, e: ast.AST, truth: bool, st: State, fr: Frame) -> Optional[State]:
        """state along the branch where `e` evaluates to `truth`; None if that branch is infeasible"""
        if isinstance(e, ast.UnaryOp) and isinstance(e.op, ast.Not):
            return self.refine(e.operand, not truth, st, fr)
        if isinstance(e, ast.NamedExpr):
            return self.refine(e.target, truth, st, fr)
        if isinstance(e, ast.Name) and e.id in st.env:
            v = st.env[e.id]
            t = self.truth(v, st, fr)
            if t is not None and t != truth:
                return None
            if isinstance(v, (Obj, StoreV)) and v.nullable:
                nv = dataclasses.replace(v, nullable=False) if truth else (NoneV() if isinstance(v, Obj) and self.truth(
                    dataclasses.replace(v, nullable=False), st, fr) is True else v)
                return st.with_env(e.id, nv)
            return st
        if isinstance(e, ast.Attribute) and _pure_chain(e):
            # remember the outcome of a test on a plain attribute chain until the next mutation (`if x.claimed: ... if x.claimed:`)
            key = '@' + norm(e)
            known = st.env.get(key)
            if isinstance(known, Plain) and known.known and bool(known.const) != truth:
                return None
            return st.with_env(key, Plain('derived', truth, True, 'bool'))
        if isinstance(e, ast.Compare) and len(e.ops) == 1:
            op = e.ops[0]
            l, r = e.left, e.comparators[0]
            if isinstance(op, (ast.Is, ast.IsNot)) and isinstance(r, ast.Constant) and r.value is None:
                is_none = truth if isinstance(op, ast.Is) else not truth
                target = l.target if isinstance(l, ast.NamedExpr) else l
                if isinstance(target, ast.Name) and target.id in st.env:
                    v = st.env[target.id]
                    if isinstance(v, NoneV):
                        return st if is_none else None
                    if isinstance(v, (Obj, StoreV)):
                        if is_none:
                            return st.with_env(target.id, NoneV()) if v.nullable else None
                        return st.with_env(target.id, dataclasses.replace(v, nullable=False))
                    if isinstance(v, (Plain, ListV, TupleV, ClsV, FuncV, ClosureV, DescV, InstV)):
                        return None if is_none else st
                    return st
            return st
        if isinstance(e, ast.Call) and isinstance(e.func, ast.Name) and e.func.id == 'isinstance' and len(e.args) == 2 \
                and isinstance(e.args[0], ast.Name) and e.args[0].id in st.env:
            v = st.env[e.args[0].id]
            tv = self._first(self.eval(e.args[1], st, fr))
            classes = self._classes_of_value(tv)
            names = _ext_type_names(e.args[1])
            if isinstance(v, Plain):
                if classes and not names:
                    return None if truth else st
                if v.ty and names and not classes:
                    hit = v.ty in names or (v.ty == 'bool' and 'int' in names)
                    return st if hit == truth else None
                return st
            if isinstance(v, NoneV):
                return None if truth else st
            if isinstance(v, Obj) and classes is not None:
                cur = self.classes_of(v.types)
                if truth:
                    if cur:
                        keep = [c for c in cur if any(k in c.mro for k in classes)]
                        sub = [k for k in classes if any(c in k.mro for c in cur)]
                        new = keep or sub
                        if not new:
                            return None
                        return st.with_env(e.args[0].id, Obj(frozenset(c.qualname for c in new), v.own, False))
                    return st.with_env(e.args[0].id, Obj(frozenset(c.qualname for c in classes), v.own, False))
                if cur:
                    keep = [c for c in cur if not any(k in c.mro for k in classes)]
                    if not keep and not v.nullable and not names:
                        return None
                    if keep:
                        return st.with_env(e.args[0].id, Obj(frozenset(c.qualname for c in keep), v.own, v.nullable))
                return st
            if isinstance(v, (ListV, TupleV)) and truth and classes and not names:
                return None
            if isinstance(v, Unknown) and truth and classes:
                return st.with_env(e.args[0].id, Obj(frozenset(c.qualname for c in classes), B, False))
            return st
        return st

    def _classes_of_value(self: Any, tv: Any) -> Optional[list[ClassInfo]]:
        if isinstance(tv, ClsV):
            c = self.cls_by_qual.get(tv.qual)
            return [c] if c else None
        if isinstance(tv, TupleV):
            out: list[ClassInfo] = []
            for x in tv.elems:
                cs = self._classes_of_value(x)
                if cs:
                    out.extend(cs)
            return out or None
        if isinstance(tv, ListV) and tv.elem is not None:
            return self._classes_of_value(tv.elem)
        return None

    # ---------------------------------------------------------------- expressions
    def eval(self: Any, e: Optional[ast.AST], st: State, fr: Frame) -> list:
        if e is None:
            return [(NoneV(), st)]
        m = getattr(self, '_e_' + type(e).__name__, None)
        if m is None:
            raise AnalysisError(f'E2: unsupported expression {type(e).__name__} in {fr.fn_name}: {norm(e)[:80]}')
        return m(e, st, fr)

    def eval_seq(self: Any, exprs: list, st: State, fr: Frame) -> list:
        """evaluate left to right; returns [(list of values, state)]"""
        acc = [([], st)]
        for e in exprs:
            new = []
            for vals, s in acc:
                if isinstance(e, ast.Starred):
                    for v, s2 in self.eval(e.value, s, fr):
                        new.append((vals + [('*', v)], s2))
                else:
                    for v, s2 in self.eval(e, s, fr):
                        new.append((vals + [v], s2))
            acc = new
        return acc

    def _e_Constant(self: Any, e: ast.Constant, st: State, fr: Frame) -> list:
        if e.value is None:
            return [(NoneV(), st)]
        if e.value is Ellipsis:
            return [(Unknown('ellipsis'), st)]
        return [(Plain('const', e.value if isinstance(e.value, (bool, str, int)) else None, isinstance(e.value, (bool, str, int)),
                       type(e.value).__name__ if isinstance(e.value, (bool, str, int)) else ''), st)]

    def _e_Name(self: Any, e: ast.Name, st: State, fr: Frame) -> list:
        return [(self.lookup_name(e.id, st, fr), st)]

    def _e_Attribute(self: Any, e: ast.Attribute, st: State, fr: Frame) -> list:
        fact = st.env.get('@' + norm(e)) if _pure_chain(e) else None
        if fact is not None:
            return [(fact, st)]
        out = []
        for v, s in self.eval(e.value, st, fr):
            if isinstance(v, Obj) and v.nullable:
                v = dataclasses.replace(v, nullable=False)     # attribute access on None would be a crash, not a refusal
            out.extend(self.load_attr(v, e.attr, s, fr))
        return out

    def _e_Subscript(self: Any, e: ast.Subscript, st: State, fr: Frame) -> list:
        out = []
        for v, s in self.eval(e.value, st, fr):
            if isinstance(v, (ClsV, ExtV)):
                out.append((v, s))        # generic alias: RepeatedValueWrapper[_SV, str], dict[str, str]
                continue
            for ix, s2 in self.eval(e.slice, s, fr):
                r = self._subscript(v, ix, e, s2, fr)
                if isinstance(v, ListV) and v.origin in ('attr', 'range') and isinstance(ix, Plain) and ix.src == 'param' \
                        and isinstance(e.slice, ast.Name):
                    s2 = s2.with_env(e.slice.id, Plain('checked', None, False, ix.ty))     # a second use of the same index cannot fail
                out.append((r, s2))
        return out

    def _subscript(self: Any, v: Any, ix: Any, e: ast.Subscript, st: State, fr: Frame) -> Any:
        if isinstance(v, DictCacheV):
            return Unknown('cache entry')
        if isinstance(v, ListV) and v.origin == 'range':
            if isinstance(ix, Plain) and ix.src == 'param':
                fr.raise_flags += 1          # range(n)[i] raises IndexError for a caller-supplied index
                return Plain('derived', None, False, 'int') if not isinstance(e.slice, ast.Slice) else ListV(Plain('derived', None, False, 'int'), F, 'range')
            return Plain('derived', None, False, 'int') if not isinstance(e.slice, ast.Slice) else ListV(Plain('derived', None, False, 'int'), F, 'range')
        if isinstance(v, ListV):
            if v.origin == 'attr' and isinstance(ix, Plain) and ix.src == 'param' and not isinstance(e.slice, ast.Slice):
                self.ref(f'index {norm(e.slice)} may be out of range', st, fr)
            if isinstance(e.slice, ast.Slice):
                return ListV(v.elem, F, 'local')
            if isinstance(ix, Plain) and ix.src == 'param' and v.elem is not None:
                # int | slice parameters: an element or a sub-list
                return v.elem
            return v.elem if v.elem is not None else Unknown('element')
        if isinstance(v, TupleV):
            if isinstance(ix, Plain) and ix.known and isinstance(ix.const, int) and -len(v.elems) <= ix.const < len(v.elems):
                return v.elems[ix.const]
            if isinstance(e.slice, ast.Slice):
                return ListV(join_values(list(v.elems)) if v.elems else None, F, 'local')
            return join_values(list(v.elems)) if v.elems else Unknown('tuple element')
        if isinstance(v, (Obj, InstV)):
            res = self.load_attr(v, '__getitem__', st, fr)
            vals = []
            for m, s2 in res:
                if isinstance(m, (FuncV, ClosureV, PrimV)):
                    vals.extend(x for x, _ in self.call_value(m, [ix], {}, s2, fr))
            if vals:
                return join_values(vals)
            return Obj(None, _own(v), False)
        if isinstance(v, Plain):
            return Plain('derived')
        return Unknown('subscript')

    def _e_Slice(self: Any, e: ast.Slice, st: State, fr: Frame) -> list:
        return [(Plain('derived'), st)]

    def _e_Tuple(self: Any, e: ast.Tuple, st: State, fr: Frame) -> list:
        out = []
        for vals, s in self.eval_seq(e.elts, st, fr):
            if any(isinstance(x, tuple) and x and x[0] == '*' for x in vals):
                flat = [self.elem_of(x[1], s, fr) if isinstance(x, tuple) and x[0] == '*' else x for x in vals]
                out.append((ListV(join_values(flat) if flat else None, F, 'local'), s))
            else:
                out.append((TupleV(tuple(vals)), s))
        return out

    def _e_List(self: Any, e: ast.List, st: State, fr: Frame) -> list:
        out = []
        for vals, s in self.eval_seq(e.elts, st, fr):
            flat = [self.elem_of(x[1], s, fr) if isinstance(x, tuple) and x and x[0] == '*' else x for x in vals]
            out.append((ListV(join_values(flat) if flat else None, F, 'local'), s))
        return out

    _e_Set = _e_List

    def _e_Dict(self: Any, e: ast.Dict, st: State, fr: Frame) -> list:
        acc = [st]
        for v in e.values:
            acc = [s2 for s in acc for _, s2 in self.eval(v, s, fr)]
        return [(Unknown('dict'), s) for s in acc]

    def _e_JoinedStr(self: Any, e: ast.JoinedStr, st: State, fr: Frame) -> list:
        acc = [st]
        for v in e.values:
            if isinstance(v, ast.FormattedValue):
                acc = [s2 for s in acc for _, s2 in self.eval(v.value, s, fr)]
        return [(Plain('derived'), s) for s in acc]

    def _e_FormattedValue(self: Any, e: ast.FormattedValue, st: State, fr: Frame) -> list:
        return [(Plain('derived'), s) for _, s in self.eval(e.value, st, fr)]

    def _e_BinOp(self: Any, e: ast.BinOp, st: State, fr: Frame) -> list:
        out = []
        for a, s in self.eval(e.left, st, fr):
            for b, s2 in self.eval(e.right, s, fr):
                out.extend(self._binop(e, a, b, s2, fr))
        return out

    def _binop(self: Any, e: ast.BinOp, a: Any, b: Any, st: State, fr: Frame) -> list:
        names = {ast.Add: 'add', ast.Sub: 'sub', ast.Mult: 'mul', ast.Div: 'truediv'}
        nm = names.get(type(e.op))
        if isinstance(a, ListV) and isinstance(b, ListV):
            return [(ListV(join_values([x for x in (a.elem, b.elem) if x is not None]) if (a.elem or b.elem) else None, F, 'local'), st)]
        if isinstance(a, TupleV) and isinstance(b, TupleV):
            return [(TupleV(a.elems + b.elems), st)]
        if isinstance(a, TupleV) or isinstance(b, TupleV):
            return [(ListV(join_values([self.elem_of(x, st, fr) for x in (a, b)]), F, 'local'), st)]
        if nm and isinstance(a, Obj) and self.classes_of(a.types):
            res = self.load_attr(a, f'__{nm}__', st, fr)
            out = []
            for m, s2 in res:
                if isinstance(m, (FuncV, ClosureV)):
                    out.extend(self.call_value(m, [b], {}, s2, fr))
            if out:
                return out
        if nm and isinstance(b, Obj) and self.classes_of(b.types):
            res = self.load_attr(b, f'__r{nm}__', st, fr)
            out = []
            for m, s2 in res:
                if isinstance(m, (FuncV, ClosureV)):
                    out.extend(self.call_value(m, [a], {}, s2, fr))
            if out:
                return out
        if isinstance(e.op, ast.BitOr):
            if isinstance(a, (ClsV, TupleV)) and isinstance(b, (ClsV, TupleV)):
                ea = a.elems if isinstance(a, TupleV) else (a,)
                eb = b.elems if isinstance(b, TupleV) else (b,)
                return [(TupleV(tuple(ea) + tuple(eb)), st)]       # Newline | Whitespace in isinstance
        src = 'param' if any(isinstance(x, Plain) and x.src == 'param' for x in (a, b)) else 'derived'
        ty = 'int' if all(isinstance(x, Plain) and x.ty == 'int' for x in (a, b)) and not isinstance(e.op, ast.Div) else ''
        return [(Plain(src, None, False, ty), st)]

    def _e_UnaryOp(self: Any, e: ast.UnaryOp, st: State, fr: Frame) -> list:
        out = []
        for v, s in self.eval(e.operand, st, fr):
            if isinstance(e.op, ast.Not):
                t = self.truth(v, s, fr)
                out.append((Plain('derived', (not t) if t is not None else None, t is not None), s))
            elif isinstance(v, Obj) and self.classes_of(v.types):
                nm = '__neg__' if isinstance(e.op, ast.USub) else '__pos__'
                got = []
                for m, s2 in self.load_attr(v, nm, s, fr):
                    if isinstance(m, (FuncV, ClosureV)):
                        got.extend(self.call_value(m, [], {}, s2, fr))
                out.extend(got or [(Unknown('unary'), s)])
            else:
                out.append((Plain(v.src if isinstance(v, Plain) else 'derived'), s))
        return out

    def _e_BoolOp(self: Any, e: ast.BoolOp, st: State, fr: Frame) -> list:
        results: list = []
        cur = [(None, st)]
        is_and = isinstance(e.op, ast.And)
        for i, sub in enumerate(e.values):
            nxt = []
            for _, s in cur:
                for v, s2 in self.eval(sub, s, fr):
                    if i == len(e.values) - 1:
                        results.append((v, s2))
                        continue
                    t = self.truth(v, s2, fr)
                    # short-circuit outcome
                    if t is None or t == (not is_and):
                        sc = self.refine(sub, not is_and, s2, fr)
                        if sc is not None:
                            results.append((v if not isinstance(v, Obj) or not v.nullable or not is_and else NoneV(), sc))
                    if t is None or t == is_and:
                        go = self.refine(sub, is_and, s2, fr)
                        if go is not None:
                            nxt.append((v, go))
            cur = nxt
        return results

    def _e_IfExp(self: Any, e: ast.IfExp, st: State, fr: Frame) -> list:
        out = []
        ts, fs = self.branch(e.test, st, fr)
        for a in ts:
            out.extend(self.eval(e.body, a, fr))
        for b in fs:
            out.extend(self.eval(e.orelse, b, fr))
        return out

    def _e_Compare(self: Any, e: ast.Compare, st: State, fr: Frame) -> list:
        out = []
        for vals, s in self.eval_seq([e.left, *e.comparators], st, fr):
            known = None
            if len(e.ops) == 1 and isinstance(e.ops[0], (ast.Is, ast.IsNot)) and isinstance(vals[1], NoneV):
                a = vals[0]
                if isinstance(a, NoneV):
                    known = isinstance(e.ops[0], ast.Is)
                elif isinstance(a, (Obj, StoreV)) and not a.nullable or isinstance(a, (Plain, ListV, TupleV, ClsV, FuncV, ClosureV, DescV, InstV)):
                    known = isinstance(e.ops[0], ast.IsNot)
            if len(e.ops) == 1 and isinstance(e.ops[0], (ast.In, ast.NotIn)) and isinstance(vals[1], DictCacheV):
                known = isinstance(e.ops[0], ast.NotIn)
            if len(e.ops) == 1 and isinstance(e.ops[0], (ast.Eq, ast.NotEq)) and all(isinstance(x, Plain) and x.known for x in vals):
                known = (vals[0].const == vals[1].const) == isinstance(e.ops[0], ast.Eq)
            out.append((Plain('derived', known, known is not None), s))
        return out

    def _e_NamedExpr(self: Any, e: ast.NamedExpr, st: State, fr: Frame) -> list:
        return [(v, s.with_env(e.target.id, v)) for v, s in self.eval(e.value, st, fr)]

    def _e_Lambda(self: Any, e: ast.Lambda, st: State, fr: Frame) -> list:
        self.closures.append((e, dict(st.env), fr.module, fr.cls, f'{fr.fn_name}.<lambda>'))
        return [(ClosureV(len(self.closures) - 1), st)]

    def _e_Starred(self: Any, e: ast.Starred, st: State, fr: Frame) -> list:
        return self.eval(e.value, st, fr)

    def _e_Yield(self: Any, e: ast.Yield, st: State, fr: Frame) -> list:
        out = []
        for v, s in (self.eval(e.value, st, fr) if e.value is not None else [(NoneV(), st)]):
            fr.yields.append(v)
            out.append((NoneV(), s))
        return out

    def _e_YieldFrom(self: Any, e: ast.YieldFrom, st: State, fr: Frame) -> list:
        out = []
        for v, s in self.eval(e.value, st, fr):
            fr.yields.append(self.elem_of(v, s, fr))
            out.append((NoneV(), s))
        return out

    def _comp(self: Any, e: Any, st: State, fr: Frame, elt: ast.AST) -> list:
        """comprehension / generator: evaluated eagerly for zero and one iteration"""
        gen = e.generators[0]
        out = []
        for it, s in self.eval(gen.iter, st, fr):
            ev = self.elem_of(it, s, fr)
            s1 = self.bind_target(gen.target, ev, s, fr)
            states = [s1]
            for cond in gen.ifs:
                nxt = []
                for sx in states:
                    nxt.extend(self.branch(cond, sx, fr)[0])
                states = nxt
            vals = []
            finals = [s]                      # zero iterations
            for sx in states:
                if len(e.generators) > 1:
                    inner = ast.GeneratorExp(elt=elt, generators=e.generators[1:])
                    for v, s2 in self._comp(inner, sx, fr, elt):
                        vals.append(self.elem_of(v, s2, fr))
                        finals.append(State(s.env, s2.fx))
                else:
                    for v, s2 in self.eval(elt, sx, fr):
                        vals.append(v)
                        finals.append(State(s.env, s2.fx))
            res = ListV(join_values(vals) if vals else None, F, 'local')
            for fs in dedupe(finals):
                out.append((res, fs))
        return out

    def _e_ListComp(self: Any, e: ast.ListComp, st: State, fr: Frame) -> list:
        return self._comp(e, st, fr, e.elt)

    _e_SetComp = _e_ListComp
    _e_GeneratorExp = _e_ListComp

    def _e_DictComp(self: Any, e: ast.DictComp, st: State, fr: Frame) -> list:
        return [(Unknown('dict'), s) for _, s in self._comp(e, st, fr, e.value)]

    def _e_Call(self: Any, e: ast.Call, st: State, fr: Frame) -> list:
        out = []
        # super() needs the lexical class
        if isinstance(e.func, ast.Name) and e.func.id == 'super' and not e.args:
            if fr.cls is None:
                raise AnalysisError(f'super() outside a class in {fr.fn_name}')
            recv = st.env.get('self', st.env.get('cls'))
            return [(SuperV(fr.cls.qualname, recv), st)]
        for fv, s in self.eval(e.func, st, fr):
            for vals, s2 in self.eval_seq(list(e.args), s, fr):
                args: list = []
                for x in vals:
                    if isinstance(x, tuple) and len(x) == 2 and x[0] == '*':
                        args.append(('*', x[1]))
                    else:
                        args.append(x)
                kw_acc = [({}, s2)]
                for k in e.keywords:
                    nxt = []
                    for kws, s3 in kw_acc:
                        for v, s4 in self.eval(k.value, s3, fr):
                            d = dict(kws)
                            d[k.arg or '**'] = v
                            nxt.append((d, s4))
                    kw_acc = nxt
                for kws, s3 in kw_acc:
                    out.extend(self.call_value(fv, args, kws, s3, fr, e))
        return out


def _pure_chain(e: ast.AST) -> bool:
    while isinstance(e, ast.Attribute):
        e = e.value
    return isinstance(e, ast.Name)


def _drop_facts(st: State) -> State:
    if any(k.startswith('@') for k in st.env):
        return State({k: v for k, v in st.env.items() if not k.startswith('@')}, st.fx)
    return st


def _ext_type_names(e: ast.AST) -> list[str]:
    """builtin / external type names inside an isinstance class expression"""
    out = []
    for n in ast.walk(e):
        if isinstance(n, ast.Name) and n.id in ('int', 'str', 'bool', 'slice', 'Iterable', 'Collection', 'list', 'tuple', 'float'):
            out.append(n.id)
        if isinstance(n, ast.Attribute) and n.attr in ('Decimal', 'date', 'Tree', 'Token'):
            out.append(n.attr)
    return out


def _prefix(fr: Frame, stack: Stack) -> Stack:
    return ((fr.fn_name, fr.stmt, fr.serial),) + tuple(stack)


class _CallMixin:
    def call_value(self: Any, fv: Any, args: list, kwargs: dict, st: State, fr: Frame, node: Optional[ast.AST] = None) -> list:
        # expand *args
        flat: list = []
        for a in args:
            if isinstance(a, tuple) and len(a) == 2 and a[0] == '*':
                v = a[1]
                if isinstance(v, TupleV):
                    flat.extend(v.elems)
                else:
                    flat.append(('*', self.elem_of(v, st, fr)))
            else:
                flat.append(a)
        args = flat
        if isinstance(fv, FuncV):
            f = self.funcs[fv.fid]
            deco = self._repo_decorator(f) if not fv.raw else None
            if deco is not None:
                inner = FuncV(fv.fid, None, True)
                key = ('deco', id(deco), fv.fid)
                cache = self.__dict__.setdefault('_deco_cache', {})
                if key not in cache:
                    res = self.call_function(deco, [inner], {}, State({}, None), Frame(f'<decorate {f.qualname}>', f.module, f.cls, Summary()),
                                             skip_deco=True)
                    cache[key] = self._first(res)
                wrapped = cache[key]
                if isinstance(wrapped, ClosureV):
                    return self.call_value(ClosureV(wrapped.cid, None), ([fv.self_] if fv.self_ is not None else []) + args, kwargs, st, fr, node)
            full = ([fv.self_] if fv.self_ is not None else []) + args
            return self.call_function(f, full, kwargs, st, fr)
        if isinstance(fv, ClosureV):
            return self.call_closure(fv, args, kwargs, st, fr)
        if isinstance(fv, PrimV):
            return self.call_prim(fv, args, kwargs, st, fr)
        if isinstance(fv, ClsV):
            return self.call_class(fv, args, kwargs, st, fr)
        if isinstance(fv, ExtV):
            return self.call_ext(fv, args, kwargs, st, fr)
        if isinstance(fv, (Unknown, Obj, InstV, Plain, NoneV)):
            if isinstance(fv, (Obj, InstV)):
                res = self.load_attr(fv, '__call__', st, fr)
                got = []
                for m, s2 in res:
                    if isinstance(m, (FuncV, ClosureV)):
                        got.extend(self.call_value(m, args, kwargs, s2, fr, node))
                if got:
                    return got
            self.stats['unresolved_calls'] += 1
            site = f'{fr.fn_name}: {norm(node)[:70] if node is not None else fr.stmt[:70]}'
            self.stats['unresolved_sites'][site] = getattr(fv, 'why', type(fv).__name__)
            return [(Unknown('result of unresolved call'), st)]
        if isinstance(fv, DescV):
            raise AnalysisError(f'descriptor object called in {fr.fn_name}')
        return [(Unknown('call'), st)]

    def _repo_decorator(self: Any, f: FuncInfo) -> Optional[FuncInfo]:
        for d in f.node.decorator_list:
            if isinstance(d, ast.Name) and d.id in f.module.symbols and isinstance(f.module.symbols[d.id], FuncInfo):
                return f.module.symbols[d.id]
        return None

    # ---------------------------------------------------------------- repository functions
    def bind_params(self: Any, node: Any, args: list, kwargs: dict, module: ModuleInfo, fr_name: str) -> dict:
        a = node.args
        params = [x.arg for x in [*a.posonlyargs, *a.args]]
        env: dict = {}
        star_fill = None
        pos = []
        for x in args:
            if isinstance(x, tuple) and len(x) == 2 and x[0] == '*':
                star_fill = x[1]
            else:
                pos.append(x)
        for i, nm in enumerate(params):
            if i < len(pos):
                env[nm] = pos[i]
        if a.vararg is not None:
            extra = pos[len(params):]
            env[a.vararg.arg] = ListV(join_values(extra + ([star_fill] if star_fill is not None else [])) if (extra or star_fill is not None) else None,
                                      F, 'local')
        for k, v in kwargs.items():
            if k != '**':
                env[k] = v
        defaults = dict(zip(params[len(params) - len(a.defaults):], a.defaults))
        for x, d in zip(a.kwonlyargs, a.kw_defaults):
            if d is not None:
                defaults[x.arg] = d
        for nm in params + [x.arg for x in a.kwonlyargs]:
            if nm not in env:
                if star_fill is not None and nm in params:
                    env[nm] = star_fill
                elif nm in defaults:
                    d = defaults[nm]
                    if isinstance(d, ast.Constant):
                        env[nm] = NoneV() if d.value is None else Plain('const', d.value if isinstance(d.value, (bool, str, int)) else None,
                                                                       isinstance(d.value, (bool, str, int)))
                    else:
                        f2 = Frame(f'<defaults {fr_name}>', module, None, Summary())
                        env[nm] = self._first(self.eval(d, State({}, None), f2))
                else:
                    env[nm] = Unknown(f'missing argument {nm}')
        if a.kwarg is not None:
            env[a.kwarg.arg] = Unknown('kwargs')
        for x in [*a.posonlyargs, *a.args, *a.kwonlyargs]:
            v = env.get(x.arg)
            if x.annotation is not None and isinstance(v, Obj) and v.types and len(v.types) > 1:
                classes, _ = self.type_classes(module, x.annotation)
                if classes:
                    keep = [c for c in self.classes_of(v.types) if any(k in c.mro for k in classes)]
                    if keep and len(keep) < len(v.types):
                        env[x.arg] = Obj(frozenset(c.qualname for c in keep), v.own, v.nullable)
        return env

    def call_function(self: Any, f: FuncInfo, args: list, kwargs: dict, st: State, fr: Frame, record: bool = True,
                      skip_deco: bool = False) -> list:
        self.stats['calls'] += 1
        if f.cls is self.data_field and args and isinstance(args[0], DescV):
            # the storage primitive of every field descriptor: typed child / tree-shape write
            if f.name == '_get' and len(args) >= 2:
                return self._field_get(args[0], args[1], st)
            if f.name == '__set__' and len(args) >= 3:
                rec = self.descs[args[0].did]
                return [(NoneV(), self.mut('tree', _own(args[1]), f'field {rec["label"]}', st, fr))]
        if f.name == '_parse_value' and f.cls is not None and self.base_token in f.cls.mro and _parse_may_raise(f):
            self.ref(f'{f.cls.name}._parse_value: raw text the token type cannot represent', st, fr)
        if f.cls is self.token_cls and f.name == '_update_raw_text' and args:
            return [(NoneV(), self.mut('text', _own(args[0]), 'token text', st, fr))]
        if f.cls is None and f.name == 'drop_cached_views' and _only_pops_instance_dict(f):
            # forgets memoised views (instance.__dict__.pop(..)): a cache write, no document effect; reflection (vars / __mro__) is not modelled
            return [(NoneV(), st)]
        dirty = st.fx is not None
        try:
            key = (id(f), tuple(args), tuple(sorted(kwargs.items())), dirty)
            hash(key)
        except TypeError:
            key = None
        summ = self.memo.get(key) if key is not None else None
        if summ is not None and summ.done:
            self.stats['memo_hits'] += 1
        else:
            if key is not None and key in self.active or self.depth > 60:
                self.stats['recursion_cuts'] += 1
                return [(Unknown('recursion'), st)]
            summ = Summary()
            if key is not None:
                self.active.add(key)
            self.depth += 1
            try:
                self._run_function(f, args, kwargs, dirty, summ)
            finally:
                self.depth -= 1
                if key is not None:
                    self.active.discard(key)
            summ.done = True
            if key is not None:
                self.memo[key] = summ
            for (m, r), why in summ.violations.items():
                self.all_violations.setdefault((m, r), why)
        return self._apply_summary(summ, st, fr)

    def _apply_summary(self: Any, summ: Summary, st: State, fr: Frame) -> list:
        # effects of the callee as seen from the caller's statement
        if summ.muts_any:
            fr.summary.muts_any = True
        for stack, info in summ.muts.items():
            if len(fr.summary.muts) < 400:
                fr.summary.muts.setdefault(_prefix(fr, stack), info)
        for stack, why in summ.refs.items():
            if len(fr.summary.refs) < 400:
                fr.summary.refs.setdefault(_prefix(fr, stack), why)
        if st.fx is not None:
            for r in summ.inh_refs:
                pr = _prefix(fr, r)
                if st.fx == INH:
                    if pr not in fr.summary.inh_refs and len(fr.summary.inh_refs) < 50:
                        fr.summary.inh_refs.append(pr)
                else:
                    fr.summary.violations.setdefault((st.fx, pr), summ.refs.get(r, 'refusal'))
        out = []
        seen = set()
        for v, fx in summ.outcomes:
            if fx is None or fx == INH:
                nfx = st.fx
            else:
                nfx = _prefix(fr, fx)
            k = (v, nfx)
            try:
                if k in seen:
                    continue
                seen.add(k)
            except TypeError:
                pass
            out.append((v, State(st.env, nfx) if not summ.muts_any else _drop_facts(State(st.env, nfx))))
        return out

    def _run_function(self: Any, f: FuncInfo, args: list, kwargs: dict, dirty: bool, summ: Summary) -> None:
        self.stats['functions_interpreted'].add(f'{f.module.name}:{f.qualname}')
        fr = Frame(f'{f.module.name.split(".", 1)[-1]}:{f.qualname}', f.module, f.cls, summ)
        env = self.bind_params(f.node, args, kwargs, f.module, fr.fn_name)
        st0 = State(env, INH if dirty else None)
        rets: list = []
        raised: list = []
        end = self.exec_block(f.node.body, [st0], fr, rets, raised)
        is_gen = any(isinstance(n, (ast.Yield, ast.YieldFrom)) for n in _walk_own(f.node))
        for s in end:
            rets.append((NoneV(), s))
        if is_gen:
            gv = ListV(join_values(fr.yields) if fr.yields else None, F, 'local')
            rets = [(gv, s) for _, s in rets]
        summ.outcomes = _dedupe_outcomes([(v, s.fx) for v, s in rets])
        summ.raised = [s.fx for s in raised]

    def call_closure(self: Any, cv: ClosureV, args: list, kwargs: dict, st: State, fr: Frame) -> list:
        node, cenv, module, cls, name = self.closures[cv.cid]
        summ = Summary()
        f2 = Frame(name, module, cls, summ)
        env = dict(cenv)
        env.update(self.bind_params(node, args, kwargs, module, name))
        st0 = State(env, INH if st.fx is not None else None)
        self.depth += 1
        try:
            if self.depth > 60:
                return [(Unknown('recursion'), st)]
            if isinstance(node, ast.Lambda):
                res = [(v, s.fx) for v, s in self.eval(node.body, st0, f2)]
            else:
                rets: list = []
                raised: list = []
                end = self.exec_block(node.body, [st0], f2, rets, raised)
                rets.extend((NoneV(), s) for s in end)
                if any(isinstance(n, (ast.Yield, ast.YieldFrom)) for n in _walk_own(node)):
                    gv = ListV(join_values(f2.yields) if f2.yields else None, F, 'local')
                    rets = [(gv, s) for _, s in rets]
                res = [(v, s.fx) for v, s in rets]
        finally:
            self.depth -= 1
        summ.outcomes = _dedupe_outcomes(res)
        summ.done = True
        for (m, r), why in summ.violations.items():
            self.all_violations.setdefault((m, r), why)
        return self._apply_summary(summ, st, fr)

    # ---------------------------------------------------------------- classes
    def call_class(self: Any, cv: ClsV, args: list, kwargs: dict, st: State, fr: Frame) -> list:
        c = self.cls_by_qual.get(cv.qual)
        if c is None:
            return [(Unknown('instance'), st)]
        if c is self.store_cls:
            return [(StoreV(F), st)]
        if self.is_model_class(c):
            own = F
            if args and isinstance(args[0], StoreV):
                own = args[0].own
            return [(Obj(frozenset({c.qualname}), own, False), st)]
        if c.module is self.store_cls.module or any(d.startswith('dataclasses.dataclass') for d in c.decorators):
            return [(Obj(frozenset({c.qualname}), F, False), st)]
        init = c.lookup('__init__')
        own = join_own(*[_own(a) for a in [*args, *kwargs.values()] if not isinstance(a, tuple)]) if (args or kwargs) else F
        tab = _inst_table(self)
        tab.append({})
        inst = InstV(c.qualname, len(tab) - 1, own)
        if isinstance(init, FuncInfo):
            res = self.call_function(init, [inst, *args], kwargs, st, fr)
            return [(inst, s) for _, s in res] or [(inst, st)]
        return [(inst, st)]

    # ---------------------------------------------------------------- primitives
    def call_prim(self: Any, pv: PrimV, args: list, kwargs: dict, st: State, fr: Frame) -> list:
        name, recv = pv.name, pv.recv
        args = [a[1] if isinstance(a, tuple) and len(a) == 2 and a[0] == '*' else a for a in args]
        kind, _, meth = name.partition('.')
        tok = Obj(frozenset({self.base_token.qualname}), _own(recv) if recv is not None else F, False)
        if kind == 'model':
            if meth == 'detach':
                if isinstance(recv, Obj) and recv.own == B:
                    self.ref('detach() of a node that may already live in another document', st, fr)
                return [(ListV(Obj(frozenset({self.base_token.qualname}), F, False), F, 'local'), st)]
            if meth in ('reattach', '_reattach'):
                return [(recv, st)]
            if meth in ('clone', '_clone', '__deepcopy__'):
                return [(dataclasses.replace(recv, own=F), st)]
            if meth == 'iter_children_formatted':
                return [(ListV(TupleV((Obj(None, _own(recv), False), Plain('derived'))), F, 'local'), st)]
        if kind == 'store':
            if meth in STORE_MUTATORS or meth == 'update':
                # the store's gate refuses tokens that already live in a store: caller-supplied Borrowed tokens that did not go
                # through detach() are a refusal point here (TS-GATE checks the gate itself)
                tok_arg = args[0] if meth in ('splice', '_splice') else args[1] if meth in ('insert_after', 'insert_before', 'replace') and len(args) > 1 else None
                for x in ([tok_arg.elem] if isinstance(tok_arg, ListV) else list(tok_arg.elems) if isinstance(tok_arg, TupleV) else [tok_arg]):
                    if isinstance(x, Obj) and x.own == B and x.src == 'param':
                        self.ref('a token that already lives in a store is refused by the store', st, fr)
                        break
                anchor = args[1] if meth in ('splice', '_splice') and len(args) > 1 else args[0] if meth in ('insert_after', 'insert_before', 'remove') and args else None
                if recv.own == B and anchor is not None and (isinstance(anchor, NoneV) or (isinstance(anchor, Obj) and anchor.nullable)):
                    self.null_anchors.setdefault((fr.fn_name, fr.stmt), meth)
                return [(NoneV(), self.mut('store', recv.own, f'token_store.{meth}', st, fr))]
            if meth in STORE_READS_TOKEN:
                return [(dataclasses.replace(tok, nullable=True), st)]
            if meth in ('iter', '__iter__'):
                return [(ListV(tok, F, 'local'), st)]
            return [(Plain('derived'), st)]
        if kind == 'list':
            if meth in LIST_MUTATORS:
                s2 = st
                if recv.origin == 'attr' and recv.attr not in ('_update_handlers',):
                    if meth in ('pop', 'insert') and args and isinstance(args[0], Plain) and args[0].src == 'param' and meth == 'pop':
                        self.ref('pop index may be out of range', st, fr)
                    s2 = self.mut('tree', recv.own, f'{recv.attr}.{meth}()', st, fr)
                if meth == 'pop':
                    return [(recv.elem if recv.elem is not None else Unknown('popped'), s2)]
                return [(NoneV(), s2)]
            if meth in ('index', 'count', '__len__'):
                return [(Plain('derived'), st)]
            if meth == 'copy':
                return [(ListV(recv.elem, F, 'local'), st)]
            return [(Unknown('list method'), st)]
        if kind == 'cache':
            if meth == 'get':
                return [(NoneV(), st)]
            return [(Unknown('cache'), st)]
        if kind == 'tuple' or kind == 'plain':
            if kind == 'plain' and meth in ('split', 'splitlines', 'partition'):
                return [(ListV(Plain('derived'), F, 'local'), st)]
            if kind == 'plain' and meth == 'items':
                return [(ListV(TupleV((Plain('derived'), Unknown('mapping value'))), F, 'local'), st)]
            return [(Plain('derived'), st)]
        if kind == 'unknown':
            return [(Unknown('method of untyped object'), st)]
        if kind == 'noop':
            return [(NoneV(), st)]
        if kind == 'ctor':
            c = self.cls_by_qual.get(recv.qual) if isinstance(recv, ClsV) else None
            if meth == 'from_tokens':
                return [(StoreV(F), st)]
            if c is None:
                return [(Obj(None, F, False), st)]
            own_sym = c.lookup(meth)
            if meth == 'from_raw_text':
                pv2 = c.lookup('_parse_value')
                if isinstance(pv2, FuncInfo) and not _is_abstract(pv2) and _parse_may_raise(pv2):
                    self.ref(f'{c.name}.from_raw_text: raw text the token type cannot represent', st, fr)
                return [(Obj(frozenset({c.qualname}), F, False), st)]
            if meth in ('from_children', 'from_parsed_children'):
                if meth == 'from_children':
                    for a in [*args, *kwargs.values()]:
                        for x in ([a] if not isinstance(a, ListV) else [a.elem]):
                            if isinstance(x, Obj) and x.own == B:
                                self.ref(f'{c.name}.from_children consumes a node that may already live in another document', st, fr)
                    # hand-written constructors with their own refusals are interpreted as well (their result is discarded)
                    if isinstance(own_sym, FuncInfo) and own_sym.cls is not None and 'generated' not in own_sym.module.name \
                            and any(isinstance(n, ast.Raise) for n in ast.walk(own_sym.node)):
                        self.call_function(own_sym, [recv, *args], kwargs, st, fr)
                return [(Obj(frozenset({c.qualname}), F, False), st)]
            if meth == 'from_value' and isinstance(own_sym, FuncInfo) and 'generated' not in own_sym.module.name \
                    and any(isinstance(n, ast.Raise) for n in ast.walk(own_sym.node)):
                res = self.call_function(own_sym, [recv, *args], kwargs, st, fr)
                return [(Obj(frozenset({c.qualname}), F, False), s) for _, s in res] or [(Obj(frozenset({c.qualname}), F, False), st)]
            return [(Obj(frozenset({c.qualname}), F, False), st)]
        if kind == 'ext':
            if meth.startswith('abc.') or meth.startswith('super.'):
                return self._abc_mixin(meth.split('.', 1)[1], recv, args, st, fr)
        return [(Unknown(f'primitive {name}'), st)]

    def _abc_mixin(self: Any, meth: str, recv: Any, args: list, st: State, fr: Frame) -> list:
        """collections.abc mixin methods expressed through the class's own primitives"""
        def call(nm: str, a: list, s: State) -> list:
            out = []
            for m, s2 in self.load_attr(recv, nm, s, fr):
                if isinstance(m, (FuncV, ClosureV, PrimV)):
                    out.extend(self.call_value(m, a, {}, s2, fr))
            return out
        if not isinstance(recv, (Obj, InstV)):
            return [(Unknown('mixin'), st)]
        if meth in ('__iter__', '__reversed__'):
            res = call('__getitem__', [Plain('derived')], st)
            return [(ListV(join_values([v for v, _ in res]) if res else None, F, 'local'), st)]
        if meth in ('__contains__', 'index', 'count'):
            return [(Plain('derived'), st)]
        if meth == 'remove':
            out = []
            for _, s in call('__delitem__', [Plain('derived')], st):
                out.append((NoneV(), s))
            return out or [(NoneV(), st)]
        if meth in ('__init__',):
            return [(NoneV(), st)]
        return [(Unknown(f'mixin {meth}'), st)]

    def call_ext(self: Any, ev: ExtV, args: list, kwargs: dict, st: State, fr: Frame) -> list:
        n = ev.name
        args = [a[1] if isinstance(a, tuple) and len(a) == 2 and a[0] == '*' else a for a in args]
        short = n.rsplit('.', 1)[-1]
        if n in ('copy.deepcopy', 'deepcopy', 'copy.copy'):
            return [(self._fresh(args[0]) if args else Unknown('copy'), st)]
        if short in SEQ_BUILTINS:
            if not args:
                return [(ListV(None, F, 'local'), st)]
            return [(ListV(self.elem_of(args[0], st, fr), F, 'local'), st)]
        if short == 'next':
            vals = [self.elem_of(args[0], st, fr)] if args else []
            if len(args) > 1:
                vals.append(args[1])
            v = join_values(vals) if vals else Unknown('next')
            return [(v, st)]
        if short == 'enumerate':
            return [(ListV(TupleV((Plain('derived', None, False, 'int'), self.elem_of(args[0], st, fr))), F, 'local'), st)]
        if short in ('zip', 'zip_longest'):
            return [(ListV(TupleV(tuple(self.elem_of(a, st, fr) for a in args)), F, 'local'), st)]
        if short == 'chain':
            el = [self.elem_of(a, st, fr) for a in args]
            return [(ListV(join_values(el) if el else None, F, 'local'), st)]
        if short in ('map', 'filter') and len(args) >= 2:
            el = self.elem_of(args[1], st, fr)
            if short == 'filter':
                return [(ListV(el, F, 'local'), st)]
            out = []
            for v, s in self.call_value(args[0], [el], {}, st, fr):
                out.append((ListV(v, F, 'local'), s))
            return out or [(ListV(None, F, 'local'), st)]
        if short == 'cast' and len(args) == 2:
            return [(args[1], st)]
        if short == 'type' and len(args) == 1:
            a = args[0]
            if isinstance(a, Obj) and a.types and len(a.types) == 1:
                return [(ClsV(next(iter(a.types))), st)]
            if isinstance(a, InstV):
                return [(ClsV(a.cls), st)]
            return [(Unknown('type()'), st)]
        if short == 'isinstance':
            return [(Plain('derived'), st)]
        if short == 'getattr' and len(args) >= 2 and isinstance(args[1], Plain) and args[1].known:
            return self.load_attr(args[0], str(args[1].const), st, fr)
        if short == 'range':
            return [(ListV(Plain('derived', None, False, 'int'), F, 'range'), st)]
        if short in PURE_BUILTINS or n.startswith(('re.', 'bisect.', 'itertools.', 'decimal.', 'datetime.', 'typing.', 'functools.',
                                                   'collections.', 'os.', 'glob.', 'io.', 'pathlib.', 'lark.', 'typing_extensions.',
                                                   'enum.', 'abc.', 'dataclasses.')) or short in ('get_args', 'dict', 'property', 'groupby',
                                                                                                 'count', 'compile', 'Decimal', 'date'):
            if short in ('str', 'int', 'len', 'bool', 'abs', 'min', 'max'):
                src = 'param' if any(isinstance(a, Plain) and a.src == 'param' for a in args) and short in ('int', 'min', 'max', 'abs') else 'derived'
                ty = {'str': 'str', 'int': 'int', 'len': 'int', 'bool': 'bool'}.get(short, 'int' if all(isinstance(a, Plain) and a.ty == 'int' for a in args) and args else '')
                return [(Plain(src, None, False, ty), st)]
            if short in ('groupby',):
                return [(ListV(TupleV((Plain('derived'), ListV(Plain('derived'), F, 'local'))), F, 'local'), st)]
            return [(Unknown(f'external {n}'), st)]
        if short in ('ValueError', 'KeyError', 'IndexError', 'TypeError', 'NotImplementedError', 'AssertionError', 'Exception',
                     'UnexpectedInput', 'UnexpectedToken', 'StopIteration'):
            return [(ExtV(short), st)]
        return [(Unknown(f'external {n}'), st)]

    def _fresh(self: Any, v: Any) -> Any:
        if isinstance(v, (Obj, StoreV)):
            return dataclasses.replace(v, own=F)
        if isinstance(v, ListV):
            return ListV(self._fresh(v.elem) if v.elem is not None else None, F, 'local')
        if isinstance(v, TupleV):
            return TupleV(tuple(self._fresh(x) for x in v.elems))
        return v


def _walk_own(node: ast.AST):  # type: ignore[no-untyped-def]
    todo = list(ast.iter_child_nodes(node))
    while todo:
        n = todo.pop()
        if isinstance(n, (ast.FunctionDef, ast.AsyncFunctionDef, ast.Lambda, ast.ClassDef)):
            continue
        yield n
        todo.extend(ast.iter_child_nodes(n))


def _dedupe_outcomes(res: list) -> list:
    out = []
    seen = set()
    for v, fx in res:
        try:
            k = (v, None if fx is None else INH if fx == INH else 'dirty')
            if k in seen:
                continue
            seen.add(k)
        except TypeError:
            pass
        out.append((v, fx))
    return out


class _StmtMixin:
    def bind_target(self: Any, t: ast.AST, v: Any, st: State, fr: Frame) -> State:
        if isinstance(t, ast.Name):
            return st.with_env(t.id, v)
        if isinstance(t, (ast.Tuple, ast.List)):
            s = st
            starred = [i for i, x in enumerate(t.elts) if isinstance(x, ast.Starred)]
            for i, x in enumerate(t.elts):
                if isinstance(x, ast.Starred):
                    s = self.bind_target(x.value, ListV(self.elem_of(v, s, fr), F, 'local'), s, fr)
                elif isinstance(v, TupleV) and not starred and i < len(v.elems):
                    s = self.bind_target(x, v.elems[i], s, fr)
                else:
                    s = self.bind_target(x, self.elem_of(v, s, fr), s, fr)
            return s
        return st

    def assign(self: Any, t: ast.AST, v: Any, st: State, fr: Frame) -> list[State]:
        if isinstance(t, (ast.Name, ast.Tuple, ast.List)):
            return [self.bind_target(t, v, st, fr)]
        if isinstance(t, ast.Attribute):
            out: list[State] = []
            for recv, s in self.eval(t.value, st, fr):
                if isinstance(recv, Obj) and recv.nullable:
                    recv = dataclasses.replace(recv, nullable=False)
                out.extend(self.store_attr(recv, t.attr, v, s, fr))
            return out
        if isinstance(t, ast.Subscript):
            out = []
            for recv, s in self.eval(t.value, st, fr):
                for ix, s2 in self.eval(t.slice, s, fr):
                    if isinstance(recv, (Obj, InstV)):
                        got = []
                        for m, s3 in self.load_attr(recv, '__setitem__', s2, fr):
                            if isinstance(m, (FuncV, ClosureV, PrimV)):
                                got.extend(s4 for _, s4 in self.call_value(m, [ix, v], {}, s3, fr))
                        out.extend(got or [s2])
                    else:
                        out.extend(self.store_subscript(recv, v, s2, fr, norm(t)))
            return out
        raise AnalysisError(f'E2: unsupported assignment target {norm(t)} in {fr.fn_name}')

    def exec_block(self: Any, stmts: list, states: list[State], fr: Frame, rets: list, raised: list,
                   loop: Optional[dict] = None) -> list[State]:
        cur = states
        for st_node in stmts:
            if not cur:
                break
            nxt: list[State] = []
            for s in cur:
                self.serial_counter = getattr(self, 'serial_counter', 0) + 1
                fr.serial = self.serial_counter
                fr.stmt = norm(st_node).split('\n')[0][:160] if not isinstance(st_node, (ast.If, ast.For, ast.While, ast.With, ast.Try, ast.Match)) \
                    else _head(st_node)
                nxt.extend(self.exec_stmt(st_node, s, fr, rets, raised, loop))
            cur = dedupe(nxt)
            if len(cur) > 3000:
                raise AnalysisError(f'E2: path explosion in {fr.fn_name} ({len(cur)} states)')
        return cur

    def exec_stmt(self: Any, n: ast.stmt, st: State, fr: Frame, rets: list, raised: list, loop: Optional[dict]) -> list[State]:
        if isinstance(n, ast.Expr):
            if isinstance(n.value, ast.Constant):
                return [st]
            return [s for _, s in self.eval(n.value, st, fr)]
        if isinstance(n, ast.Assign):
            out: list[State] = []
            for v, s in self.eval(n.value, st, fr):
                cur = [s]
                for t in n.targets:
                    cur = [s3 for s2 in cur for s3 in self.assign(t, v, s2, fr)]
                out.extend(cur)
            return out
        if isinstance(n, ast.AnnAssign):
            if n.value is None:
                return [st]
            out = []
            for v, s in self.eval(n.value, st, fr):
                out.extend(self.assign(n.target, v, s, fr))
            return out
        if isinstance(n, ast.AugAssign):
            out = []
            load = ast.copy_location(_load_of(n.target), n.target)
            for a, s in self.eval(load, st, fr):
                for b, s2 in self.eval(n.value, s, fr):
                    if isinstance(a, Obj) and self.classes_of(a.types):
                        nm = {ast.Add: '__iadd__', ast.Sub: '__isub__', ast.Mult: '__imul__', ast.Div: '__itruediv__'}.get(type(n.op))
                        done = False
                        if nm:
                            for m, s3 in self.load_attr(a, nm, s2, fr):
                                if isinstance(m, (FuncV, ClosureV)):
                                    for r, s4 in self.call_value(m, [b], {}, s3, fr):
                                        out.extend(self.assign(n.target, r, s4, fr))
                                        done = True
                        if done:
                            continue
                    if isinstance(a, ListV):
                        r: Any = ListV(join_values([x for x in (a.elem, self.elem_of(b, s2, fr)) if x is not None]), a.own, a.origin, a.attr)
                        if a.origin == 'attr':
                            s2 = self.mut('tree', a.own, f'{a.attr} += ...', s2, fr)
                    else:
                        r = Plain('param' if any(isinstance(x, Plain) and x.src == 'param' for x in (a, b)) else 'derived')
                    out.extend(self.assign(n.target, r, s2, fr))
            return out
        if isinstance(n, ast.Return):
            for v, s in (self.eval(n.value, st, fr) if n.value is not None else [(NoneV(), st)]):
                rets.append((v, s))
            return []
        if isinstance(n, ast.Raise):
            exc_name = ''
            states = [st]
            if n.exc is not None:
                e = n.exc
                exc_name = norm(e.func if isinstance(e, ast.Call) else e).rsplit('.', 1)[-1]
                states = [s for _, s in self.eval(n.exc, st, fr)]
            for s in states:
                if exc_name in REFUSAL_EXC or (n.exc is None):
                    self.ref(f'raise {exc_name or "(re-raise)"}', s, fr)
                raised.append(s)
            return []
        if isinstance(n, ast.Assert):
            return self.branch(n.test, st, fr)[0]
        if isinstance(n, ast.If):
            ts, fs = self.branch(n.test, st, fr)
            out = self.exec_block(n.body, dedupe(ts), fr, rets, raised, loop) if ts else []
            if fs:
                out.extend(self.exec_block(n.orelse, dedupe(fs), fr, rets, raised, loop) if n.orelse else fs)
            return out
        if isinstance(n, (ast.For, ast.While)):
            return self.exec_loop(n, st, fr, rets, raised)
        if isinstance(n, ast.Try):
            inner_raised: list = []
            flags0 = fr.raise_flags
            body_out = self.exec_block(n.body, [st], fr, rets, inner_raised, loop)
            out = list(body_out)
            if n.orelse:
                out = self.exec_block(n.orelse, out, fr, rets, raised, loop)
            entry = dedupe([st] + inner_raised + body_out)
            may_raise = fr.raise_flags > flags0 or bool(inner_raised) or any(
                isinstance(x, ast.Call) and not (isinstance(x.func, ast.Name) and x.func.id in ('range', 'len'))
                for b in n.body for x in ast.walk(b))
            if n.handlers and may_raise:
                for h in n.handlers:
                    hs = [s.with_env(h.name, Unknown('exception')) if h.name else s for s in entry]
                    out.extend(self.exec_block(h.body, hs, fr, rets, raised, loop))
            else:
                raised.extend(inner_raised)
            if n.finalbody:
                out = self.exec_block(n.finalbody, dedupe(out), fr, rets, raised, loop)
            return out
        if isinstance(n, ast.With):
            cur = [st]
            for item in n.items:
                nxt = []
                for s in cur:
                    for v, s2 in self.eval(item.context_expr, s, fr):
                        nxt.append(self.bind_target(item.optional_vars, Unknown('context'), s2, fr) if item.optional_vars is not None else s2)
                cur = nxt
            return self.exec_block(n.body, cur, fr, rets, raised, loop)
        if isinstance(n, ast.Match):
            return self.exec_match(n, st, fr, rets, raised, loop)
        if isinstance(n, ast.Delete):
            cur = [st]
            for t in n.targets:
                nxt = []
                for s in cur:
                    if isinstance(t, ast.Subscript):
                        for recv, s2 in self.eval(t.value, s, fr):
                            nxt.extend(self.store_subscript(recv, NoneV(), s2, fr, norm(t)))
                    elif isinstance(t, ast.Name):
                        e = dict(s.env)
                        e.pop(t.id, None)
                        nxt.append(State(e, s.fx))
                    else:
                        nxt.append(s)
                cur = nxt
            return cur
        if isinstance(n, (ast.FunctionDef, ast.AsyncFunctionDef)):
            self.closures.append((n, dict(st.env), fr.module, fr.cls, f'{fr.fn_name}.<locals>.{n.name}'))
            return [st.with_env(n.name, ClosureV(len(self.closures) - 1))]
        if isinstance(n, ast.Break):
            if loop is not None:
                loop['break'].append(st)
            return []
        if isinstance(n, ast.Continue):
            if loop is not None:
                loop['continue'].append(st)
            return []
        if isinstance(n, (ast.Pass, ast.Import, ast.ImportFrom, ast.Global, ast.Nonlocal)):
            return [st]
        if isinstance(n, ast.ClassDef):
            return [st.with_env(n.name, Unknown('local class'))]
        raise AnalysisError(f'E2: unsupported statement {type(n).__name__} in {fr.fn_name}')

    def exec_loop(self: Any, n: Any, st: State, fr: Frame, rets: list, raised: list) -> list[State]:
        exits: list[State] = []
        if isinstance(n, ast.For):
            starts = []
            for it, s in self.eval(n.iter, st, fr):
                starts.append((self.elem_of(it, s, fr), s))
        else:
            starts = [(None, st)]
        for ev, s0 in starts:
            frontier = [s0]
            seen: set = set()
            for _ in range(3):                  # zero, one, two iterations reach the fixpoint of the small effect lattice
                frontier = [s for s in dedupe(frontier) if _skey(s) not in seen]
                if not frontier:
                    break
                seen |= {_skey(s) for s in frontier}
                body_in: list[State] = []
                for s in frontier:
                    if isinstance(n, ast.For):
                        exits.append(s)
                        body_in.append(self.bind_target(n.target, ev, s, fr))
                    else:
                        ts, fs = self.branch(n.test, s, fr)
                        exits.extend(fs)
                        body_in.extend(ts)
                lp = {'break': [], 'continue': []}
                after = self.exec_block(n.body, body_in, fr, rets, raised, lp)
                exits.extend(lp['break'])
                frontier = after + lp['continue']
            exits.extend(frontier)              # states after the last unrolled iteration also leave the loop
        out = dedupe(exits)
        if n.orelse:
            out = self.exec_block(n.orelse, out, fr, rets, raised, None)
        return out

    # ---------------------------------------------------------------- match statements
    def exec_match(self: Any, n: ast.Match, st: State, fr: Frame, rets: list, raised: list, loop: Optional[dict]) -> list[State]:
        out: list[State] = []
        for subj, s in self.eval(n.subject, st, fr):
            remaining = True
            for case in n.cases:
                matches = self.match_pattern(case.pattern, subj, s, fr)
                for ms, definite in matches:
                    states = [ms]
                    if case.guard is not None:
                        states = []
                        for v, s2 in self.eval(case.guard, ms, fr):
                            if self.truth(v, s2, fr) is not False:
                                states.append(s2)
                    out.extend(self.exec_block(case.body, states, fr, rets, raised, loop))
                if any(d for _, d in matches) and case.guard is None and _irrefutable(case.pattern):
                    remaining = False
                    break
            if remaining:
                out.append(s)      # no case matched
        return out

    def match_pattern(self: Any, p: ast.AST, v: Any, st: State, fr: Frame) -> list:
        """[(state with bindings, definite)] -- empty list when the pattern cannot match"""
        if isinstance(p, ast.MatchAs):
            if p.pattern is None:
                return [(st.with_env(p.name, v) if p.name else st, True)]
            out = []
            for s, d in self.match_pattern(p.pattern, v, st, fr):
                nv = self._narrow_to_pattern(p.pattern, v, st, fr)
                out.append((s.with_env(p.name, nv) if p.name else s, d))
            return out
        if isinstance(p, ast.MatchSingleton):
            if p.value is None:
                if isinstance(v, NoneV):
                    return [(st, True)]
                if isinstance(v, (Obj, StoreV)) and v.nullable or isinstance(v, Unknown):
                    return [(st, False)]
                return []
            return [(st, False)]
        if isinstance(p, ast.MatchValue):
            return [(st, False)]
        if isinstance(p, ast.MatchClass):
            tv = self._first(self.eval(p.cls, st, fr))
            classes = self._classes_of_value(tv)
            if isinstance(v, NoneV):
                return []
            if isinstance(v, Obj):
                cur = self.classes_of(v.types)
                if classes and cur:
                    if not any(k in c.mro for c in cur for k in classes) and not any(c in k.mro for c in cur for k in classes):
                        return []
                    return [(st, all(any(k in c.mro for k in classes) for c in cur) and not v.nullable)]
                if classes is None and cur:
                    return []          # a model object never matches str() / decimal.Decimal() ...
                return [(st, False)]
            if isinstance(v, Plain):
                return [] if classes else [(st, False)]
            if isinstance(v, (ListV, TupleV)):
                return [] if classes else [(st, False)]
            return [(st, False)]
        if isinstance(p, ast.MatchSequence):
            if isinstance(v, TupleV) and len(v.elems) == len(p.patterns):
                acc = [(st, True)]
                for sub, ev in zip(p.patterns, v.elems):
                    nxt = []
                    for s, d in acc:
                        for s2, d2 in self.match_pattern(sub, ev, s, fr):
                            nxt.append((s2, d and d2))
                    acc = nxt
                return acc
            return [(st, False)]
        if isinstance(p, ast.MatchOr):
            out = []
            for sub in p.patterns:
                out.extend(self.match_pattern(sub, v, st, fr))
            return out
        raise AnalysisError(f'E2: unsupported match pattern {type(p).__name__} in {fr.fn_name}')

    def _narrow_to_pattern(self: Any, p: ast.AST, v: Any, st: Optional[State] = None, fr: Optional[Frame] = None) -> Any:
        if isinstance(p, ast.MatchClass) and isinstance(v, Obj):
            classes = None
            if st is not None and fr is not None:
                classes = self._classes_of_value(self._first(self.eval(p.cls, st, fr)))
            cur = self.classes_of(v.types)
            if classes and cur:
                keep = [c for c in cur if any(k in c.mro for k in classes)]
                if keep:
                    return Obj(frozenset(c.qualname for c in keep), v.own, False)
            if classes and not cur:
                return Obj(frozenset(c.qualname for c in classes), v.own, False)
            return dataclasses.replace(v, nullable=False)
        return v


def _irrefutable(p: ast.AST) -> bool:
    return isinstance(p, ast.MatchAs) and p.pattern is None


def _skey(s: State) -> Any:
    try:
        return s.key()
    except TypeError:
        return id(s)


def _head(n: ast.AST) -> str:
    if isinstance(n, ast.If):
        return f'if {norm(n.test)[:120]}:'
    if isinstance(n, ast.For):
        return f'for {norm(n.target)} in {norm(n.iter)[:100]}:'
    if isinstance(n, ast.While):
        return f'while {norm(n.test)[:120]}:'
    if isinstance(n, ast.Match):
        return f'match {norm(n.subject)[:120]}:'
    if isinstance(n, ast.With):
        return 'with ...:'
    return type(n).__name__


def _load_of(t: ast.AST) -> ast.AST:
    if isinstance(t, ast.Name):
        return ast.Name(id=t.id, ctx=ast.Load())
    if isinstance(t, ast.Attribute):
        return ast.Attribute(value=t.value, attr=t.attr, ctx=ast.Load())
    if isinstance(t, ast.Subscript):
        return ast.Subscript(value=t.value, slice=t.slice, ctx=ast.Load())
    return t


def _only_pops_instance_dict(f: FuncInfo) -> bool:
    """the body of the helper contains no call other than <instance>.__dict__.pop(..), vars(..), type(..), isinstance(..), .values()/.items()"""
    for x in ast.walk(f.node):
        if isinstance(x, ast.Call):
            t = norm(x.func)
            if not (t in ('vars', 'type', 'isinstance') or t.endswith('.__dict__.pop') or t.endswith('.values') or t.endswith('.items')):
                return False
        if isinstance(x, (ast.Assign, ast.AugAssign, ast.Delete)):
            return False
    return True


class EffectInterp(Interp, _EvalMixin, _ExprMixin, _CallMixin, _StmtMixin):
    def __init__(self, p: Program) -> None:
        super().__init__(p)
        self.all_violations: dict = {}
        self.null_anchors: dict = {}
        self.insts: list = []

    # ---------------------------------------------------------------- entry points
    def run_entry(self, label: str, callee: Any, args: list, kwargs: Optional[dict] = None) -> Summary:
        """run `callee(*args)` from a clean state; the returned summary has stacks relative to a root frame"""
        root = Summary()
        fr = Frame(f'<entry {label}>', self.p.module('models.base'), None, root)
        fr.stmt = label
        res = self.call_value(callee, args, kwargs or {}, State({}, None), fr)
        root.outcomes = [(v, s.fx) for v, s in res]
        for (m, r), why in root.violations.items():
            self.all_violations.setdefault((m, r), why)
        return root

    def run_store(self, label: str, recv: Any, attr: str, value: Any) -> Summary:
        root = Summary()
        fr = Frame(f'<entry {label}>', self.p.module('models.base'), None, root)
        fr.stmt = label
        res = self.store_attr(recv, attr, value, State({}, None), fr)
        root.outcomes = [(NoneV(), s.fx) for s in res]
        return root

    def run_load(self, label: str, recv: Any, attr: str) -> tuple[Summary, list]:
        root = Summary()
        fr = Frame(f'<entry {label}>', self.p.module('models.base'), None, root)
        fr.stmt = label
        res = self.load_attr(recv, attr, State({}, None), fr)
        root.outcomes = [(v, s.fx) for v, s in res]
        return root, [v for v, _ in res]


def join_point(mut: Stack, refs: Stack) -> tuple[str, str, str]:
    """(function, mutation statement, refusal statement) at the frame where the two stacks diverge"""
    k = 0
    while k < len(mut) - 1 and k < len(refs) - 1 and mut[k] == refs[k]:     # same function, statement *and* execution instance
        k += 1
    # frames k: same function (by construction both are inside the same invocation chain)
    return mut[k][0], mut[k][1], refs[k][1]
