"""Abstract values of the effect / ownership interpreter (E2)."""
from __future__ import annotations

import dataclasses
from typing import Optional, Union

F, B = 'F', 'B'      # Fresh (created inside the analysed call) / Borrowed (reachable from a parameter)


def join_own(*owns: str) -> str:
    return B if B in owns else F


@dataclasses.dataclass(frozen=True)
class Unknown:
    why: str = ''


@dataclasses.dataclass(frozen=True)
class NoneV:
    pass


@dataclasses.dataclass(frozen=True)
class Plain:
    """str / int / bool / Decimal / date ...; src tells whether it derives from an entry parameter"""
    src: str = 'const'          # const | param | derived | checked
    const: object = None        # python constant when known (bool/str/int), else None
    known: bool = False
    ty: str = ''                # 'int' | 'str' | 'bool' | '' (unknown python type)


@dataclasses.dataclass(frozen=True)
class Obj:
    """instance of repository class(es); types=None means unknown class"""
    types: Optional[frozenset[str]]
    own: str
    nullable: bool = False
    src: str = ''              # 'param': handed in by the caller of the analysed entry point


@dataclasses.dataclass(frozen=True)
class StoreV:
    own: str
    nullable: bool = False


@dataclasses.dataclass(frozen=True)
class ListV:
    elem: object               # Value or None
    own: str                   # ownership of the list object itself
    origin: str = 'local'      # local | attr (an attribute of a model / wrapper: mutation changes that object)
    attr: str = ''


@dataclasses.dataclass(frozen=True)
class TupleV:
    elems: tuple


@dataclasses.dataclass(frozen=True)
class ClsV:
    qual: str


@dataclasses.dataclass(frozen=True)
class FuncV:
    fid: int
    self_: object = None       # bound receiver (Value) or None
    raw: bool = False          # the undecorated function (what a decorator receives)


@dataclasses.dataclass(frozen=True)
class ClosureV:
    cid: int                   # index into the interpreter's closure table (lambda / nested def + captured env)
    self_: object = None


@dataclasses.dataclass(frozen=True)
class DescV:
    did: int                   # index into the descriptor-object table


@dataclasses.dataclass(frozen=True)
class CallableField:
    """a callable stored in an instance attribute whose targets are the values passed at construction sites"""
    cls: str
    attr: str
    own: str = B


@dataclasses.dataclass(frozen=True)
class ExtV:
    name: str


@dataclasses.dataclass(frozen=True)
class ModV:
    name: str


@dataclasses.dataclass(frozen=True)
class SuperV:
    cls: str                   # class in which super() was evaluated
    self_: object = None


Value = Union[Unknown, NoneV, Plain, Obj, StoreV, ListV, TupleV, ClsV, FuncV, ClosureV, DescV, CallableField, ExtV, ModV, SuperV]


def own_of(v: object) -> str:
    if isinstance(v, (Obj, StoreV, ListV, CallableField)):
        return v.own
    if isinstance(v, TupleV):
        return join_own(*[own_of(e) for e in v.elems]) if v.elems else F
    if isinstance(v, (FuncV, ClosureV)) and v.self_ is not None:
        return own_of(v.self_)
    return F


def join_values(vals: list) -> object:
    vals = [v for i, v in enumerate(vals) if v not in vals[:i]]
    if not vals:
        return Unknown('empty')
    if len(vals) == 1:
        return vals[0]
    nullable = any(isinstance(v, NoneV) or getattr(v, 'nullable', False) for v in vals)
    rest = [v for v in vals if not isinstance(v, NoneV)]
    if all(isinstance(v, Obj) for v in rest) and rest:
        types: Optional[frozenset[str]] = frozenset()
        for v in rest:
            if v.types is None or types is None:
                types = None
            else:
                types = types | v.types
        srcs = {v.src for v in rest}
        return Obj(types, join_own(*[v.own for v in rest]), nullable, srcs.pop() if len(srcs) == 1 else '')
    if all(isinstance(v, StoreV) for v in rest) and rest:
        return StoreV(join_own(*[v.own for v in rest]), nullable)
    if all(isinstance(v, ListV) for v in rest) and rest:
        return ListV(join_values([v.elem for v in rest if v.elem is not None]) if any(v.elem is not None for v in rest) else None,
                     join_own(*[v.own for v in rest]), rest[0].origin, rest[0].attr)
    if all(isinstance(v, Plain) for v in rest) and rest:
        tys = {v.ty for v in rest}
        return Plain('param' if any(v.src == 'param' for v in rest) else 'derived', None, False, tys.pop() if len(tys) == 1 else '')
    if len(rest) == 1:
        return rest[0]
    # heterogeneous: keep ownership information conservatively
    return Obj(None, join_own(*[own_of(v) for v in rest]), nullable)
