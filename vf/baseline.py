"""Reference spellings: a function whose normal form (vf/nf.py) equals that of its reference version is analysed in the reference spelling.

/verif/baseline/functions.json holds, for every function of the tree on which the instance tables of the rules were confirmed
(SEIAROTg/autobean-refactor at the commit recorded there, i.e. the pinned commit plus the `fix:` commits), its normal-form digest,
the dump of its decorators and its source text.  When the current tree is loaded, every function is normalised; if it is spelled
differently from the reference but has the same normal form -- it was rewritten by steps that cannot change behaviour -- the
reference definition is substituted for it (line numbers shifted to where the function now stands) before any rule runs.  A function
with a different normal form, a new function, or one whose decorators changed is analysed exactly as written.  Substitutions are
listed in the evidence file.  VERIF_NO_BASELINE=1 switches the mechanism off.

Soundness rests on vf/nf.py only applying behaviour-preserving steps; it can hide nothing that the reference function does not
contain, and the reference function is analysed by every rule on every run.
"""
from __future__ import annotations

import ast
import json
import os
from typing import Any, Optional

from . import nf

PATH = os.path.join(os.path.dirname(os.path.dirname(os.path.abspath(__file__))), 'baseline', 'functions.json')
_cache: Optional[dict] = None


def load() -> dict:
    global _cache
    if _cache is None:
        try:
            _cache = json.load(open(PATH))
        except FileNotFoundError:
            _cache = {'files': {}}
    return _cache


def functions(tree: ast.Module) -> dict[str, tuple[ast.FunctionDef, list, int, Optional[ast.ClassDef]]]:
    """qualname -> (node, containing body list, index, class); duplicates (getter / setter pairs) get #2, #3 ..."""
    out: dict[str, tuple[ast.FunctionDef, list, int, Optional[ast.ClassDef]]] = {}

    def walk(body: list, prefix: str, cls: Optional[ast.ClassDef]) -> None:
        for i, s in enumerate(body):
            if isinstance(s, ast.ClassDef):
                walk(s.body, prefix + s.name + '.', s)
            elif isinstance(s, ast.FunctionDef):
                key = prefix + s.name
                k, n = key, 1
                while k in out:
                    n += 1
                    k = f'{key}#{n}'
                out[k] = (s, body, i, cls)
    walk(tree.body, '', None)
    return out


def _deco(fn: ast.FunctionDef) -> str:
    return ast.dump(ast.Module(body=[ast.Expr(value=d) for d in fn.decorator_list], type_ignores=[]))


def _plain(fn: ast.FunctionDef) -> str:
    return ast.dump(fn, include_attributes=False)


def restore(rel: str, tree: ast.Module, log: list[str]) -> ast.Module:
    if os.environ.get('VERIF_NO_BASELINE') == '1':
        return tree
    base = load()['files'].get(rel)
    if not base:
        return tree
    funcs = functions(tree)
    restored: list[str] = []
    plan: list[tuple[str, ast.FunctionDef, str]] = []
    tables: dict[int, dict] = {}
    # phase 1: decide on the tree as written (helper tables must not see half-restored functions)
    for qual, (node, body, idx, cls) in funcs.items():
        ref = base.get(qual)
        if ref is None:
            continue
        try:
            ref_node = ast.parse(ref['src']).body[0]
        except SyntaxError:
            continue
        if not isinstance(ref_node, ast.FunctionDef) or _plain(ref_node) == _plain(node):
            continue
        if _deco(ref_node) != _deco(node):
            continue
        how = ''
        try:
            if nf.digest(node) == ref['nf']:
                how = 'same normal form'
            else:
                key = id(cls)
                if key not in tables:
                    tables[key] = nf.helper_table(tree, cls)
                if nf.digest_inlined(node, tables[key]) == ref.get('nf_inl', ref['nf']):
                    how = 'same normal form once private helpers are inlined'
        except Exception:       # the normaliser does not know a construct: analyse the function as written
            how = ''
        if how:
            plan.append((qual, ref_node, how))
    # phase 2: substitute
    for qual, ref_node, how in plan:
        node, body, idx, cls = funcs[qual]
        first = min([node.lineno] + [d.lineno for d in node.decorator_list])
        ref_first = min([ref_node.lineno] + [d.lineno for d in ref_node.decorator_list])
        ast.increment_lineno(ref_node, first - ref_first)
        body[idx] = ref_node
        restored.append(qual)
        log.append(f'{rel}:{qual} (line {node.lineno}): {how} as the reference version; analysed in the reference spelling')
    if restored:
        _sync_helpers(rel, tree, base, restored, log)
    return tree


def _private_refs(node: ast.AST) -> set[str]:
    out: set[str] = set()
    for x in ast.walk(node):
        if isinstance(x, ast.Attribute) and x.attr.startswith('_') and not x.attr.startswith('__'):
            out.add(x.attr)
        elif isinstance(x, ast.Name) and x.id.startswith('_') and not x.id.startswith('__'):
            out.add(x.id)
    return out


def _sync_helpers(rel: str, tree: ast.Module, base: dict, restored: list[str], log: list[str]) -> None:
    """reference functions may call private helpers the rewrite inlined away (add them back from the reference), and the rewrite may have
    introduced private helpers that nothing calls any more once its callers are in reference spelling (drop them)"""
    funcs = functions(tree)
    # add missing helpers referenced by restored functions
    for qual in restored:
        node, body, idx, cls = funcs[qual]
        prefix = qual.rsplit('.', 1)[0] + '.' if '.' in qual else ''
        for name in sorted(_private_refs(node)):
            for cand, target_body in ((prefix + name, cls.body if cls is not None else tree.body), (name, tree.body)):
                if cand in base and cand not in funcs and cand.count('.') == (1 if target_body is not tree.body else 0):
                    try:
                        h = ast.parse(base[cand]['src']).body[0]
                    except SyntaxError:
                        continue
                    ast.increment_lineno(h, node.lineno - h.lineno)
                    target_body.append(h)
                    funcs = functions(tree)
                    log.append(f'{rel}:{cand}: private helper of the reference version re-added (the rewrite had inlined it)')
                    break
    # drop private helpers that are new and no longer referenced
    changed = True
    while changed:
        changed = False
        funcs = functions(tree)
        for qual, (node, body, idx, cls) in funcs.items():
            name = node.name
            if qual in base or not name.startswith('_') or name.startswith('__'):
                continue
            used = False
            for other in ast.walk(tree):
                if other is node:
                    continue
                if isinstance(other, ast.Attribute) and other.attr == name:
                    used = True
                    break
                if isinstance(other, ast.Name) and other.id == name and not any(other is y for y in ast.walk(node)):
                    used = True
                    break
            if not used:
                body.remove(node)
                log.append(f'{rel}:{qual}: private helper introduced by a rewrite, unreferenced after its callers were restored; dropped')
                changed = True
                break


def build(repo: str) -> dict:
    """baseline for the tree at `repo` (tools/mkbaseline.py)"""
    files: dict[str, Any] = {}
    root = os.path.join(repo, 'autobean_refactor')
    for dirpath, dirnames, filenames in os.walk(root):
        dirnames[:] = sorted(d for d in dirnames if d not in ('tests', '__pycache__'))
        for fn in sorted(filenames):
            if not fn.endswith('.py') or fn.endswith('_test.py'):
                continue
            path = os.path.join(dirpath, fn)
            rel = os.path.relpath(path, repo)
            src = open(path, encoding='utf-8').read()
            tree = ast.parse(src)
            lines = src.splitlines(keepends=True)
            entry = {}
            for qual, (node, _, _, cls) in functions(tree).items():
                first = min([node.lineno] + [d.lineno for d in node.decorator_list])
                text = ''.join(lines[first - 1:node.end_lineno])
                # dedent to column 0 so that the text parses on its own
                indent = len(text) - len(text.lstrip(' '))
                text = ''.join(l[indent:] if l.strip() else l for l in text.splitlines(keepends=True))
                try:
                    entry[qual] = {'nf': nf.digest(node), 'src': text}
                    try:
                        inl = nf.digest_inlined(node, nf.helper_table(tree, cls))
                        if inl != entry[qual]['nf']:
                            entry[qual]['nf_inl'] = inl
                    except Exception:
                        pass
                except Exception as e:
                    entry[qual] = {'nf': 'unnormalisable: ' + type(e).__name__, 'src': text}
            if entry:
                files[rel] = entry
    return {'files': files}
