"""Findings, obligations, evidence files, known-findings handling, replay files."""
from __future__ import annotations

import dataclasses
import hashlib
import json
import os
import time
from typing import Any, Callable, Optional

VERIF = os.path.dirname(os.path.dirname(os.path.abspath(__file__)))
EVIDENCE_DIR = os.environ.get('VERIF_EVIDENCE_DIR') or os.path.join(VERIF, 'evidence')   # selftest redirects it to scratch
REPLAY_DIR = os.path.join(EVIDENCE_DIR, 'replay')
KNOWN_FILE = os.path.join(VERIF, 'known_findings.json')


@dataclasses.dataclass
class Finding:
    prop: str
    rule: str
    construct: str            # function qualname / class / site; position independent
    detail: str               # normalised statement text(s) that identify the instance
    message: str              # human diagnosis
    where: str = ''           # file:line (informational only, never part of the key)
    path: list[str] = dataclasses.field(default_factory=list)

    @property
    def key(self) -> str:
        return f'{self.prop}|{self.rule}|{self.construct}|{self.detail}'

    @property
    def digest(self) -> str:
        return hashlib.sha256(self.key.encode()).hexdigest()[:12]


@dataclasses.dataclass
class Obligation:
    rule: str
    site: str
    ok: bool
    note: str = ''
    nontrivial: bool = True


class RuleContext:
    """Collects obligations and findings for one property run."""

    def __init__(self, prop: str, tier: str) -> None:
        self.prop = prop
        self.tier = tier
        self.findings: list[Finding] = []
        self.obligations: list[Obligation] = []
        self.controls: list[dict[str, Any]] = []
        self.rules: dict[str, str] = {}          # rule id -> one-line statement
        self.stats: dict[str, Any] = {}
        self.assumptions: list[str] = []
        self.not_decided: list[str] = []
        self.errors: list[str] = []

    def try_rule(self, fn: Any, *args: Any) -> None:
        """run one rule; an analysis error in it is recorded and the other rules still run (a violation found elsewhere is
        never masked by one rule that cannot interpret its anchor)"""
        from .model import AnalysisError
        try:
            fn(self, *args)
        except AnalysisError as e:
            self.errors.append(str(e))
        except RecursionError:
            raise
        except Exception as e:      # a crash inside one rule is an analysis error of that rule, never a verdict; the other rules still run
            import traceback
            tb = traceback.extract_tb(e.__traceback__)
            where = f'{tb[-1].filename.rsplit("/", 1)[-1]}:{tb[-1].lineno}' if tb else '?'
            self.errors.append(f'{getattr(fn, "__name__", "rule")} crashed: {type(e).__name__}: {e} ({where})')

    def rule(self, rid: str, text: str) -> None:
        self.rules[rid] = text

    def ok(self, rule: str, site: str, note: str = '', nontrivial: bool = True) -> None:
        self.obligations.append(Obligation(rule, site, True, note, nontrivial))

    def fail(self, rule: str, construct: str, detail: str, message: str, where: str = '',
             path: Optional[list[str]] = None) -> None:
        self.obligations.append(Obligation(rule, construct, False, message))
        self.findings.append(Finding(self.prop, rule, construct, detail, message, where, path or []))

    def check(self, cond: bool, rule: str, construct: str, detail: str, message: str,
              where: str = '', note: str = '', nontrivial: bool = True) -> bool:
        if cond:
            self.ok(rule, construct, note or detail, nontrivial)
        else:
            self.fail(rule, construct, detail, message, where)
        return cond

    def control(self, rule: str, name: str, expected_fire: bool, fired: bool) -> None:
        self.controls.append({'rule': rule, 'control': name, 'expected': 'fires' if expected_fire else 'silent',
                              'observed': 'fires' if fired else 'silent', 'ok': expected_fire == fired})

    def count(self, rule: str) -> int:
        return sum(1 for o in self.obligations if o.rule == rule)

    def require_min(self, rule: str, minimum: int) -> None:
        from .model import AnalysisError
        n = self.count(rule)
        if n < minimum:
            self.errors.append(
                f'rule {rule} matched {n} instance(s); at least {minimum} were confirmed by hand '
                f'(a rule that matches nothing would pass vacuously)')


def load_known() -> dict[str, Any]:
    if not os.path.exists(KNOWN_FILE):
        return {'known': [], 'fixed': []}
    with open(KNOWN_FILE) as f:
        return json.load(f)


def write_replay(f: Finding) -> str:
    os.makedirs(REPLAY_DIR, exist_ok=True)
    path = os.path.join(REPLAY_DIR, f'{f.prop}-{f.rule}-{f.digest}.json')
    with open(path, 'w') as fh:
        json.dump({'property': f.prop, 'rule': f.rule, 'construct': f.construct, 'detail': f.detail,
                   'message': f.message, 'where': f.where, 'path': f.path, 'key': f.key}, fh, indent=1)
    return path


def finish(ctx: RuleContext, started: float, level_explanation: str, seed: int,
           replay_key: Optional[str] = None) -> int:
    """Print the verdict, write the evidence file, return the exit code."""
    known = load_known()
    known_keys = {k['key']: k for k in known.get('known', []) if k.get('property') == ctx.prop}
    unlisted: list[Finding] = []
    listed: list[Finding] = []
    seen: set[str] = set()
    for f in ctx.findings:
        if f.key in seen:
            continue
        seen.add(f.key)
        if replay_key is not None and f.key != replay_key:
            continue
        (listed if f.key in known_keys else unlisted).append(f)
    bad_controls = [c for c in ctx.controls if not c['ok']]
    if bad_controls:
        from .model import AnalysisError
        raise AnalysisError(f'positive/negative control failed: {bad_controls}')

    for f in listed:
        print(f'KNOWN-FINDING: property={f.prop} [{f.rule}] {f.construct}: {known_keys[f.key].get("what", f.message)}')
    for f in unlisted:
        p = write_replay(f)
        print(f'  rule      : {f.rule} -- {ctx.rules.get(f.rule, "")}')
        print(f'  construct : {f.construct}  ({f.where})')
        print(f'  instance  : {f.detail}')
        print(f'  diagnosis : {f.message}')
        for step in f.path:
            print(f'      path  : {step}')
        print(f'VIOLATION property={f.prop} replay={p}')

    obligations = len(ctx.obligations)
    discharged = sum(1 for o in ctx.obligations if o.ok)
    distinct = len({(o.rule, o.site) for o in ctx.obligations if o.nontrivial})
    per_rule: dict[str, dict[str, int]] = {}
    for o in ctx.obligations:
        d = per_rule.setdefault(o.rule, {'instances': 0, 'discharged': 0})
        d['instances'] += 1
        d['discharged'] += int(o.ok)
    samples: list[Any] = []
    shown: dict[str, int] = {}
    for o in ctx.obligations:
        if shown.get(o.rule, 0) < 3:
            shown[o.rule] = shown.get(o.rule, 0) + 1
            samples.append({'rule': o.rule, 'site': o.site, 'verdict': 'ok' if o.ok else 'VIOLATED', 'note': o.note[:300]})
    for f in (listed + unlisted)[:20]:
        samples.append({'rule': f.rule, 'site': f.construct, 'verdict': 'known-finding' if f in listed else 'VIOLATION',
                        'instance': f.detail[:300], 'path': f.path[:12]})
    wall = time.time() - started
    evidence = {
        'property_id': ctx.prop,
        'tier': ctx.tier,
        'seed': seed,
        'level': 'other',
        'coverage': {
            'explanation': level_explanation + ' Rules applied in this run (each stated in full under coverage.rules): ' + ', '.join(ctx.rules) + '.',
            'obligations': obligations,
            'discharged': discharged,
            'evaluations': obligations,
            'distinct_nontrivial': distinct,
            'rule': ('one evaluation = one rule instance (a site in /repo that matches a rule template) judged by that rule; '
                     'distinct_nontrivial counts distinct (rule, site) pairs at which the rule had something to decide '
                     '(template matched), not merely visited nodes'),
            'rules': ctx.rules,
            'per_rule': per_rule,
            'samples': samples,
            'controls': ctx.controls,
            'stats': ctx.stats,
            'not_decided': ctx.not_decided,
            'known_findings_reported': [f.key for f in listed],
            'exhaustive': True,
            'checker_cmd': f'./check {ctx.prop} --tier {ctx.tier}',
            'trusted_base': ctx.assumptions,
        },
        'assumptions': ctx.assumptions,
        'wall_s': round(wall, 3),
        'violations': len(unlisted),
    }
    if replay_key is None:
        os.makedirs(EVIDENCE_DIR, exist_ok=True)
        tmp = os.path.join(EVIDENCE_DIR, f'.{ctx.prop}.json.tmp')
        with open(tmp, 'w') as fh:
            json.dump(evidence, fh, indent=1, sort_keys=False)
        os.replace(tmp, os.path.join(EVIDENCE_DIR, f'{ctx.prop}.json'))
    print(f'{ctx.prop} [{ctx.tier}] rules={len(ctx.rules)} instances={obligations} discharged={discharged} '
          f'known={len(listed)} violations={len(unlisted)} wall={wall:.2f}s')
    for r, d in per_rule.items():
        print(f'    {r:<18} instances={d["instances"]:<4} discharged={d["discharged"]}')
    return 1 if unlisted else 0
