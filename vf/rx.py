"""E4 -- regular-language front-end: Python regexes (via re._parser) and lark terminals as NFAs.

Operations: membership, inclusion / equivalence with counter-example words, literal
prefix/suffix.  Characters are handled as intervals of code points; the alphabet of a
query is the partition induced by all character classes mentioned on both sides.

Zero-width assertions (anchors, look-around) cannot be expressed in a plain NFA.  They
are replaced by epsilon, which *enlarges* the language; every automaton records
`approx=True` when that happened and the inclusion routine refuses to use such an
automaton on the right-hand side (where enlarging would be unsound).
"""
from __future__ import annotations

import dataclasses
import re
import sys
from typing import Iterable, Optional

try:                                   # Python >= 3.11
    import re._parser as sre_parse     # type: ignore[import]
    import re._constants as sre_c      # type: ignore[import]
except ImportError:                    # pragma: no cover
    import sre_parse                   # type: ignore[no-redef]
    import sre_constants as sre_c      # type: ignore[no-redef]

MAXCP = sys.maxunicode
Interval = tuple[int, int]


class Unsupported(Exception):
    pass


def _norm_intervals(iv: Iterable[Interval]) -> tuple[Interval, ...]:
    out: list[list[int]] = []
    for a, b in sorted(iv):
        if out and a <= out[-1][1] + 1:
            out[-1][1] = max(out[-1][1], b)
        else:
            out.append([a, b])
    return tuple((a, b) for a, b in out)


def _negate(iv: tuple[Interval, ...]) -> tuple[Interval, ...]:
    out = []
    prev = 0
    for a, b in iv:
        if a > prev:
            out.append((prev, a - 1))
        prev = b + 1
    if prev <= MAXCP:
        out.append((prev, MAXCP))
    return tuple(out)


_CAT_CACHE: dict[str, tuple[Interval, ...]] = {}


def _category(cat: object) -> tuple[Interval, ...]:
    name = str(cat)
    if name in _CAT_CACHE:
        return _CAT_CACHE[name]
    table = {'CATEGORY_DIGIT': r'\d', 'CATEGORY_NOT_DIGIT': r'\D', 'CATEGORY_SPACE': r'\s', 'CATEGORY_NOT_SPACE': r'\S',
             'CATEGORY_WORD': r'\w', 'CATEGORY_NOT_WORD': r'\W'}
    if name not in table:
        raise Unsupported(f'character category {name}')
    pat = re.compile(table[name])
    iv: list[Interval] = []
    start = None
    for cp in range(MAXCP + 1):
        hit = pat.match(chr(cp)) is not None
        if hit and start is None:
            start = cp
        elif not hit and start is not None:
            iv.append((start, cp - 1))
            start = None
    if start is not None:
        iv.append((start, MAXCP))
    _CAT_CACHE[name] = tuple(iv)
    return _CAT_CACHE[name]


@dataclasses.dataclass
class NFA:
    n: int = 0
    start: int = 0
    accept: int = 0
    eps: dict[int, set[int]] = dataclasses.field(default_factory=dict)
    trans: dict[int, list[tuple[tuple[Interval, ...], int]]] = dataclasses.field(default_factory=dict)
    approx: bool = False          # an assertion was dropped: language is a superset of the true one
    approx_notes: list[str] = dataclasses.field(default_factory=list)
    source: str = ''
    trail: Optional[tuple[bool, tuple[Interval, ...]]] = None   # trailing look-ahead on the next character: (positive?, set)

    def new(self) -> int:
        self.n += 1
        return self.n - 1

    def add_eps(self, a: int, b: int) -> None:
        self.eps.setdefault(a, set()).add(b)

    def add(self, a: int, cs: tuple[Interval, ...], b: int) -> None:
        if cs:
            self.trans.setdefault(a, []).append((cs, b))

    def closure(self, states: Iterable[int]) -> frozenset[int]:
        seen = set(states)
        todo = list(seen)
        while todo:
            s = todo.pop()
            for t in self.eps.get(s, ()):
                if t not in seen:
                    seen.add(t)
                    todo.append(t)
        return frozenset(seen)

    def step(self, states: frozenset[int], cp: int) -> frozenset[int]:
        nxt = set()
        for s in states:
            for cs, t in self.trans.get(s, ()):
                if any(a <= cp <= b for a, b in cs):
                    nxt.add(t)
        return self.closure(nxt)

    def boundaries(self) -> set[int]:
        out = {0, MAXCP + 1}
        for lst in self.trans.values():
            for cs, _ in lst:
                for a, b in cs:
                    out.add(a)
                    out.add(b + 1)
        return out

    def accepts(self, text: str) -> bool:
        cur = self.closure([self.start])
        for ch in text:
            cur = self.step(cur, ord(ch))
            if not cur:
                return False
        return self.accept in cur


def _build(nfa: NFA, items: object, flags: int, s: int) -> int:
    """Thompson construction for a parsed sequence; returns the end state."""
    cur = s
    for op, av in items:  # type: ignore[attr-defined]
        name = str(op)
        if name == 'LITERAL':
            t = nfa.new()
            cs: list[Interval] = [(av, av)]
            if flags & re.IGNORECASE:
                c = chr(av)
                cs = [(ord(x), ord(x)) for x in {c, c.lower(), c.upper()}]
            nfa.add(cur, _norm_intervals(cs), t)
            cur = t
        elif name == 'NOT_LITERAL':
            t = nfa.new()
            nfa.add(cur, _negate(((av, av),)), t)
            cur = t
        elif name == 'ANY':
            t = nfa.new()
            nfa.add(cur, ((0, MAXCP),) if flags & re.DOTALL else _negate(((10, 10),)), t)
            cur = t
        elif name == 'IN':
            neg = False
            cs2: list[Interval] = []
            for iop, iav in av:
                iname = str(iop)
                if iname == 'NEGATE':
                    neg = True
                elif iname == 'LITERAL':
                    cs2.append((iav, iav))
                elif iname == 'RANGE':
                    cs2.append((iav[0], iav[1]))
                elif iname == 'CATEGORY':
                    cs2.extend(_category(iav))
                else:
                    raise Unsupported(f'set item {iname}')
            if flags & re.IGNORECASE:
                raise Unsupported('IGNORECASE with character sets')
            csn = _norm_intervals(cs2)
            t = nfa.new()
            nfa.add(cur, _negate(csn) if neg else csn, t)
            cur = t
        elif name == 'BRANCH':
            end = nfa.new()
            for alt in av[1]:
                st = nfa.new()
                nfa.add_eps(cur, st)
                e = _build(nfa, alt, flags, st)
                nfa.add_eps(e, end)
            cur = end
        elif name == 'SUBPATTERN':
            group, add_flags, del_flags, sub = av
            cur = _build(nfa, sub, (flags | add_flags) & ~del_flags, cur)
        elif name in ('MAX_REPEAT', 'MIN_REPEAT', 'POSSESSIVE_REPEAT'):
            lo, hi, sub = av
            for _ in range(lo):
                cur = _build(nfa, sub, flags, cur)
            if hi == sre_c.MAXREPEAT:
                loop_s = nfa.new()
                nfa.add_eps(cur, loop_s)
                e = _build(nfa, sub, flags, loop_s)
                nfa.add_eps(e, loop_s)
                cur = loop_s
            else:
                end = nfa.new()
                nfa.add_eps(cur, end)
                for _ in range(hi - lo):
                    cur = _build(nfa, sub, flags, cur)
                    nfa.add_eps(cur, end)
                cur = end
        elif name == 'AT':
            nfa.approx = True
            nfa.approx_notes.append(f'anchor {av} treated as empty')
        elif name in ('ASSERT', 'ASSERT_NOT'):
            nfa.approx = True
            nfa.approx_notes.append(f'{"look-ahead" if av[0] > 0 else "look-behind"} {"negative " if name == "ASSERT_NOT" else ""}assertion dropped')
        elif name == 'ATOMIC_GROUP':
            cur = _build(nfa, av, flags, cur)
        else:
            raise Unsupported(f'regex construct {name}')
    return cur


def _single_char_set(items: object, flags: int) -> Optional[tuple[Interval, ...]]:
    """the character set of a pattern that matches exactly one character (a literal, a class, `.`, or alternatives of those)"""
    seq = list(items)  # type: ignore[call-overload]
    if len(seq) != 1:
        return None
    op, av = seq[0]
    name = str(op)
    if name in ('LITERAL', 'NOT_LITERAL', 'ANY', 'IN'):
        tmp = NFA()
        s0 = tmp.new()
        try:
            e = _build(tmp, [(op, av)], flags, s0)
        except Unsupported:
            return None
        iv: list[Interval] = []
        for cs, t in tmp.trans.get(s0, ()):
            if t == e:
                iv.extend(cs)
        return _norm_intervals(iv)
    if name == 'BRANCH':
        out: list[Interval] = []
        for alt in av[1]:
            one = _single_char_set(alt, flags)
            if one is None:
                return None
            out.extend(one)
        return _norm_intervals(out)
    if name == 'SUBPATTERN':
        return _single_char_set(av[3], flags)
    return None


def from_regex(pattern: str, flags: int = 0) -> NFA:
    parsed = sre_parse.parse(pattern, flags)
    nfa = NFA(source=pattern)
    nfa.start = nfa.new()
    items = list(parsed)
    fl = parsed.state.flags | flags
    # a trailing one-character look-ahead constrains what may FOLLOW the lexeme, not the lexeme: kept exactly as `trail`
    if items and str(items[-1][0]) in ('ASSERT', 'ASSERT_NOT') and items[-1][1][0] > 0:
        cs = _single_char_set(items[-1][1][1], fl)
        if cs is not None:
            nfa.trail = (str(items[-1][0]) == 'ASSERT', cs)
            items = items[:-1]
    word_end = bool(items) and str(items[-1][0]) == 'AT' and str(items[-1][1]) == 'AT_BOUNDARY'
    if word_end:
        items = items[:-1]
    nfa.accept = _build(nfa, items, fl, nfa.start)
    if word_end:
        # a trailing \b after a lexeme that always ends in a word character == "the next character is not a word character"
        word = _category(sre_c.CATEGORY_WORD)
        back = {s for s in range(nfa.n) if nfa.accept in nfa.closure([s])}
        last = [cs for lst in nfa.trans.values() for cs, t in lst if t in back]
        if last and all(any(lo <= a and b <= hi for lo, hi in word) for cs in last for a, b in cs):
            nfa.trail = (False, word)
        else:
            nfa.approx = True
            nfa.approx_notes.append('trailing \\b after a lexeme that may end in a non-word character')
    return nfa


def from_literal(text: str) -> NFA:
    return from_regex(re.escape(text))


def find_difference(a: NFA, b: NFA, limit: int = 200000) -> Optional[str]:
    """A word in L(a) \\ L(b), or None if L(a) is included in L(b).  `b` must be exact."""
    if b.approx:
        raise Unsupported(f'right-hand side automaton is only an over-approximation ({b.approx_notes}); inclusion would be unsound')
    bounds = sorted(a.boundaries() | b.boundaries())
    letters = [bounds[i] for i in range(len(bounds) - 1)]       # representative = interval start
    sa = a.closure([a.start])
    sb = b.closure([b.start])
    seen = {(sa, sb)}
    todo: list[tuple[frozenset[int], frozenset[int], str]] = [(sa, sb, '')]
    count = 0
    while todo:
        ca, cb, word = todo.pop(0)
        if a.accept in ca and b.accept not in cb:
            return word
        count += 1
        if count > limit:
            raise Unsupported('state space limit reached')
        for cp in letters:
            na = a.step(ca, cp)
            if not na:
                continue
            nb = b.step(cb, cp)
            if (na, nb) not in seen:
                seen.add((na, nb))
                todo.append((na, nb, word + chr(_pretty(cp, bounds))))
    return None


def prefix_conflict(a: NFA, b: NFA, limit: int = 200000) -> Optional[str]:
    """a word of L(b) that has a PROPER prefix in L(a) after which a's trailing look-ahead (if any) holds -- the word an ordered-choice
    lexer that tries `a` first cuts short -- or None.  Both automata must be exact."""
    if a.approx or b.approx:
        raise Unsupported('prefix_conflict needs exact automata')
    extra: set[int] = set()
    if a.trail is not None:
        for lo, hi in a.trail[1]:
            extra |= {lo, hi + 1}
    bounds = sorted(a.boundaries() | b.boundaries() | extra)
    letters = [bounds[i] for i in range(len(bounds) - 1)]
    sa = a.closure([a.start])
    sb = b.closure([b.start])
    empty: frozenset[int] = frozenset()
    seen = {(sa, sb, False)}
    todo: list[tuple[frozenset[int], frozenset[int], bool, str]] = [(sa, sb, False, '')]
    count = 0
    while todo:
        ca, cb, hit, word = todo.pop(0)
        if hit and b.accept in cb:
            return word
        count += 1
        if count > limit:
            raise Unsupported('state space limit reached')
        for cp in letters:
            nb = b.step(cb, cp)
            if not nb:
                continue
            nh = hit
            if not nh and a.accept in ca:
                if a.trail is None:
                    nh = True
                else:
                    inside = any(lo <= cp <= hi for lo, hi in a.trail[1])
                    nh = inside if a.trail[0] else not inside
            na = empty if nh else a.step(ca, cp)
            key = (na, nb, nh)
            if key not in seen:
                seen.add(key)
                todo.append((na, nb, nh, word + chr(_pretty(cp, bounds))))
    return None


def _pretty(cp: int, bounds: list[int]) -> int:
    """choose a printable representative inside the interval starting at cp when possible"""
    i = bounds.index(cp)
    hi = bounds[i + 1] - 1
    for cand in (ord('a'), ord('A'), ord('0'), ord(' ')):
        if cp <= cand <= hi:
            return cand
    return cp


def included(a: NFA, b: NFA) -> tuple[bool, Optional[str]]:
    w = find_difference(a, b)
    return (w is None, w)


def equivalent(a: NFA, b: NFA) -> tuple[bool, Optional[str], Optional[str]]:
    w1 = find_difference(a, b)
    w2 = find_difference(b, a)
    return (w1 is None and w2 is None, w1, w2)


def accepted_chars(nfa: NFA) -> tuple[Interval, ...]:
    """all characters that occur on some transition"""
    iv: list[Interval] = []
    for lst in nfa.trans.values():
        for cs, _ in lst:
            iv.extend(cs)
    return _norm_intervals(iv)


def some_word_containing(nfa: NFA, cp: int) -> Optional[str]:
    """a word of L(nfa) that contains code point cp, if any"""
    bounds = sorted(nfa.boundaries() | {cp, cp + 1})
    letters = [bounds[i] for i in range(len(bounds) - 1)]
    start = (nfa.closure([nfa.start]), False)
    seen = {start}
    todo = [(start[0], False, '')]
    while todo:
        cur, has, word = todo.pop(0)
        if has and nfa.accept in cur:
            return word
        for l in letters:
            nx = nfa.step(cur, l)
            if not nx:
                continue
            h2 = has or l == cp
            if (nx, h2) not in seen:
                seen.add((nx, h2))
                todo.append((nx, h2, word + chr(l if l == cp else _pretty(l, bounds))))
    return None


# --------------------------------------------------------------------------- grammar
class Grammar:
    """beancount.lark parsed and compiled by lark's own loader (a data-file parse)."""

    def __init__(self, path: str) -> None:
        from lark import load_grammar
        with open(path, encoding='utf-8') as f:
            text = f.read()
        self.text = text
        g, _ = load_grammar.load_grammar(grammar=text, source=path, import_paths=[], global_keep_all_tokens=False)
        self.ignore = list(g.ignore)
        self.rule_defs = {str(name): (params, tree, opts) for name, params, tree, opts in g.rule_defs}
        self.term_defs = {str(name): (tree, prio) for name, (tree, prio) in g.term_defs}
        starts = [n for n in self.rule_defs if not n.startswith('_') and not self.rule_defs[n][0]]
        terminals, rules, ignore = g.compile(starts, '*')
        self.terminals = {t.name: t for t in terminals}
        self.rules = rules
        self.declared = [n for n, (tree, prio) in self.term_defs.items() if tree is None]

    def terminal_nfa(self, name: str) -> NFA:
        t = self.terminals[name]
        pat = t.pattern
        flags = 0
        for f in getattr(pat, 'flags', ()) or ():
            flags |= {'i': re.I, 'm': re.M, 's': re.S, 'x': re.X, 'u': re.U, 'l': re.L}.get(f, 0)
        if pat.type == 'str':
            n = from_literal(pat.value)
        else:
            n = from_regex(pat.to_regexp(), flags)
        n.source = f'{name}: {pat.to_regexp()}'
        return n

    def terminal_is_literal(self, name: str) -> Optional[str]:
        t = self.terminals.get(name)
        if t is not None and t.pattern.type == 'str':
            return t.pattern.value
        return None

    def literal_alternatives(self, name: str) -> Optional[list[str]]:
        """for terminals defined as alternatives of string literals ("+" | "-") return them"""
        n = self.terminal_nfa(name)
        if n.approx:
            return None
        words: list[str] = []
        todo = [(n.closure([n.start]), '')]
        bounds = sorted(n.boundaries())
        letters = [bounds[i] for i in range(len(bounds) - 1)]
        steps = 0
        while todo:
            cur, w = todo.pop()
            steps += 1
            if steps > 2000 or len(w) > 12:
                return None
            if n.accept in cur:
                words.append(w)
            for l in letters:
                i = bounds.index(l)
                nx = n.step(cur, l)
                if nx:
                    if bounds[i + 1] - l != 1:
                        return None      # a real character class: not a finite literal set
                    todo.append((nx, w + chr(l)))
        return sorted(words)


# --------------------------------------------------------------------------- backtracking order (E4b)
class BTMatcher:
    """Reference semantics of Python's backtracking regex engine over the parsed pattern: match(text) is the end of the FIRST successful
    path in priority order (greedy repeats try more iterations first, lazy ones fewer; alternatives left to right).  Used to evaluate a
    terminal exhaustively over short strings of character-class representatives -- the pattern is data, the evaluator is ours."""

    def __init__(self, pattern: str, flags: int = 0) -> None:
        self.parsed = sre_parse.parse(pattern, flags)
        self.flags = self.parsed.state.flags | flags
        self.pattern = pattern

    def boundaries(self) -> set[int]:
        out: set[int] = {0, MAXCP + 1}

        def walk(items: object) -> None:
            for op, av in items:  # type: ignore[attr-defined]
                name = str(op)
                if name in ('LITERAL', 'NOT_LITERAL'):
                    out.update((av, av + 1))
                elif name == 'ANY':
                    out.update((10, 11))
                elif name == 'IN':
                    for iop, iav in av:
                        iname = str(iop)
                        if iname == 'LITERAL':
                            out.update((iav, iav + 1))
                        elif iname == 'RANGE':
                            out.update((iav[0], iav[1] + 1))
                        elif iname == 'CATEGORY':
                            for a, b in _category(iav):
                                out.update((a, b + 1))
                elif name == 'BRANCH':
                    for alt in av[1]:
                        walk(alt)
                elif name == 'SUBPATTERN':
                    walk(av[3])
                elif name in ('MAX_REPEAT', 'MIN_REPEAT', 'POSSESSIVE_REPEAT'):
                    walk(av[2])
                elif name in ('ASSERT', 'ASSERT_NOT'):
                    walk(av[1])
                elif name == 'ATOMIC_GROUP':
                    walk(av)
        walk(self.parsed)
        return out

    def char_tests(self) -> list[tuple[str, object, int]]:
        """every single-character test of the pattern, as (op, argument, flags)"""
        out: list[tuple[str, object, int]] = []

        def walk(items: object, flags: int) -> None:
            for op, av in items:  # type: ignore[attr-defined]
                name = str(op)
                if name in ('LITERAL', 'NOT_LITERAL', 'ANY', 'IN'):
                    out.append((name, av, flags))
                elif name == 'BRANCH':
                    for alt in av[1]:
                        walk(alt, flags)
                elif name == 'SUBPATTERN':
                    walk(av[3], (flags | av[1]) & ~av[2])
                elif name in ('MAX_REPEAT', 'MIN_REPEAT', 'POSSESSIVE_REPEAT'):
                    walk(av[2], flags)
                elif name in ('ASSERT', 'ASSERT_NOT'):
                    walk(av[1], flags)
                elif name == 'ATOMIC_GROUP':
                    walk(av, flags)
        walk(self.parsed, self.flags)
        return out

    def signature(self, ch: str) -> tuple:
        return tuple(self._char(op, av, ch, fl) for op, av, fl in self.char_tests()) + (ch == '\n',)

    def _char(self, op: str, av: object, ch: str, flags: int) -> bool:
        cp = ord(ch)
        if op == 'LITERAL':
            return cp == av
        if op == 'NOT_LITERAL':
            return cp != av
        if op == 'ANY':
            return bool(flags & re.DOTALL) or ch != '\n'
        neg = False
        hit = False
        for iop, iav in av:  # type: ignore[attr-defined]
            iname = str(iop)
            if iname == 'NEGATE':
                neg = True
            elif iname == 'LITERAL':
                hit = hit or cp == iav
            elif iname == 'RANGE':
                hit = hit or iav[0] <= cp <= iav[1]
            elif iname == 'CATEGORY':
                hit = hit or any(a <= cp <= b for a, b in _category(iav))
            else:
                raise Unsupported(f'set item {iname}')
        return hit != neg

    def _seq(self, items: list, i: int, text: str, pos: int, flags: int, k: object) -> object:
        """generator of end positions, in priority order, of items[i:] matched at pos, continued by k(pos) (a generator function)"""
        if i == len(items):
            yield from k(pos)  # type: ignore[operator]
            return
        op, av = items[i]
        name = str(op)
        rest = lambda p: self._seq(items, i + 1, text, p, flags, k)      # noqa: E731
        if name in ('LITERAL', 'NOT_LITERAL', 'ANY', 'IN'):
            if pos < len(text) and self._char(name, av, text[pos], flags):
                yield from rest(pos + 1)
        elif name == 'BRANCH':
            for alt in av[1]:
                yield from self._seq(list(alt), 0, text, pos, flags, rest)
        elif name == 'SUBPATTERN':
            _, add_flags, del_flags, sub = av
            yield from self._seq(list(sub), 0, text, pos, (flags | add_flags) & ~del_flags, rest)
        elif name in ('MAX_REPEAT', 'MIN_REPEAT'):
            lo, hi, sub = av
            sub = list(sub)

            def rep(count: int, p: int) -> object:
                def again(q: int) -> object:
                    if q == p and count >= lo:
                        return                  # an empty iteration does not repeat (as in sre)
                    yield from rep(count + 1, q)
                more = (lambda: self._seq(sub, 0, text, p, flags, again)) if (hi == sre_c.MAXREPEAT or count < hi) else (lambda: iter(()))
                if count < lo:
                    yield from more()
                elif name == 'MAX_REPEAT':
                    yield from more()
                    yield from rest(p)
                else:
                    yield from rest(p)
                    yield from more()
            yield from rep(0, pos)
        elif name in ('ASSERT', 'ASSERT_NOT'):
            direction, sub = av
            sub = list(sub)
            ok = False
            if direction > 0:
                ok = next(iter(self._seq(sub, 0, text, pos, flags, lambda q: iter((q,)))), None) is not None
            else:
                for start in range(pos, -1, -1):
                    if any(q == pos for q in self._seq(sub, 0, text, start, flags, lambda q: iter((q,)))):
                        ok = True
                        break
            if ok == (name == 'ASSERT'):
                yield from rest(pos)
        elif name == 'AT':
            at = str(av)
            ok = {'AT_BEGINNING': pos == 0 or (bool(flags & re.M) and text[pos - 1] == '\n'), 'AT_BEGINNING_STRING': pos == 0,
                  'AT_END': pos == len(text) or (pos == len(text) - 1 and text[pos] == '\n') or (bool(flags & re.M) and text[pos] == '\n'),
                  'AT_END_STRING': pos == len(text)}.get(at)
            if ok is None:
                raise Unsupported(f'anchor {at}')
            if ok:
                yield from rest(pos)
        else:
            raise Unsupported(f'regex construct {name}')

    def match_end(self, text: str) -> Optional[int]:
        """end of re.match(pattern, text): first success in priority order, or None"""
        return next(iter(self._seq(list(self.parsed), 0, text, 0, self.flags, lambda q: iter((q,)))), None)  # type: ignore[call-overload]
