"""E1 -- ordered, path-forking, state-joining walker over function bodies.

A client supplies `transfer(state, event) -> iterable of successor states` where
state is any hashable value and event is one of

    ('eval', node)            an expression node has just been evaluated (children first,
                              Python evaluation order: callee, arguments left to right, call)
    ('store', target, value)  a binding/assignment target is written (after its value)
    ('del', target)
    ('assume', test, truth)   control continues along the branch where `test` is `truth`
    ('raise', node)           an explicit raise statement (after evaluating its operand)
    ('return', node)          a return statement (after evaluating its operand)
    ('yield', node)
    ('enter-loop', node) / ('iterate', node, target) / ('exit-loop', node)

Branches fork the state set, merges join it (set union), loops run to a fixpoint
over the finite state set.  Returning an empty iterable prunes a path.
"""
from __future__ import annotations

import ast
from typing import Any, Callable, Hashable, Iterable, Optional

State = Hashable
Event = tuple[Any, ...]
Transfer = Callable[[State, Event], Iterable[State]]


class Outcome:
    def __init__(self) -> None:
        self.normal: set[State] = set()
        self.returned: set[State] = set()
        self.raised: set[State] = set()
        self.broke: set[State] = set()
        self.continued: set[State] = set()


class Walker:
    def __init__(self, transfer: Transfer, max_iter: int = 12) -> None:
        self.transfer = transfer
        self.max_iter = max_iter
        self.seen_in_try: list[set[State]] = []

    # ------------------------------------------------------------------ helpers
    def _apply(self, states: set[State], event: Event) -> set[State]:
        out: set[State] = set()
        for s in states:
            out.update(self.transfer(s, event))
        for acc in self.seen_in_try:
            acc.update(out)
        return out

    # --------------------------------------------------------------- expressions
    def expr(self, e: Optional[ast.AST], states: set[State]) -> set[State]:
        if e is None or not states:
            return states
        if isinstance(e, ast.BoolOp):
            cur = self.expr(e.values[0], states)
            result: set[State] = set()
            for i, v in enumerate(e.values[1:]):
                prev = e.values[i]
                if isinstance(e.op, ast.And):
                    result |= self._apply(cur, ('assume', prev, False))
                    cur = self._apply(cur, ('assume', prev, True))
                else:
                    result |= self._apply(cur, ('assume', prev, True))
                    cur = self._apply(cur, ('assume', prev, False))
                cur = self.expr(v, cur)
            result |= cur
            return self._apply(result, ('eval', e))
        if isinstance(e, ast.IfExp):
            cur = self.expr(e.test, states)
            a = self.expr(e.body, self._apply(cur, ('assume', e.test, True)))
            b = self.expr(e.orelse, self._apply(cur, ('assume', e.test, False)))
            return self._apply(a | b, ('eval', e))
        if isinstance(e, (ast.ListComp, ast.SetComp, ast.GeneratorExp, ast.DictComp)):
            cur = states
            # generators: first iterable is evaluated eagerly, the rest per iteration
            cur = self.expr(e.generators[0].iter, cur)
            body_states = cur
            seen: set[State] = set(cur)
            for _ in range(self.max_iter):
                s = body_states
                for gi, g in enumerate(e.generators):
                    if gi:
                        s = self.expr(g.iter, s)
                    s = self._apply(s, ('store', g.target, None))
                    for cond in g.ifs:
                        s = self.expr(cond, s)
                        # both outcomes continue (filtered element or not)
                        s = self._apply(s, ('assume', cond, True)) | self._apply(s, ('assume', cond, False))
                if isinstance(e, ast.DictComp):
                    s = self.expr(e.key, s)
                    s = self.expr(e.value, s)
                else:
                    s = self.expr(e.elt, s)
                new = s - seen
                if not new:
                    break
                seen |= new
                body_states = new
            return self._apply(seen, ('eval', e))
        if isinstance(e, ast.Lambda):
            return self._apply(states, ('eval', e))   # body runs when called, not here
        if isinstance(e, ast.NamedExpr):
            cur = self.expr(e.value, states)
            cur = self._apply(cur, ('store', e.target, e.value))
            return self._apply(cur, ('eval', e))
        if isinstance(e, ast.Call):
            cur = self.expr(e.func, states)
            for a in e.args:
                cur = self.expr(a.value if isinstance(a, ast.Starred) else a, cur)
            for k in e.keywords:
                cur = self.expr(k.value, cur)
            return self._apply(cur, ('eval', e))
        if isinstance(e, ast.Compare):
            cur = self.expr(e.left, states)
            for c in e.comparators:
                cur = self.expr(c, cur)
            return self._apply(cur, ('eval', e))
        if isinstance(e, (ast.Yield, ast.YieldFrom)):
            cur = self.expr(e.value, states) if e.value is not None else states
            return self._apply(cur, ('yield', e))
        if isinstance(e, ast.Attribute) or isinstance(e, ast.Subscript):
            cur = self.expr(e.value, states)
            if isinstance(e, ast.Subscript):
                cur = self.expr(e.slice, cur)
            if isinstance(e.ctx, ast.Load):
                return self._apply(cur, ('eval', e))
            return cur
        if isinstance(e, (ast.Name, ast.Constant)):
            if isinstance(e, ast.Name) and not isinstance(e.ctx, ast.Load):
                return states
            return self._apply(states, ('eval', e))
        # generic: children in field order, then the node
        cur = states
        for ch in ast.iter_child_nodes(e):
            if isinstance(ch, (ast.expr_context, ast.operator, ast.unaryop, ast.cmpop, ast.boolop)):
                continue
            if isinstance(ch, ast.expr) or isinstance(ch, (ast.keyword, ast.comprehension, ast.Starred)):
                if isinstance(ch, ast.keyword):
                    cur = self.expr(ch.value, cur)
                else:
                    cur = self.expr(ch, cur)
        if isinstance(e, ast.expr):
            cur = self._apply(cur, ('eval', e))
        return cur

    def _store(self, target: ast.AST, value: Optional[ast.AST], states: set[State]) -> set[State]:
        # evaluate sub-expressions of the target (receiver / index), then the store
        if isinstance(target, (ast.Tuple, ast.List)):
            cur = states
            vals: list[Optional[ast.AST]] = [None] * len(target.elts)
            if isinstance(value, (ast.Tuple, ast.List)) and len(value.elts) == len(target.elts):
                vals = list(value.elts)
            for t, v in zip(target.elts, vals):
                cur = self._store(t.value if isinstance(t, ast.Starred) else t, v, cur)
            return cur
        cur = states
        if isinstance(target, ast.Attribute):
            cur = self.expr(target.value, cur)
        elif isinstance(target, ast.Subscript):
            cur = self.expr(target.value, cur)
            cur = self.expr(target.slice, cur)
        return self._apply(cur, ('store', target, value))

    # ---------------------------------------------------------------- statements
    def block(self, stmts: list[ast.stmt], states: set[State], out: Outcome) -> set[State]:
        cur = states
        for st in stmts:
            if not cur:
                break
            cur = self.stmt(st, cur, out)
        return cur

    def stmt(self, st: ast.stmt, states: set[State], out: Outcome) -> set[State]:
        if isinstance(st, ast.Expr):
            return self.expr(st.value, states)
        if isinstance(st, ast.Assign):
            cur = self.expr(st.value, states)
            for t in st.targets:
                cur = self._store(t, st.value, cur)
            return cur
        if isinstance(st, ast.AnnAssign):
            if st.value is None:
                return states
            cur = self.expr(st.value, states)
            return self._store(st.target, st.value, cur)
        if isinstance(st, ast.AugAssign):
            load = ast.copy_location(_as_load(st.target), st.target)
            cur = self.expr(load, states)
            cur = self.expr(st.value, cur)
            cur = self._apply(cur, ('eval', st))   # the in-place operator itself
            return self._store(st.target, st, cur)
        if isinstance(st, ast.Return):
            cur = self.expr(st.value, states) if st.value is not None else states
            out.returned |= self._apply(cur, ('return', st))
            return set()
        if isinstance(st, ast.Raise):
            cur = self.expr(st.exc, states) if st.exc is not None else states
            out.raised |= self._apply(cur, ('raise', st))
            return set()
        if isinstance(st, ast.Assert):
            cur = self.expr(st.test, states)
            return self._apply(cur, ('assume', st.test, True))
        if isinstance(st, ast.Delete):
            cur = states
            for t in st.targets:
                if isinstance(t, ast.Subscript):
                    cur = self.expr(t.value, cur)
                    cur = self.expr(t.slice, cur)
                elif isinstance(t, ast.Attribute):
                    cur = self.expr(t.value, cur)
                cur = self._apply(cur, ('del', t))
            return cur
        if isinstance(st, ast.If):
            cur = self.expr(st.test, states)
            a = self.block(st.body, self._apply(cur, ('assume', st.test, True)), out)
            b = self.block(st.orelse, self._apply(cur, ('assume', st.test, False)), out)
            return a | b
        if isinstance(st, ast.While):
            return self._loop(st, states, out)
        if isinstance(st, (ast.For, ast.AsyncFor)):
            return self._loop(st, states, out)
        if isinstance(st, ast.Try):
            return self._try(st, states, out)
        if isinstance(st, (ast.With, ast.AsyncWith)):
            cur = states
            for item in st.items:
                cur = self.expr(item.context_expr, cur)
                if item.optional_vars is not None:
                    cur = self._store(item.optional_vars, None, cur)
            return self.block(st.body, cur, out)
        if isinstance(st, ast.Match):
            cur = self.expr(st.subject, states)
            result: set[State] = set()
            remaining = cur
            for case in st.cases:
                taken = self._apply(remaining, ('match', st.subject, case.pattern, True))
                if case.guard is not None:
                    taken = self.expr(case.guard, taken)
                    taken = self._apply(taken, ('assume', case.guard, True))
                result |= self.block(case.body, taken, out)
                remaining = self._apply(remaining, ('match', st.subject, case.pattern, False))
            return result | remaining
        if isinstance(st, ast.Break):
            out.broke |= states
            return set()
        if isinstance(st, ast.Continue):
            out.continued |= states
            return set()
        if isinstance(st, (ast.Pass, ast.Import, ast.ImportFrom, ast.Global, ast.Nonlocal)):
            return states
        if isinstance(st, (ast.FunctionDef, ast.AsyncFunctionDef, ast.ClassDef)):
            return self._apply(states, ('def', st))
        raise NotImplementedError(f'statement kind {type(st).__name__}')

    def _loop(self, st: ast.stmt, states: set[State], out: Outcome) -> set[State]:
        is_for = isinstance(st, (ast.For, ast.AsyncFor))
        cur = self.expr(st.iter, states) if is_for else states  # type: ignore[attr-defined]
        cur = self._apply(cur, ('enter-loop', st))
        exits: set[State] = set()
        breaks: set[State] = set()
        seen: set[State] = set()
        frontier = cur
        for _ in range(self.max_iter):
            frontier = frontier - seen
            if not frontier:
                break
            seen |= frontier
            if is_for:
                exits |= frontier                         # iterator exhausted
                body_in = self._store(st.target, None, frontier)            # type: ignore[attr-defined]
                body_in = self._apply(body_in, ('iterate', st, st.target))  # type: ignore[attr-defined]
            else:
                t = self.expr(st.test, frontier)          # type: ignore[attr-defined]
                exits |= self._apply(t, ('assume', st.test, False))  # type: ignore[attr-defined]
                body_in = self._apply(t, ('assume', st.test, True))  # type: ignore[attr-defined]
            inner = Outcome()
            after = self.block(st.body, body_in, inner)   # type: ignore[attr-defined]
            out.returned |= inner.returned
            out.raised |= inner.raised
            breaks |= inner.broke
            frontier = after | inner.continued
        normal_exit = self.block(st.orelse, exits, out) if st.orelse else exits  # type: ignore[attr-defined]
        normal_exit = self._apply(normal_exit | breaks, ('exit-loop', st))
        return normal_exit

    def _try(self, st: ast.Try, states: set[State], out: Outcome) -> set[State]:
        acc: set[State] = set(states)
        self.seen_in_try.append(acc)
        inner = Outcome()
        body_out = self.block(st.body, states, inner)
        self.seen_in_try.pop()
        handler_in = acc | inner.raised
        result: set[State] = set()
        if st.handlers:
            for h in st.handlers:
                hin = self._apply(handler_in, ('except', h))
                if h.name:
                    hin = self._apply(hin, ('store', ast.Name(id=h.name, ctx=ast.Store()), None))
                result |= self.block(h.body, hin, out)
            # an exception not matched by any handler keeps propagating
            if not any(h.type is None for h in st.handlers):
                out.raised |= inner.raised
        else:
            out.raised |= inner.raised
        out.returned |= inner.returned
        out.broke |= inner.broke
        out.continued |= inner.continued
        result |= self.block(st.orelse, body_out, out) if st.orelse else body_out
        if st.finalbody:
            result = self.block(st.finalbody, result | (handler_in if not st.handlers else set()), out)
        return result

    # ------------------------------------------------------------------- entry
    def run(self, stmts: list[ast.stmt], init: Iterable[State]) -> Outcome:
        out = Outcome()
        out.normal = self.block(stmts, set(init), out)
        return out


def _as_load(t: ast.AST) -> ast.AST:
    if isinstance(t, ast.Name):
        return ast.Name(id=t.id, ctx=ast.Load())
    if isinstance(t, ast.Attribute):
        return ast.Attribute(value=t.value, attr=t.attr, ctx=ast.Load())
    if isinstance(t, ast.Subscript):
        return ast.Subscript(value=t.value, slice=t.slice, ctx=ast.Load())
    return t
