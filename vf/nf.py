"""Normal forms of function bodies, for recognising behaviour-preserving rewrites.

`normal_form(fn)` maps a function definition to a canonical AST dump such that two definitions with the same normal form
behave identically (every step below is a semantics-preserving rewrite; none of them moves an expression across a
statement that could change its value, duplicates or drops an evaluation with a possible side effect, or changes the order
of two such evaluations).  It is used by `vf/baseline.py`: a function of the current tree whose normal form equals the
normal form of the reference version (the tree on which every instance table was confirmed) is analysed in its reference
spelling, so that rules which compare shapes do not alarm on a maintainer's clean-up.  A function whose normal form differs
is analysed exactly as written.

Steps (iterated to a fixpoint, then locals are renamed in order of first binding):
  S0  docstrings, annotations (parameters, returns, annotated assignments) and `pass` are dropped; `x: T = e` -> `x = e`
  S1  the T1-T4 canonicalisation of vf/canon.py (adjacent single-use temporaries, oriented comparisons, sorted +/- chains,
      isinstance unions as sorted tuples)
  S2  negations are pushed inwards (De Morgan, `not (a is b)` -> `a is not b`, `not (a == b)` -> `a != b`,
      `not (a in b)` -> `a not in b`, `not not a` -> `a` in a truth context); `x != ''`-style tests are left alone
  S3  a walrus in the test of an `if` statement is hoisted into an assignment in front of it
  S4  control-flow structuring: `if c: A else: B` with A ending in return/raise/continue/break -> `if c: A` followed by B;
      with only B terminating -> `if not c: B` followed by A; an `if` whose test is a negation and that has both branches gets
      its branches swapped; `if a: (if b: X)` without else branches -> `if a and b: X`; at the end of a function body,
      `if c: return` followed by S -> `if not c: S`
  S5  `if c: return A` followed by `return B` -> `return A if c else B`; `if c: x = A else: x = B` -> `x = A if c else B`
  S6  `xs = []` + `for t in it: [if g: continue]* xs.append(e)` (xs not read in it / g / e) -> `xs = [e for t in it if not g ...]`;
      a list comprehension that is the sole argument of join / tuple / list / set / frozenset / sorted / all / any / sum / max / min / dict
      becomes a generator expression; `for x in it: yield x` -> `yield from it`; `yield from (e for x in it)` ->
      `for x in it: yield e`
  S7  a local that is bound once, by a side-effect-free expression (names, constants, attribute and subscript chains, len() and
      arithmetic on them), is substituted at its uses, provided nothing between the binding and a use assigns a name the
      expression reads, or writes to / calls a mutating method on an object path the expression reads (for a plain reference chain:
      writes strictly below that path are harmless)
"""
from __future__ import annotations

import ast
import copy
import hashlib
import re
from typing import Optional

from .canon import canonicalise

TERMINATORS = (ast.Return, ast.Raise, ast.Continue, ast.Break)
CONSUMERS = {'tuple', 'list', 'set', 'frozenset', 'sorted', 'sum', 'max', 'min', 'dict'}      # consume their whole argument (all/any do not)
MUTATORS = {'append', 'extend', 'insert', 'pop', 'remove', 'clear', 'sort', 'reverse', 'update', 'add', 'discard', 'setdefault', 'popitem',
            'appendleft', 'extendleft', 'popleft', 'rebuild', 'splice', 'insert_after', 'insert_before', 'replace'}
PURE_FUNCS = {'len', 'isinstance', 'id', 'type', 'abs', 'min', 'max', 'bool', 'int', 'str', 'repr', 'tuple', 'range', 'format'}


def _u(e: ast.AST) -> str:
    return ast.unparse(e)


def terminates(body: list[ast.stmt]) -> bool:
    if not body:
        return False
    last = body[-1]
    if isinstance(last, TERMINATORS):
        return True
    if isinstance(last, ast.If) and last.orelse:
        return terminates(last.body) and terminates(last.orelse)
    return False


# ----------------------------------------------------------------------------- S2 negation normal form
def negate(e: ast.AST) -> ast.AST:
    if isinstance(e, ast.UnaryOp) and isinstance(e.op, ast.Not):
        return e.operand
    if isinstance(e, ast.BoolOp):
        op = ast.Or() if isinstance(e.op, ast.And) else ast.And()
        return ast.copy_location(ast.BoolOp(op=op, values=[negate(v) for v in e.values]), e)
    if isinstance(e, ast.Compare) and len(e.ops) == 1:
        flip = {ast.Is: ast.IsNot, ast.IsNot: ast.Is, ast.Eq: ast.NotEq, ast.NotEq: ast.Eq, ast.In: ast.NotIn, ast.NotIn: ast.In}
        t = type(e.ops[0])
        if t in flip:
            return ast.copy_location(ast.Compare(left=e.left, ops=[flip[t]()], comparators=e.comparators), e)
    if isinstance(e, ast.Constant) and isinstance(e.value, bool):
        return ast.copy_location(ast.Constant(value=not e.value), e)
    if isinstance(e, ast.Compare) and len(e.ops) == 1 and isinstance(e.ops[0], (ast.Lt, ast.LtE, ast.Gt, ast.GtE)) and (
            _inty(e.left) or _inty(e.comparators[0])):
        # integers are totally ordered: not (a < b) == b <= a   (written with < / <= only, as vf/canon.py orients comparisons)
        a, b = e.left, e.comparators[0]
        t = type(e.ops[0])
        new = {ast.Lt: (b, ast.LtE(), a), ast.LtE: (b, ast.Lt(), a), ast.Gt: (a, ast.LtE(), b), ast.GtE: (a, ast.Lt(), b)}[t]
        return ast.copy_location(ast.Compare(left=new[0], ops=[new[1]], comparators=[new[2]]), e)
    return ast.copy_location(ast.UnaryOp(op=ast.Not(), operand=e), e)


def _inty(e: ast.AST) -> bool:
    if isinstance(e, ast.Constant) and isinstance(e.value, int) and not isinstance(e.value, bool):
        return True
    if isinstance(e, ast.Call) and isinstance(e.func, ast.Name) and e.func.id == 'len':
        return True
    if isinstance(e, ast.UnaryOp) and isinstance(e.op, ast.USub):
        return _inty(e.operand)
    if isinstance(e, ast.BinOp) and isinstance(e.op, (ast.Add, ast.Sub)):
        return _inty(e.left) or _inty(e.right)
    return False


def neg_count(e: ast.AST) -> int:
    n = 0
    for x in ast.walk(e):
        if isinstance(x, ast.UnaryOp) and isinstance(x.op, ast.Not):
            n += 1
        if isinstance(x, ast.Compare):
            n += sum(isinstance(o, (ast.IsNot, ast.NotEq, ast.NotIn)) for o in x.ops)
    return n


def _prefer_negated(test: ast.AST) -> bool:
    """of a test and its negation, the canonical one has fewer negations; ties are broken by the text (both directions agree)"""
    n = negate(copy.deepcopy(test))
    a = (neg_count(test), _u(test))
    b = (neg_count(n), _u(n))
    return b < a


class _NNF(ast.NodeTransformer):
    def visit_UnaryOp(self, n: ast.UnaryOp) -> ast.AST:
        self.generic_visit(n)
        if isinstance(n.op, ast.Not):
            o = n.operand
            if isinstance(o, ast.Call) and isinstance(o.func, ast.Name) and o.func.id in ('any', 'all') and len(o.args) == 1 and not o.keywords \
                    and isinstance(o.args[0], (ast.GeneratorExp, ast.ListComp)):
                g = o.args[0]
                flipped = ast.GeneratorExp(elt=self.visit(ast.UnaryOp(op=ast.Not(), operand=g.elt)), generators=g.generators)
                return ast.copy_location(ast.Call(func=ast.Name(id='all' if o.func.id == 'any' else 'any', ctx=ast.Load()), args=[flipped], keywords=[]), n)
            if isinstance(o, ast.BoolOp) or (isinstance(o, ast.Compare) and len(o.ops) == 1 and isinstance(
                    o.ops[0], (ast.Is, ast.IsNot, ast.Eq, ast.NotEq, ast.In, ast.NotIn))):
                return self.visit(negate(o))
            if isinstance(o, ast.Compare) and len(o.ops) == 1 and isinstance(o.ops[0], (ast.Lt, ast.LtE, ast.Gt, ast.GtE)) and (
                    _inty(o.left) or _inty(o.comparators[0])):
                return negate(o)
            if isinstance(o, ast.UnaryOp) and isinstance(o.op, ast.Not) and isinstance(o.operand, (ast.Compare, ast.BoolOp)):
                return o.operand
        return n


# ----------------------------------------------------------------------------- statement-list rewrites
def _flatten_bool(e: ast.AST) -> ast.AST:
    if isinstance(e, ast.BoolOp):
        vals: list[ast.AST] = []
        for v in e.values:
            v = _flatten_bool(v)
            if isinstance(v, ast.BoolOp) and type(v.op) is type(e.op):
                vals.extend(v.values)
            else:
                vals.append(v)
        return ast.copy_location(ast.BoolOp(op=e.op, values=vals), e)
    return e


def _and(a: ast.AST, b: ast.AST) -> ast.AST:
    return _flatten_bool(ast.copy_location(ast.BoolOp(op=ast.And(), values=[a, b]), a))


# ----------------------------------------------------------------------------- decision tables over total atoms
def _total_atom(e: ast.AST) -> Optional[tuple[str, bool]]:
    """(atom text, polarity) for a test that cannot raise and has no side effect: a name, `name is [not] None`, isinstance(name, C),
    an attribute chain rooted at self (getters are pure: GETTER-NOWRITE), or a negation of one"""
    if isinstance(e, ast.UnaryOp) and isinstance(e.op, ast.Not):
        a = _total_atom(e.operand)
        return None if a is None else (a[0], not a[1])
    if isinstance(e, ast.Name):
        return (e.id, True)
    if isinstance(e, ast.Compare) and len(e.ops) == 1 and isinstance(e.ops[0], (ast.Is, ast.IsNot)) and isinstance(e.left, ast.Name) \
            and isinstance(e.comparators[0], ast.Constant) and e.comparators[0].value is None:
        return (f'{e.left.id} is None', isinstance(e.ops[0], ast.Is))
    if isinstance(e, ast.Call) and isinstance(e.func, ast.Name) and e.func.id == 'isinstance' and len(e.args) == 2 and isinstance(e.args[0], ast.Name) \
            and not any(isinstance(x, ast.Call) for x in ast.walk(e.args[1])):
        return (_u(e), True)
    if isinstance(e, ast.Attribute):
        x: ast.AST = e
        while isinstance(x, ast.Attribute):
            x = x.value
        if isinstance(x, ast.Name) and x.id == 'self':
            return (_u(e), True)
    return None


def _atoms_of(test: ast.AST) -> Optional[list[str]]:
    if isinstance(test, ast.BoolOp):
        out: list[str] = []
        for v in test.values:
            a = _atoms_of(v)
            if a is None:
                return None
            out += a
        return out
    if isinstance(test, ast.UnaryOp) and isinstance(test.op, ast.Not) and isinstance(test.operand, ast.BoolOp):
        return _atoms_of(test.operand)
    a1 = _total_atom(test)
    return None if a1 is None else [a1[0]]


def _eval_test(test: ast.AST, val: dict[str, bool]) -> bool:
    if isinstance(test, ast.BoolOp):
        vs = [_eval_test(v, val) for v in test.values]
        return all(vs) if isinstance(test.op, ast.And) else any(vs)
    if isinstance(test, ast.UnaryOp) and isinstance(test.op, ast.Not) and isinstance(test.operand, ast.BoolOp):
        return not _eval_test(test.operand, val)
    a = _total_atom(test)
    assert a is not None
    return val[a[0]] == a[1]


def _atom_expr(text: str) -> ast.AST:
    return ast.parse(text, mode='eval').body


def decision_normalise(st: ast.If) -> Optional[list[ast.stmt]]:
    """canonical nested ifs for a region of if/elif/else (and directly nested ifs) whose tests are built from total atoms only"""
    atoms: list[str] = []
    leaves: list[list[ast.stmt]] = []
    n_tests = [0]

    def region(node: ast.stmt) -> bool:
        return isinstance(node, ast.If) and _atoms_of(node.test) is not None

    def collect(body: list[ast.stmt]) -> Optional[object]:
        # a body that is exactly one region-if continues the region; anything else is a leaf
        if len(body) == 1 and region(body[0]):
            i = body[0]
            assert isinstance(i, ast.If)
            n_tests[0] += 1
            for a in _atoms_of(i.test) or []:
                if a not in atoms:
                    atoms.append(a)
            return ('if', i.test, collect(i.body), collect(i.orelse))
        leaves.append(body)
        return ('leaf', len(leaves) - 1)

    tree = collect([st])
    if n_tests[0] < 2 or len(atoms) > 4 or len(atoms) < 2:
        return None
    # assignments to an atom's variable inside a leaf are fine (the leaf is the end of the region)
    atoms_sorted = sorted(atoms)

    def run(t: object, val: dict[str, bool]) -> int:
        assert isinstance(t, tuple)
        if t[0] == 'leaf':
            return t[1]
        return run(t[2] if _eval_test(t[1], val) else t[3], val)

    import itertools as _it
    table = {}
    for bits in _it.product([True, False], repeat=len(atoms_sorted)):
        val = dict(zip(atoms_sorted, bits))
        table[bits] = run(tree, val)
    # leaves are identified by their dump (two textually equal leaves are one action)
    key_of = {i: ast.dump(ast.Module(body=l or [ast.Pass()], type_ignores=[])) for i, l in enumerate(leaves)}

    def _build_rows(sub: dict, k: int) -> list[ast.stmt]:
        kinds = {key_of[x] for x in sub.values()}
        if len(kinds) == 1:
            return copy.deepcopy(leaves[next(iter(sub.values()))])
        for j in range(len(atoms_sorted)):
            vals = {b[j] for b in sub}
            if len(vals) < 2:
                continue
            differs = any(key_of[sub[b]] != key_of[sub.get(b[:j] + (not b[j],) + b[j + 1:], sub[b])] for b in sub)
            if differs:
                pos = _build_rows({b: x for b, x in sub.items() if b[j]}, j + 1)
                neg = _build_rows({b: x for b, x in sub.items() if not b[j]}, j + 1)
                return [ast.If(test=_atom_expr(atoms_sorted[j]), body=pos or [ast.Pass()], orelse=neg)]
        return copy.deepcopy(leaves[next(iter(sub.values()))])

    return _build_rows(dict(table), 0)


def _callfree(e: ast.AST) -> bool:
    return not any(isinstance(x, (ast.Call, ast.Yield, ast.YieldFrom, ast.Await, ast.NamedExpr, ast.Lambda, ast.ListComp, ast.GeneratorExp,
                                  ast.SetComp, ast.DictComp)) for x in ast.walk(e))


def _merge_stmts(a: ast.stmt, b: ast.stmt, test: ast.AST) -> Optional[ast.stmt]:
    """`if c: S[A] else: S[B]` -> `S[A if c else B]` when the two statements differ in exactly one sub-expression, A and B are
    call-free, and everything the statement evaluates before that position is call-free too (so evaluating c later changes nothing)"""
    diffs: list[tuple[ast.AST, str, Optional[int], ast.AST, ast.AST]] = []
    before_ok = [True]

    def walk(x: ast.AST, y: ast.AST, holder: Optional[ast.AST], field: str, idx: Optional[int]) -> bool:
        if ast.dump(x) == ast.dump(y):
            if not diffs and isinstance(x, ast.Call):
                before_ok[0] = before_ok[0] and False if False else before_ok[0]
            return True
        if type(x) is not type(y) or isinstance(x, (ast.expr_context, ast.operator, ast.cmpop, ast.boolop, ast.unaryop)):
            if holder is None or not isinstance(x, ast.expr) or not isinstance(y, ast.expr):
                return False
            diffs.append((holder, field, idx, x, y))
            return True
        # same node type: compare children; if more than one child differs, or a non-expression differs, treat this node as the difference
        sub: list[tuple] = []
        for fname, xv in ast.iter_fields(x):
            yv = getattr(y, fname)
            if isinstance(xv, list) and isinstance(yv, list):
                if len(xv) != len(yv):
                    sub.append(None)
                    continue
                for k, (p, q) in enumerate(zip(xv, yv)):
                    if isinstance(p, ast.AST) and isinstance(q, ast.AST):
                        if ast.dump(p) != ast.dump(q):
                            sub.append((fname, k, p, q))
                    elif p != q:
                        sub.append(None)
            elif isinstance(xv, ast.AST) and isinstance(yv, ast.AST):
                if ast.dump(xv) != ast.dump(yv):
                    sub.append((fname, None, xv, yv))
            elif xv != yv:
                sub.append(None)
        if len(sub) == 1 and sub[0] is not None:
            fname, k, p, q = sub[0]
            return walk(p, q, x, fname, k)
        if holder is None or not isinstance(x, ast.expr):
            return False
        diffs.append((holder, field, idx, x, y))
        return True

    a2, b2 = copy.deepcopy(a), copy.deepcopy(b)
    if not walk(a2, b2, None, '', None) or len(diffs) != 1:
        return None
    holder, field, idx, x, y = diffs[0]
    if not _callfree(x) or not _callfree(y) or isinstance(x, ast.Starred) or isinstance(holder, (ast.Assign,)) and field == 'targets':
        return None
    if isinstance(getattr(x, 'ctx', None), (ast.Store, ast.Del)):
        return None
    # everything evaluated before the differing position must be call-free: check all sub-expressions of the statement that are not
    # inside the differing expression and precede it in source order
    pos = (getattr(x, 'lineno', 0), getattr(x, 'col_offset', 0))
    for n_ in ast.walk(a2):
        if isinstance(n_, ast.Call) and not any(n_ is z for z in ast.walk(x)):
            npos = (getattr(n_.func, 'lineno', 0), getattr(n_.func, 'col_offset', 0))
            # a call whose callee expression starts before the differing position but which *contains* that position is the enclosing call:
            # its callee must be a call-free expression (checked by the loop over inner calls); calls lying entirely before are not allowed
            if not any(x is z for z in ast.walk(n_)) and npos < pos:
                return None
    ife = ast.copy_location(ast.IfExp(test=copy.deepcopy(test), body=x, orelse=y), x)
    if idx is None:
        setattr(holder, field, ife)
    else:
        getattr(holder, field)[idx] = ife
    return a2


def _reads_free(node: ast.AST, name: str) -> bool:
    """does node read the variable `name` of the enclosing function scope (occurrences bound by a comprehension of their own do not count)?"""
    if isinstance(node, ast.Name):
        return node.id == name
    if isinstance(node, (ast.ListComp, ast.SetComp, ast.GeneratorExp, ast.DictComp)):
        bound = {x.id for g in node.generators for x in ast.walk(g.target) if isinstance(x, ast.Name)}
        if name in bound:
            return _reads_free(node.generators[0].iter, name)      # only the first iterable is evaluated outside the comprehension
    if isinstance(node, ast.Lambda):
        if name in {a.arg for a in [*node.args.posonlyargs, *node.args.args, *node.args.kwonlyargs]}:
            return False
    return any(_reads_free(ch, name) for ch in ast.iter_child_nodes(node))


def _first_walrus(e: ast.AST) -> Optional[tuple]:
    """(holder, field, index) of a walrus that is the first thing the expression evaluates"""
    holder: Optional[ast.AST] = None
    field, idx = '', None
    cur = e
    while True:
        if isinstance(cur, ast.NamedExpr):
            return (holder, field, idx) if holder is not None else None
        if isinstance(cur, ast.Compare):
            holder, field, idx, cur = cur, 'left', None, cur.left
        elif isinstance(cur, ast.BoolOp):
            holder, field, idx, cur = cur, 'values', 0, cur.values[0]
        elif isinstance(cur, ast.UnaryOp):
            holder, field, idx, cur = cur, 'operand', None, cur.operand
        elif isinstance(cur, ast.Attribute):
            holder, field, idx, cur = cur, 'value', None, cur.value
        elif isinstance(cur, ast.Subscript):
            holder, field, idx, cur = cur, 'value', None, cur.value
        else:
            return None


class Structurer:
    """S3-S6 on statement lists; `tail` tells whether falling off the list ends the function"""

    def __init__(self, void: bool = False, local_lists: Optional[set] = None) -> None:
        self.changed = False
        self.local_lists = local_lists or set()
        self.void = void          # the function returns no value anywhere (only bare returns): a trailing bare return is a no-op

    def block(self, body: list[ast.stmt], tail: bool, loop_tail: bool = False) -> list[ast.stmt]:
        body = [s for s in body if not isinstance(s, ast.Pass)]
        if loop_tail and body and isinstance(body[-1], ast.Continue):
            body = body[:-1]
            self.changed = True
        if tail and body and isinstance(body[-1], ast.Return) and _none_return(body[-1]) and self.void:
            body = body[:-1]
            self.changed = True
        out: list[ast.stmt] = []
        i = 0
        while i < len(body):
            st = body[i]
            rest = body[i + 1:]
            last = not rest
            # `for a, b in ((x1, y1), (x2, y2)): S` over a literal of call-free elements, body without break/continue -> unrolled
            if isinstance(st, ast.For) and not st.orelse and isinstance(st.iter, (ast.Tuple, ast.List)) and 1 <= len(st.iter.elts) <= 40 \
                    and all(_callfree(e) and not isinstance(e, ast.Starred) for e in st.iter.elts) \
                    and not any(isinstance(x, (ast.Break, ast.Continue, ast.Yield, ast.YieldFrom)) for b_ in st.body for x in ast.walk(b_)) \
                    and (isinstance(st.target, ast.Name) or (isinstance(st.target, ast.Tuple) and all(isinstance(t, ast.Name) for t in st.target.elts)
                                                           and all(isinstance(e, ast.Tuple) and len(e.elts) == len(st.target.elts) for e in st.iter.elts))):
                tvars = [st.target.id] if isinstance(st.target, ast.Name) else [t.id for t in st.target.elts]
                stored_in_body = {x.id for b_ in st.body for x in ast.walk(b_) if isinstance(x, ast.Name) and isinstance(x.ctx, (ast.Store, ast.Del))}
                used_after = {x.id for r_ in rest for x in ast.walk(r_) if isinstance(x, ast.Name)}
                if not (set(tvars) & stored_in_body) and not (set(tvars) & used_after):
                    unrolled: list[ast.stmt] = []
                    for e in st.iter.elts:
                        vals = [e] if isinstance(st.target, ast.Name) else list(e.elts)
                        for b_ in st.body:
                            nb = copy.deepcopy(b_)
                            for tv, vv in zip(tvars, vals):
                                nb = _SubstName(tv, vv).visit(nb)
                            unrolled.append(nb)
                    body = body[:i] + unrolled + body[i + 1:]
                    self.changed = True
                    continue
            # recurse first
            if isinstance(st, ast.If):
                st.body = self.block(st.body, tail and last, loop_tail and last)
                st.orelse = self.block(st.orelse, tail and last, loop_tail and last)
                if not st.body and st.orelse:
                    st.test = negate(st.test)
                    st.body, st.orelse = st.orelse, []
                    self.changed = True
                if not st.body and not st.orelse:
                    st.body = [ast.Pass()]
                # loop tail: `if c: continue` + rest -> `if not c: rest`;  `if c: X; continue` + rest -> `if c: X else: rest`
                if loop_tail and not st.orelse and st.body and isinstance(st.body[-1], ast.Continue) and rest \
                        and not any(isinstance(x, (ast.For, ast.While)) for s_ in st.body for x in ast.walk(s_)):
                    pre = st.body[:-1]
                    tail_rest = self.block(rest, tail, True)
                    if pre:
                        st.body, st.orelse = pre, tail_rest
                    else:
                        st.test = negate(st.test)
                        st.body = tail_rest
                    if not st.body:
                        st.body = [ast.Pass()]
                    out.append(st)
                    self.changed = True
                    return out
                # S3 walrus hoist
                w = st.test
                fw = _first_walrus(w)
                if fw is not None and not isinstance(w, ast.NamedExpr) and not (
                        isinstance(w, ast.BoolOp) and isinstance(w.values[0], ast.NamedExpr)):
                    holder, field, idx = fw
                    ne = getattr(holder, field) if idx is None else getattr(holder, field)[idx]
                    out.append(ast.copy_location(ast.Assign(targets=[ast.Name(id=ne.target.id, ctx=ast.Store())], value=ne.value), st))
                    repl = ast.copy_location(ast.Name(id=ne.target.id, ctx=ast.Load()), ne)
                    if idx is None:
                        setattr(holder, field, repl)
                    else:
                        getattr(holder, field)[idx] = repl
                    self.changed = True
                elif isinstance(w, ast.NamedExpr):
                    out.append(ast.copy_location(ast.Assign(targets=[ast.Name(id=w.target.id, ctx=ast.Store())], value=w.value), st))
                    st.test = ast.copy_location(ast.Name(id=w.target.id, ctx=ast.Load()), w)
                    self.changed = True
                elif isinstance(w, ast.BoolOp) and isinstance(w.op, ast.And) and isinstance(w.values[0], ast.NamedExpr):
                    w0 = w.values[0]
                    out.append(ast.copy_location(ast.Assign(targets=[ast.Name(id=w0.target.id, ctx=ast.Store())], value=w0.value), st))
                    w.values[0] = ast.copy_location(ast.Name(id=w0.target.id, ctx=ast.Load()), w0)
                    self.changed = True
                # S4 structuring
                if st.orelse and terminates(st.body) and terminates(st.orelse) and _prefer_negated(st.test):
                    st.test = negate(st.test)
                    st.body, st.orelse = st.orelse, st.body
                    self.changed = True
                if st.orelse and terminates(st.body):
                    tail_else = st.orelse
                    st.orelse = []
                    body = body[:i + 1] + tail_else + rest
                    self.changed = True
                    rest = body[i + 1:]
                elif st.orelse and terminates(st.orelse):
                    st.test = negate(st.test)
                    new_tail = st.body
                    st.body, st.orelse = st.orelse, []
                    body = body[:i + 1] + new_tail + rest
                    self.changed = True
                    rest = body[i + 1:]
                elif st.orelse and _prefer_negated(st.test):
                    st.test = negate(st.test)
                    st.body, st.orelse = st.orelse, st.body
                    self.changed = True
                if not st.orelse and len(st.body) == 1 and isinstance(st.body[0], ast.If) and not st.body[0].orelse \
                        and not isinstance(st.body[0].test, ast.NamedExpr):
                    inner = st.body[0]
                    st.test = _and(st.test, inner.test)
                    st.body = inner.body
                    self.changed = True
                # tail: `if c: X; return` + rest  ->  `if c: X else: rest`   (X non-empty; a bare return at the end of a function is a no-op)
                if tail and not st.orelse and len(st.body) >= 2 and isinstance(st.body[-1], ast.Return) and _none_return(st.body[-1]) \
                        and rest and not _has_return_value(rest) and not _has_return_value(st.body):
                    st.body = st.body[:-1]
                    st.orelse = self.block(rest, True)
                    if _prefer_negated(st.test):
                        st.test = negate(st.test)
                        st.body, st.orelse = st.orelse, st.body
                    out.append(st)
                    self.changed = True
                    return out
                # tail `if c: return` + rest  ->  `if not c: rest`
                if tail and not st.orelse and len(st.body) == 1 and isinstance(st.body[0], ast.Return) and (
                        st.body[0].value is None or (isinstance(st.body[0].value, ast.Constant) and st.body[0].value.value is None)) \
                        and rest and not _has_return_value(rest):
                    st.test = negate(st.test)
                    st.body = self.block(rest, True)
                    out.append(st)
                    self.changed = True
                    return out
                # `if a: T` + `if b: T` with the same terminating body T  ->  `if a or b: T`
                if not st.orelse and terminates(st.body) and rest and isinstance(rest[0], ast.If) and not rest[0].orelse \
                        and ast.dump(ast.Module(body=st.body, type_ignores=[])) == ast.dump(ast.Module(body=rest[0].body, type_ignores=[])) \
                        and not isinstance(rest[0].test, ast.NamedExpr) and _first_walrus(rest[0].test) is None:
                    st.test = _flatten_bool(ast.copy_location(ast.BoolOp(op=ast.Or(), values=[st.test, rest[0].test]), st))
                    body = body[:i + 1] + rest[1:]
                    rest = body[i + 1:]
                    self.changed = True
                    continue
                # guard polarity: `if c: A(terminates)` + B(terminates)  ==  `if not c: B` + A
                if not st.orelse and terminates(st.body) and rest and terminates(rest) and _prefer_negated(st.test):
                    st.test = negate(st.test)
                    st.body, rest = self.block(rest, tail), st.body
                    body = body[:i + 1] + rest
                    self.changed = True
                # tail duplication: `if c: A` + `return e` (e without calls)  ->  `if c: A; return e` + `return e`
                if not st.orelse and not terminates(st.body) and len(rest) == 1 and isinstance(rest[0], ast.Return) \
                        and (rest[0].value is None or not any(isinstance(x, (ast.Call, ast.Yield, ast.YieldFrom, ast.Await, ast.NamedExpr))
                                                              for x in ast.walk(rest[0].value))) \
                        and not any(isinstance(x, (ast.For, ast.While)) for x in ast.walk(st)) and tail:
                    st.body = st.body + [copy.deepcopy(rest[0])]
                    self.changed = True
                # S5 return-IfExp
                if not st.orelse and len(st.body) == 1 and isinstance(st.body[0], ast.Return) and st.body[0].value is not None \
                        and rest and isinstance(rest[0], ast.Return) and rest[0].value is not None:
                    r = ast.copy_location(ast.Return(value=ast.copy_location(
                        ast.IfExp(test=st.test, body=st.body[0].value, orelse=rest[0].value), st)), st)
                    out.append(r)
                    self.changed = True
                    return out
                if st.orelse and len(st.body) == 1 and len(st.orelse) == 1 and type(st.body[0]) is type(st.orelse[0]) \
                        and isinstance(st.body[0], (ast.Expr, ast.Return, ast.Assign)):
                    merged = _merge_stmts(st.body[0], st.orelse[0], st.test)
                    if merged is not None:
                        out.append(merged)
                        self.changed = True
                        i += 1
                        continue
                if st.orelse and len(st.body) == 1 and len(st.orelse) == 1 and isinstance(st.body[0], ast.Assign) and isinstance(st.orelse[0], ast.Assign) \
                        and len(st.body[0].targets) == 1 and len(st.orelse[0].targets) == 1 and _u(st.body[0].targets[0]) == _u(st.orelse[0].targets[0]) \
                        and isinstance(st.body[0].targets[0], ast.Name):
                    a = ast.copy_location(ast.Assign(targets=st.body[0].targets, value=ast.copy_location(
                        ast.IfExp(test=st.test, body=st.body[0].value, orelse=st.orelse[0].value), st)), st)
                    out.append(a)
                    self.changed = True
                    i += 1
                    continue
                out.append(st)
                i += 1
                continue
            if isinstance(st, (ast.For, ast.While)):
                st.body = self.block(st.body, False, True) or [ast.Pass()]
                st.orelse = self.block(st.orelse, False)
                # `while True: if X: break; BODY`  ->  `while not X: BODY`   (no else clause; repeated for several leading guards)
                while isinstance(st, ast.While) and not st.orelse and len(st.body) >= 2 and isinstance(st.body[0], ast.If) \
                        and not st.body[0].orelse and len(st.body[0].body) == 1 and isinstance(st.body[0].body[0], ast.Break) \
                        and _first_walrus(st.body[0].test) is None and not isinstance(st.body[0].test, ast.NamedExpr):
                    guard = negate(st.body[0].test)
                    if isinstance(st.test, ast.Constant) and st.test.value is True:
                        st.test = guard
                    else:
                        st.test = _and(st.test, guard)
                    st.body = st.body[1:]
                    self.changed = True
                # search loop:  for x in it: if C: break / else: BODY   ->   if not any(C for x in it): BODY
                # (the loop variable must not be read after the loop; C is evaluated for the same elements in the same order, stopping
                # at the first true one, exactly as any() does)
                if isinstance(st, ast.For) and st.orelse and len(st.body) == 1 and isinstance(st.body[0], ast.If) and not st.body[0].orelse \
                        and len(st.body[0].body) == 1 and isinstance(st.body[0].body[0], ast.Break) and isinstance(st.target, ast.Name) \
                        and _first_walrus(st.body[0].test) is None \
                        and not any(_reads_free(later, st.target.id) for later in body[i + 1:]) \
                        and not any(_reads_free(later, st.target.id) for later in st.orelse) \
                        and not any(isinstance(x, (ast.Break, ast.Continue)) for later in st.orelse for x in ast.walk(later)):
                    gen = ast.GeneratorExp(elt=st.body[0].test, generators=[ast.comprehension(target=st.target, iter=st.iter, ifs=[], is_async=0)])
                    test = ast.UnaryOp(op=ast.Not(), operand=ast.Call(func=ast.Name(id='any', ctx=ast.Load()), args=[gen], keywords=[]))
                    new_if = ast.copy_location(ast.If(test=test, body=st.orelse, orelse=[]), st)
                    ast.fix_missing_locations(new_if)
                    body = body[:i] + [new_if] + body[i + 1:]
                    self.changed = True
                    continue
                # S6 for x in it: yield x  -> yield from it
                if isinstance(st, ast.For) and not st.orelse and len(st.body) == 1 and isinstance(st.body[0], ast.Expr) \
                        and isinstance(st.body[0].value, ast.Yield) and isinstance(st.target, ast.Name) \
                        and isinstance(st.body[0].value.value, ast.Name) and st.body[0].value.value.id == st.target.id:
                    out.append(ast.copy_location(ast.Expr(value=ast.YieldFrom(value=st.iter)), st))
                    self.changed = True
                    i += 1
                    continue
                # S6 accumulate loop -> comprehension
                if isinstance(st, ast.For) and not st.orelse and out and isinstance(out[-1], ast.Assign) and len(out[-1].targets) == 1 \
                        and isinstance(out[-1].targets[0], ast.Name) and isinstance(out[-1].value, ast.List) and not out[-1].value.elts:
                    acc = out[-1].targets[0].id
                    comp = _loop_to_comp(st, acc)
                    if comp is not None:
                        out[-1] = ast.copy_location(ast.Assign(targets=out[-1].targets, value=comp), out[-1])
                        self.changed = True
                        i += 1
                        continue
                out.append(st)
                i += 1
                continue
            # `x += e` on a local that was bound to a list display in this function -> x.extend(e)
            if isinstance(st, ast.AugAssign) and isinstance(st.op, ast.Add) and isinstance(st.target, ast.Name) and st.target.id in self.local_lists:
                st = ast.copy_location(ast.Expr(value=ast.Call(func=ast.Attribute(value=ast.Name(id=st.target.id, ctx=ast.Load()), attr='extend', ctx=ast.Load()),
                                                               args=[st.value], keywords=[])), st)
                body[i] = st
                self.changed = True
            # `a, b = (x, y)` with call-free right-hand sides that do not read the targets -> a = x; b = y
            if isinstance(st, ast.Assign) and len(st.targets) == 1 and isinstance(st.targets[0], ast.Tuple) and isinstance(st.value, ast.Tuple) \
                    and len(st.targets[0].elts) == len(st.value.elts) and len(st.value.elts) >= 2 and all(_callfree(v) for v in st.value.elts) \
                    and not any(isinstance(t, ast.Starred) for t in st.targets[0].elts):
                tnames = {_u(t) for t in st.targets[0].elts}
                reads = {_u(x) for v in st.value.elts for x in ast.walk(v) if isinstance(x, (ast.Name, ast.Attribute))}
                if not (tnames & reads) and all(isinstance(t, (ast.Name, ast.Attribute)) for t in st.targets[0].elts):
                    news = [ast.copy_location(ast.Assign(targets=[t], value=v), st) for t, v in zip(st.targets[0].elts, st.value.elts)]
                    body = body[:i] + news + body[i + 1:]
                    self.changed = True
                    continue
            # `x.extend([e1, *e2, ..])` on a local list x that the elements do not mention -> x.append(e1); x.extend(e2); ..
            if isinstance(st, ast.Expr) and isinstance(st.value, ast.Call) and isinstance(st.value.func, ast.Attribute) \
                    and st.value.func.attr == 'extend' and isinstance(st.value.func.value, ast.Name) and len(st.value.args) == 1 \
                    and not st.value.keywords and isinstance(st.value.args[0], ast.List) and len(st.value.args[0].elts) >= 1 \
                    and not any(isinstance(y, ast.Name) and y.id == st.value.func.value.id for y in ast.walk(st.value.args[0])):
                xn = st.value.func.value
                new_stmts: list[ast.stmt] = []
                for el in st.value.args[0].elts:
                    meth, arg = ('extend', el.value) if isinstance(el, ast.Starred) else ('append', el)
                    new_stmts.append(ast.copy_location(ast.Expr(value=ast.Call(func=ast.Attribute(value=ast.Name(id=xn.id, ctx=ast.Load()), attr=meth,
                                                                                       ctx=ast.Load()), args=[arg], keywords=[])), st))
                body = body[:i] + new_stmts + body[i + 1:]
                self.changed = True
                continue
            # `x = [..]` followed by x.append(e) / x.extend(e) statements -> one list display (same evaluation order)
            if isinstance(st, ast.Assign) and len(st.targets) == 1 and isinstance(st.targets[0], ast.Name) and isinstance(st.value, ast.List):
                xname = st.targets[0].id
                k = i + 1
                elts = list(st.value.elts)
                while k < len(body):
                    nx = body[k]
                    if isinstance(nx, ast.Expr) and isinstance(nx.value, ast.Call) and isinstance(nx.value.func, ast.Attribute) \
                            and isinstance(nx.value.func.value, ast.Name) and nx.value.func.value.id == xname \
                            and nx.value.func.attr in ('append', 'extend') and len(nx.value.args) == 1 and not nx.value.keywords \
                            and not any(isinstance(y, ast.Name) and y.id == xname for y in ast.walk(nx.value.args[0])):
                        a0 = nx.value.args[0]
                        elts.append(a0 if nx.value.func.attr == 'append' else ast.copy_location(ast.Starred(value=a0, ctx=ast.Load()), a0))
                        k += 1
                    else:
                        break
                if k > i + 1:
                    st.value = ast.copy_location(ast.List(elts=elts, ctx=ast.Load()), st.value)
                    body = body[:i + 1] + body[k:]
                    self.changed = True
            if isinstance(st, ast.With):
                st.body = self.block(st.body, False)
            elif isinstance(st, ast.Try):
                st.body = self.block(st.body, False)
                for h in st.handlers:
                    h.body = self.block(h.body, False)
                st.orelse = self.block(st.orelse, False)
                st.finalbody = self.block(st.finalbody, False)
            elif isinstance(st, ast.Expr) and isinstance(st.value, ast.YieldFrom) and isinstance(st.value.value, ast.GeneratorExp) \
                    and len(st.value.value.generators) == 1 and not st.value.value.generators[0].is_async:
                g = st.value.value.generators[0]
                inner: ast.stmt = ast.copy_location(ast.Expr(value=ast.Yield(value=st.value.value.elt)), st)
                for c in reversed(g.ifs):
                    inner = ast.copy_location(ast.If(test=c, body=[inner], orelse=[]), st)
                out.append(ast.copy_location(ast.For(target=g.target, iter=g.iter, body=[inner], orelse=[]), st))
                self.changed = True
                i += 1
                continue
            out.append(st)
            i += 1
        return out


def _none_return(r: ast.Return) -> bool:
    return r.value is None or (isinstance(r.value, ast.Constant) and r.value.value is None)


def _has_return_value(body: list[ast.stmt]) -> bool:
    for s in body:
        for x in ast.walk(s):
            if isinstance(x, (ast.FunctionDef, ast.Lambda)):
                continue
            if isinstance(x, ast.Return) and x.value is not None and not (isinstance(x.value, ast.Constant) and x.value.value is None):
                return True
            if isinstance(x, (ast.Yield, ast.YieldFrom)):
                return True
    return False


def _loop_to_comp(loop: ast.For, acc: str) -> Optional[ast.ListComp]:
    """`for t in it: [if g: continue]* acc.append(e)` or `for t in it: if c: acc.append(e)`"""
    conds: list[ast.AST] = []
    body = list(loop.body)
    while body and isinstance(body[0], ast.If) and not body[0].orelse and len(body[0].body) == 1 and isinstance(body[0].body[0], ast.Continue):
        conds.append(negate(body[0].test))
        body = body[1:]
    if len(body) == 1 and isinstance(body[0], ast.If) and not body[0].orelse:
        conds.append(body[0].test)
        body = body[0].body
    if len(body) != 1 or not (isinstance(body[0], ast.Expr) and isinstance(body[0].value, ast.Call)):
        return None
    c = body[0].value
    if not (isinstance(c.func, ast.Attribute) and c.func.attr == 'append' and isinstance(c.func.value, ast.Name) and c.func.value.id == acc
            and len(c.args) == 1 and not c.keywords):
        return None
    for e in [loop.iter, *conds, c.args[0]]:
        if any(isinstance(x, ast.Name) and x.id == acc for x in ast.walk(e)):
            return None
        if any(isinstance(x, (ast.Yield, ast.YieldFrom, ast.Await, ast.NamedExpr)) for x in ast.walk(e)):
            return None
    flat: list[ast.AST] = []
    for cnd in conds:
        if isinstance(cnd, ast.BoolOp) and isinstance(cnd.op, ast.And):
            flat.extend(cnd.values)
        else:
            flat.append(cnd)
    return ast.copy_location(ast.ListComp(elt=c.args[0], generators=[ast.comprehension(target=loop.target, iter=loop.iter, ifs=flat, is_async=0)]), loop)


def _boolish(e: ast.AST) -> bool:
    if isinstance(e, ast.Compare):
        return True
    if isinstance(e, ast.UnaryOp) and isinstance(e.op, ast.Not):
        return True
    if isinstance(e, ast.BoolOp):
        return all(_boolish(v) for v in e.values)
    if isinstance(e, ast.Call) and isinstance(e.func, ast.Name) and e.func.id in ('isinstance', 'issubclass', 'bool', 'all', 'any', 'callable', 'hasattr'):
        return True
    if isinstance(e, ast.Constant) and isinstance(e.value, bool):
        return True
    return False


def _strlit(e: ast.AST) -> bool:
    if isinstance(e, ast.Constant) and isinstance(e.value, str):
        return True
    return isinstance(e, ast.IfExp) and _strlit(e.body) and _strlit(e.orelse)


def _strish(e: ast.AST) -> bool:
    """certainly a str: literal, str()/repr()/format() call, or a choice / concatenation of such"""
    if _strlit(e):
        return True
    if isinstance(e, ast.Call) and isinstance(e.func, ast.Name) and e.func.id in ('str', 'repr', 'format', 'ascii'):
        return True
    if isinstance(e, ast.IfExp):
        return _strish(e.body) and _strish(e.orelse)
    if isinstance(e, ast.BinOp) and isinstance(e.op, ast.Add):
        return _strish(e.left) and _strish(e.right)
    return False


def _plus_chain(e: ast.AST) -> list[ast.AST]:
    if isinstance(e, ast.BinOp) and isinstance(e.op, ast.Add):
        return _plus_chain(e.left) + _plus_chain(e.right)
    return [e]


def _join_plus(parts: list[ast.AST]) -> ast.AST:
    out = parts[0]
    for p_ in parts[1:]:
        out = ast.BinOp(left=out, op=ast.Add(), right=p_)
    return out


class _Exprs(ast.NodeTransformer):
    """conditional expressions and formatted strings"""

    def visit_BoolOp(self, n: ast.BoolOp) -> ast.AST:
        self.generic_visit(n)
        if isinstance(n.op, ast.Or):
            # in a non-last position of an `or` chain only the truth of the operand matters when it is falsy:
            # `(X if C else None) or Y`  ==  `(C and X) or Y`
            for k, v in enumerate(n.values[:-1]):
                if isinstance(v, ast.IfExp) and isinstance(v.orelse, ast.Constant) and v.orelse.value is None:
                    n.values[k] = ast.copy_location(ast.BoolOp(op=ast.And(), values=[v.test, v.body]), v)
        return _flatten_bool(n)

    def visit_Compare(self, n: ast.Compare) -> ast.AST:
        self.generic_visit(n)
        if len(n.ops) >= 2 and all(_callfree(c) for c in n.comparators[:-1]):
            # a <= b <= c  ->  a <= b and b <= c   (b is call-free: evaluating it twice is the same)
            parts_, left = [], n.left
            for op, c in zip(n.ops, n.comparators):
                parts_.append(ast.copy_location(ast.Compare(left=copy.deepcopy(left), ops=[op], comparators=[c]), n))
                left = c
            return self.visit(ast.copy_location(ast.BoolOp(op=ast.And(), values=parts_), n))
        # `x in ('a', 'b')` with a call-free x and literal alternatives -> `x == 'a' or x == 'b'`
        if len(n.ops) == 1 and isinstance(n.ops[0], (ast.In, ast.NotIn)) and isinstance(n.comparators[0], (ast.Tuple, ast.List, ast.Set)) \
                and n.comparators[0].elts and all(isinstance(e, ast.Constant) and isinstance(e.value, (str, int)) for e in n.comparators[0].elts) \
                and _callfree(n.left):
            eq = isinstance(n.ops[0], ast.In)
            parts = [ast.copy_location(ast.Compare(left=copy.deepcopy(n.left), ops=[ast.Eq() if eq else ast.NotEq()], comparators=[e]), n)
                     for e in n.comparators[0].elts]
            if len(parts) == 1:
                return parts[0]
            return ast.copy_location(ast.BoolOp(op=ast.Or() if eq else ast.And(), values=parts), n)
        return n

    def visit_Call(self, n: ast.Call) -> ast.AST:
        self.generic_visit(n)
        # str(<string literal or a choice of string literals>) is that string
        if isinstance(n.func, ast.Name) and n.func.id == 'str' and len(n.args) == 1 and not n.keywords:
            a = n.args[0]
            if _strlit(a):
                return a
        # getattr(x, '<identifier>') is x.<identifier>
        if isinstance(n.func, ast.Name) and n.func.id == 'getattr' and len(n.args) == 2 and not n.keywords and isinstance(n.args[1], ast.Constant) \
                and isinstance(n.args[1].value, str) and n.args[1].value.isidentifier() and not n.args[1].value.startswith('__'):
            return ast.copy_location(ast.Attribute(value=n.args[0], attr=n.args[1].value, ctx=ast.Load()), n)
        return n

    def visit_Expr(self, n: ast.Expr) -> ast.AST:
        self.generic_visit(n)
        # setattr(x, '<identifier>', v) as a statement is x.<identifier> = v
        c = n.value
        if isinstance(c, ast.Call) and isinstance(c.func, ast.Name) and c.func.id == 'setattr' and len(c.args) == 3 and not c.keywords \
                and isinstance(c.args[1], ast.Constant) and isinstance(c.args[1].value, str) and c.args[1].value.isidentifier() \
                and not c.args[1].value.startswith('__'):
            return ast.copy_location(ast.Assign(targets=[ast.Attribute(value=c.args[0], attr=c.args[1].value, ctx=ast.Store())], value=c.args[2]), n)
        return n

    def visit_IfExp(self, n: ast.IfExp) -> ast.AST:
        self.generic_visit(n)
        # common prefix / suffix of two concatenations: `(P + x + S) if c else (P + y + S)` -> `P + (x if c else y) + S`
        # (P and S only call pure builtins, so evaluating them before c changes nothing)
        fa, fb = _plus_chain(n.body), _plus_chain(n.orelse)
        if len(fa) >= 2 and len(fb) >= 2:
            pre = 0
            while pre < min(len(fa), len(fb)) - 1 and ast.dump(fa[pre]) == ast.dump(fb[pre]) and _pure(fa[pre]):
                pre += 1
            suf = 0
            while suf < min(len(fa), len(fb)) - pre - 1 and ast.dump(fa[-1 - suf]) == ast.dump(fb[-1 - suf]) and _pure(fa[-1 - suf]):
                suf += 1
            if pre or suf:
                ma, mb = fa[pre:len(fa) - suf], fb[pre:len(fb) - suf]
                if ma and mb and all(_strish(x) for x in fa + fb):
                    mid = ast.copy_location(ast.IfExp(test=n.test, body=_join_plus(ma), orelse=_join_plus(mb)), n)
                    mid = self.visit_IfExp(mid) if (len(ma) >= 2 and len(mb) >= 2) else mid
                    return ast.copy_location(_join_plus(fa[:pre] + [mid] + (fa[len(fa) - suf:] if suf else [])), n)
        # `E if E else F` -> `E or F` for an expression E without calls (evaluating it once or twice gives the same object)
        if ast.dump(n.test) == ast.dump(n.body) and not any(isinstance(x, (ast.Call, ast.NamedExpr, ast.Yield, ast.YieldFrom, ast.Await))
                                                             for x in ast.walk(n.test)):
            return _flatten_bool(ast.copy_location(ast.BoolOp(op=ast.Or(), values=[n.test, n.orelse]), n))
        # `v if v else X` -> `v or X`;  `X if v else v` -> `v and X`   (v a plain name: evaluated once either way)
        if isinstance(n.test, ast.Name) and isinstance(n.body, ast.Name) and n.body.id == n.test.id:
            return ast.copy_location(ast.BoolOp(op=ast.Or(), values=[n.test, n.orelse]), n)
        if isinstance(n.test, ast.Name) and isinstance(n.orelse, ast.Name) and n.orelse.id == n.test.id:
            return ast.copy_location(ast.BoolOp(op=ast.And(), values=[n.test, n.body]), n)
        # boolean-valued tests: `B if A else False` -> `A and B`; `True if A else B` -> `A or B`
        if _boolish(n.test):
            if isinstance(n.orelse, ast.Constant) and n.orelse.value is False:
                return _flatten_bool(ast.copy_location(ast.BoolOp(op=ast.And(), values=[n.test, n.body]), n))
            if isinstance(n.body, ast.Constant) and n.body.value is True:
                return _flatten_bool(ast.copy_location(ast.BoolOp(op=ast.Or(), values=[n.test, n.orelse]), n))
            if isinstance(n.body, ast.Constant) and n.body.value is False and _boolish(n.orelse):
                return _flatten_bool(ast.copy_location(ast.BoolOp(op=ast.And(), values=[negate(n.test), n.orelse]), n))
        if _prefer_negated(n.test):
            return ast.copy_location(ast.IfExp(test=negate(n.test), body=n.orelse, orelse=n.body), n)
        return n

    def visit_JoinedStr(self, n: ast.JoinedStr) -> ast.AST:
        self.generic_visit(n)
        parts: list[ast.AST] = []
        for v in n.values:
            if isinstance(v, ast.Constant):
                parts.append(v)
            elif isinstance(v, ast.FormattedValue):
                if v.format_spec is not None:
                    spec = v.format_spec
                    if isinstance(spec, ast.JoinedStr) and all(isinstance(x, ast.Constant) for x in spec.values):
                        spec_c = ast.Constant(value=''.join(str(x.value) for x in spec.values))
                    elif isinstance(spec, ast.Constant) and isinstance(spec.value, str):
                        spec_c = spec
                    else:
                        return n
                    inner = v.value if v.conversion == -1 else ast.Call(func=ast.Name(id={115: 'str', 114: 'repr', 97: 'ascii'}[v.conversion], ctx=ast.Load()),
                                                                          args=[v.value], keywords=[])
                    parts.append(ast.Call(func=ast.Name(id='format', ctx=ast.Load()), args=[inner, spec_c], keywords=[]))
                else:
                    fn_ = {-1: 'str', 115: 'str', 114: 'repr', 97: 'ascii'}[v.conversion]
                    parts.append(ast.Call(func=ast.Name(id=fn_, ctx=ast.Load()), args=[v.value], keywords=[]))
        if not parts:
            return ast.copy_location(ast.Constant(value=''), n)
        out: ast.AST = parts[0] if not isinstance(parts[0], ast.Call) or True else parts[0]
        if isinstance(out, ast.Call) and len(parts) == 1:
            return ast.copy_location(out, n)
        for p_ in parts[1:]:
            out = ast.BinOp(left=out, op=ast.Add(), right=p_)
        return ast.copy_location(out, n)

    def visit_BinOp(self, n: ast.BinOp) -> ast.AST:
        self.generic_visit(n)
        # constant folding of adjacent string literals in a concatenation
        if isinstance(n.op, ast.Add) and isinstance(n.right, ast.Constant) and isinstance(n.right.value, str):
            if isinstance(n.left, ast.Constant) and isinstance(n.left.value, str):
                return ast.copy_location(ast.Constant(value=n.left.value + n.right.value), n)
            if isinstance(n.left, ast.BinOp) and isinstance(n.left.op, ast.Add) and isinstance(n.left.right, ast.Constant) \
                    and isinstance(n.left.right.value, str):
                return ast.copy_location(ast.BinOp(left=n.left.left, op=ast.Add(), right=ast.Constant(value=n.left.right.value + n.right.value)), n)
        return n


class _Consumers(ast.NodeTransformer):
    def visit_Call(self, n: ast.Call) -> ast.AST:
        self.generic_visit(n)
        name = n.func.id if isinstance(n.func, ast.Name) else (n.func.attr if isinstance(n.func, ast.Attribute) else '')
        if len(n.args) == 1 and not n.keywords and isinstance(n.args[0], ast.ListComp) and (
                (isinstance(n.func, ast.Name) and name in CONSUMERS) or (isinstance(n.func, ast.Attribute) and name == 'join')):
            lc = n.args[0]
            n.args = [ast.copy_location(ast.GeneratorExp(elt=lc.elt, generators=lc.generators), lc)]
        return n


# ----------------------------------------------------------------------------- S7 single-definition pure locals
def _pure(e: ast.AST) -> bool:
    for x in ast.walk(e):
        if isinstance(x, ast.Call):
            if not (isinstance(x.func, ast.Name) and x.func.id in PURE_FUNCS):
                return False
        if isinstance(x, (ast.Yield, ast.YieldFrom, ast.Await, ast.NamedExpr, ast.Lambda, ast.ListComp, ast.GeneratorExp, ast.DictComp, ast.SetComp,
                          ast.List, ast.Dict, ast.Set, ast.JoinedStr, ast.Starred)):
            return False
    return True


def _is_ref_chain(e: ast.AST) -> bool:
    while isinstance(e, (ast.Attribute, ast.Subscript)):
        e = e.value
    return isinstance(e, ast.Name)


def _paths(e: ast.AST) -> set[str]:
    """object paths read by e (maximal attribute/subscript chains rooted at a name)"""
    out: set[str] = set()

    def visit(x: ast.AST, top: bool) -> None:
        if isinstance(x, (ast.Attribute, ast.Subscript)) and _is_ref_chain(x):
            out.add(_u(x))
            y: ast.AST = x
            while isinstance(y, (ast.Attribute, ast.Subscript)):
                if isinstance(y, ast.Subscript):
                    visit(y.slice, True)
                y = y.value
            return
        if isinstance(x, ast.Name):
            out.add(x.id)
            return
        for ch in ast.iter_child_nodes(x):
            visit(ch, True)
    visit(e, True)
    return out


def _related(written: str, read: str, ref_only: bool) -> bool:
    """does a write to object path `written` possibly change what evaluating `read` yields?"""
    def below(a: str, b: str) -> bool:      # a is strictly below b
        return a.startswith(b) and len(a) > len(b) and a[len(b)] in '.['
    if written == read or below(read, written):
        return True
    if below(written, read):
        return not ref_only
    return False


class _Writes(ast.NodeVisitor):
    """names assigned, object paths written / mutated, and whether an arbitrary call occurs"""

    def __init__(self) -> None:
        self.names: set[str] = set()
        self.paths: set[str] = set()
        self.calls = False

    def _target(self, t: ast.AST) -> None:
        if isinstance(t, ast.Name):
            self.names.add(t.id)
        elif isinstance(t, (ast.Tuple, ast.List)):
            for x in t.elts:
                self._target(x)
        elif isinstance(t, ast.Starred):
            self._target(t.value)
        elif isinstance(t, (ast.Attribute, ast.Subscript)):
            self.paths.add(_u(t))

    def visit_Assign(self, n: ast.Assign) -> None:
        for t in n.targets:
            self._target(t)
        self.generic_visit(n)

    def visit_AugAssign(self, n: ast.AugAssign) -> None:
        self._target(n.target)
        if isinstance(n.target, ast.Name):
            self.paths.add(n.target.id)
        self.generic_visit(n)

    def visit_AnnAssign(self, n: ast.AnnAssign) -> None:
        self._target(n.target)
        self.generic_visit(n)

    def visit_Delete(self, n: ast.Delete) -> None:
        for t in n.targets:
            self._target(t)
            if isinstance(t, ast.Subscript):
                self.paths.add(_u(t.value))

    def visit_For(self, n: ast.For) -> None:
        self._target(n.target)
        self.generic_visit(n)

    def visit_NamedExpr(self, n: ast.NamedExpr) -> None:
        self.names.add(n.target.id)
        self.generic_visit(n)

    def visit_With(self, n: ast.With) -> None:
        for it in n.items:
            if it.optional_vars is not None:
                self._target(it.optional_vars)
        self.calls = True
        self.generic_visit(n)

    def visit_Call(self, n: ast.Call) -> None:
        if isinstance(n.func, ast.Attribute) and n.func.attr in MUTATORS:
            self.paths.add(_u(n.func.value))
        if not (isinstance(n.func, ast.Name) and n.func.id in PURE_FUNCS | CONSUMERS):
            self.calls = True
        self.generic_visit(n)

    def visit_Subscript(self, n: ast.Subscript) -> None:
        if isinstance(n.ctx, ast.Store) and isinstance(n.slice, ast.Slice):
            self.paths.add(_u(n.value))
        self.generic_visit(n)


def _flat_index(body: list[ast.stmt]) -> list[ast.stmt]:
    """statements of a function body in source order, nested ones included"""
    out: list[ast.stmt] = []
    for s in body:
        out.append(s)
        for fld in ('body', 'orelse', 'finalbody'):
            sub = getattr(s, fld, None)
            if isinstance(sub, list) and sub and isinstance(sub[0], ast.stmt):
                out.extend(_flat_index(sub))
        for h in getattr(s, 'handlers', []) or []:
            out.extend(_flat_index(h.body))
    return out


class _SubstName(ast.NodeTransformer):
    def __init__(self, name: str, value: ast.AST) -> None:
        self.name, self.value = name, value

    def visit_Name(self, n: ast.Name) -> ast.AST:
        if n.id == self.name and isinstance(n.ctx, ast.Load):
            return copy.deepcopy(self.value)
        return n


def inline_pure_locals(fn: ast.FunctionDef) -> bool:
    """S7; returns whether something was inlined"""
    params = {a.arg for a in [*fn.args.posonlyargs, *fn.args.args, *fn.args.kwonlyargs]}
    if fn.args.vararg:
        params.add(fn.args.vararg.arg)
    if fn.args.kwarg:
        params.add(fn.args.kwarg.arg)
    top = fn.body
    # candidate: top-level or nested simple assignment `x = e`, x bound nowhere else in the function
    stores: dict[str, int] = {}
    for x in ast.walk(fn):
        if isinstance(x, ast.Name) and isinstance(x.ctx, (ast.Store, ast.Del)):
            stores[x.id] = stores.get(x.id, 0) + 1
        if isinstance(x, (ast.Global, ast.Nonlocal)):
            return False
    nested_funcs = [x for x in ast.walk(fn) if isinstance(x, (ast.FunctionDef, ast.Lambda)) and x is not fn]
    flat = _flat_index(top)
    for idx, st in enumerate(flat):
        if not (isinstance(st, ast.Assign) and len(st.targets) == 1 and isinstance(st.targets[0], ast.Name)):
            continue
        name = st.targets[0].id
        if name in params or stores.get(name, 0) != 1 or not _pure(st.value):
            continue
        if isinstance(st.value, ast.Constant) and not isinstance(st.value.value, (int, str, bool, type(None))):
            continue
        if any(isinstance(x, ast.Name) and x.id == name for f in nested_funcs for x in ast.walk(f)):
            continue
        # all loads must come after the binding in source order and be dominated by it: require the binding to be in a block that
        # contains (directly or nested) every use
        block = _enclosing_block(top, st)
        if block is None:
            continue
        pos = block.index(st)
        after = block[pos + 1:]
        uses = [x for s in after for x in ast.walk(s) if isinstance(x, ast.Name) and x.id == name and isinstance(x.ctx, ast.Load)]
        all_uses = [x for x in ast.walk(fn) if isinstance(x, ast.Name) and x.id == name and isinstance(x.ctx, ast.Load)]
        if not uses or len(uses) != len(all_uses):
            continue
        # a use inside a loop that (re)binds something the expression reads is covered by the interference check on the whole `after`
        reads = _paths(st.value)
        ref_only = _is_ref_chain(st.value) or isinstance(st.value, (ast.Name, ast.Constant))
        w = _Writes()
        last_use_stmt = max(i for i, s in enumerate(after) if any(x in uses for x in ast.walk(s)))
        for s in after[:last_use_stmt]:
            w.visit(s)
        lu = after[last_use_stmt]
        if isinstance(lu, ast.If) and not any(x in uses for part in (lu.body, lu.orelse) for s_ in part for x in ast.walk(s_)):
            w.visit(lu.test)            # the uses sit in the test: what the branches do comes after them
        else:
            w.visit(lu)
        read_names = {x.id for x in ast.walk(st.value) if isinstance(x, ast.Name)}
        if read_names & w.names:
            continue
        local_names = set(stores) | params
        root_ = st.value
        while isinstance(root_, ast.Attribute):
            root_ = root_.value
        global_chain = isinstance(st.value, ast.Attribute) and isinstance(root_, ast.Name) and root_.id not in local_names and root_.id not in ('self', 'cls')
        plain_value = global_chain or all(isinstance(x, (ast.Name, ast.Constant, ast.Load, ast.UnaryOp, ast.USub, ast.BinOp, ast.Add, ast.Sub, ast.Mult,
                                         ast.Tuple, ast.Compare, ast.Is, ast.IsNot, ast.Eq, ast.NotEq, ast.Lt, ast.LtE, ast.Gt, ast.GtE,
                                         ast.BoolOp, ast.And, ast.Or, ast.Not))
                          for x in ast.walk(st.value)) or (
            isinstance(st.value, ast.Call) and isinstance(st.value.func, ast.Name) and st.value.func.id == 'type'
            and len(st.value.args) == 1 and isinstance(st.value.args[0], ast.Name))
        if not plain_value and (w.calls or w.paths):
            # the expression reads object state (an attribute may be a property, len() looks into a container): it may only move across
            # statements that neither write to any object nor call anything
            continue
        sub = _SubstName(name, st.value)
        for k, s in enumerate(after):
            after[k] = sub.visit(s)
        block[pos + 1:] = after
        block.remove(st)
        return True
    return False


def _all_written_paths(fn: ast.AST) -> set[str]:
    w = _Writes()
    w.visit(fn)
    return w.paths


def _enclosing_block(body: list[ast.stmt], target: ast.stmt) -> Optional[list[ast.stmt]]:
    if any(s is target for s in body):
        return body
    for s in body:
        for fld in ('body', 'orelse', 'finalbody'):
            sub = getattr(s, fld, None)
            if isinstance(sub, list) and sub and isinstance(sub[0], ast.stmt):
                r = _enclosing_block(sub, target)
                if r is not None:
                    return r
        for h in getattr(s, 'handlers', []) or []:
            r = _enclosing_block(h.body, target)
            if r is not None:
                return r
    return None


# ----------------------------------------------------------------------------- S0 / renaming / driver
class _Strip(ast.NodeTransformer):
    def visit_FunctionDef(self, n: ast.FunctionDef) -> ast.AST:
        self.generic_visit(n)
        n.returns = None
        n.type_comment = None
        for a in [*n.args.posonlyargs, *n.args.args, *n.args.kwonlyargs, n.args.vararg, n.args.kwarg]:
            if a is not None:
                a.annotation = None
                a.type_comment = None
        if n.body and isinstance(n.body[0], ast.Expr) and isinstance(n.body[0].value, ast.Constant) and isinstance(n.body[0].value.value, str):
            n.body = n.body[1:] or [ast.Pass()]
        return n

    def visit_AnnAssign(self, n: ast.AnnAssign) -> Optional[ast.AST]:
        self.generic_visit(n)
        if n.value is None:
            return None
        return ast.copy_location(ast.Assign(targets=[n.target], value=n.value), n)


class _Rename(ast.NodeTransformer):
    def __init__(self, mapping: dict[str, str]) -> None:
        self.m = mapping

    def visit_Name(self, n: ast.Name) -> ast.AST:
        if n.id in self.m:
            return ast.copy_location(ast.Name(id=self.m[n.id], ctx=n.ctx), n)
        return n

    def visit_ExceptHandler(self, n: ast.ExceptHandler) -> ast.AST:
        self.generic_visit(n)
        if n.name in self.m:
            n.name = self.m[n.name]
        return n


_COMP = (ast.ListComp, ast.SetComp, ast.GeneratorExp, ast.DictComp)


def _alpha_comprehensions(fn: ast.FunctionDef) -> None:
    """the variables a comprehension binds are local to it: name them by nesting depth and position (c<depth>_<k>), so that two
    comprehensions do not differ by whether they happen to share a variable name with a third one"""
    def depth_of(node: ast.AST, d: int) -> None:
        for ch in ast.iter_child_nodes(node):
            if isinstance(ch, _COMP):
                depth_of(ch, d + 1)           # inner first
                rename(ch, d)
            elif isinstance(ch, (ast.FunctionDef, ast.AsyncFunctionDef, ast.Lambda, ast.ClassDef)):
                continue
            else:
                depth_of(ch, d)

    def rename(c: ast.AST, d: int) -> None:
        names: list[str] = []
        for g in c.generators:  # type: ignore[attr-defined]
            for x in ast.walk(g.target):
                if isinstance(x, ast.Name) and x.id not in names:
                    names.append(x.id)
        if any(re.fullmatch(r'c\d+_\d+', nm) for nm in names):
            return
        mapping = {nm: f'c{d}_{k}' for k, nm in enumerate(names)}
        r = _Rename(mapping)
        gens = c.generators  # type: ignore[attr-defined]
        for gi, g in enumerate(gens):
            g.target = r.visit(g.target)
            if gi > 0:
                g.iter = r.visit(g.iter)
            g.ifs = [r.visit(x) for x in g.ifs]
        if isinstance(c, ast.DictComp):
            c.key = r.visit(c.key)
            c.value = r.visit(c.value)
        else:
            c.elt = r.visit(c.elt)  # type: ignore[attr-defined]

    for st in fn.body:
        depth_of(st, 0)
        if isinstance(st, _COMP):
            rename(st, 0)


def _alpha(fn: ast.FunctionDef) -> None:
    _alpha_comprehensions(fn)
    params = {a.arg for a in [*fn.args.posonlyargs, *fn.args.args, *fn.args.kwonlyargs]}
    if fn.args.vararg:
        params.add(fn.args.vararg.arg)
    if fn.args.kwarg:
        params.add(fn.args.kwarg.arg)
    order: list[str] = []
    for st in fn.body:
        for x in _ordered(st):
            nm = None
            if isinstance(x, ast.Name) and isinstance(x.ctx, (ast.Store, ast.Del)):
                nm = x.id
            elif isinstance(x, ast.ExceptHandler) and x.name:
                nm = x.name
            elif isinstance(x, ast.FunctionDef):
                nm = x.name
            elif isinstance(x, ast.arg):
                nm = None      # parameters of nested functions / lambdas keep their names
            if nm and nm not in params and nm not in order and not re.fullmatch(r'c\d+_\d+', nm):
                order.append(nm)
    for x in ast.walk(fn):
        if isinstance(x, (ast.Global, ast.Nonlocal)):
            return
    mapping = {nm: f'v{i}' for i, nm in enumerate(order)}
    r = _Rename(mapping)
    fn.body = [r.visit(s) for s in fn.body]
    for x in ast.walk(fn):
        if isinstance(x, ast.FunctionDef) and x is not fn and x.name in mapping:
            x.name = mapping[x.name]


def _ordered(node: ast.AST) -> list[ast.AST]:
    out = [node]
    for ch in ast.iter_child_nodes(node):
        out.extend(_ordered(ch))
    return out


def split_reassignments(fn: ast.FunctionDef) -> None:
    """in a block that ends in return/raise and lies outside every loop, a plain re-assignment `x = e` of an already bound local gets a
    fresh name for the rest of that block (the old value cannot be observed afterwards: the block does not fall through)"""
    counter = [0]
    bound: set[str] = {a.arg for a in [*fn.args.posonlyargs, *fn.args.args, *fn.args.kwonlyargs]}

    def has_loop_or_func(s: ast.AST) -> bool:
        return any(isinstance(x, (ast.For, ast.While, ast.FunctionDef, ast.Lambda, ast.Try, ast.With, ast.ListComp, ast.GeneratorExp, ast.DictComp,
                                  ast.SetComp)) for x in ast.walk(s))

    def block(body: list[ast.stmt], seen: set[str]) -> None:
        seen = set(seen)
        for k, st in enumerate(body):
            if isinstance(st, ast.If):
                block(st.body, seen)
                block(st.orelse, seen)
            if isinstance(st, ast.Assign) and len(st.targets) == 1 and isinstance(st.targets[0], ast.Name):
                x = st.targets[0].id
                rest = body[k + 1:]
                if x in seen and terminates(body) and not any(has_loop_or_func(r) for r in rest) and not has_loop_or_func(st) \
                        and not any(isinstance(y, ast.Name) and y.id == x and isinstance(y.ctx, (ast.Store, ast.Del)) for r in rest for y in ast.walk(r)):
                    counter[0] += 1
                    fresh = f'{x}__{counter[0]}'
                    st.targets[0] = ast.copy_location(ast.Name(id=fresh, ctx=ast.Store()), st.targets[0])
                    r_ = _Rename({x: fresh})
                    for j in range(k + 1, len(body)):
                        body[j] = r_.visit(body[j])
                seen.add(x)
            else:
                for y in ast.walk(st):
                    if isinstance(y, ast.Name) and isinstance(y.ctx, ast.Store):
                        seen.add(y.id)
    if not any(isinstance(x, (ast.Global, ast.Nonlocal)) for x in ast.walk(fn)):
        block(fn.body, bound)


def _decisions(body: list[ast.stmt]) -> list[ast.stmt]:
    out: list[ast.stmt] = []
    for st in body:
        if isinstance(st, ast.If):
            r = decision_normalise(st)
            if r is not None:
                for x in r:
                    _decide_children(x, skip_region=True)
                out.extend(r)
                continue
        _decide_children(st, skip_region=False)
        out.append(st)
    return out


def _decide_children(st: ast.stmt, skip_region: bool) -> None:
    if skip_region and isinstance(st, ast.If):
        # inside a freshly built canonical region: descend to the leaves only
        for fld in ('body', 'orelse'):
            sub = getattr(st, fld)
            if len(sub) == 1 and isinstance(sub[0], ast.If) and _atoms_of(sub[0].test) is not None:
                _decide_children(sub[0], True)
            else:
                setattr(st, fld, _decisions(sub))
        return
    for fld in ('body', 'orelse', 'finalbody'):
        sub = getattr(st, fld, None)
        if isinstance(sub, list) and sub and isinstance(sub[0], ast.stmt):
            setattr(st, fld, _decisions(sub))
    for h in getattr(st, 'handlers', []) or []:
        h.body = _decisions(h.body)


def _untangle(fn: ast.FunctionDef) -> ast.FunctionDef:
    """rewrites may leave one node object at two places of the tree; steps that rename in place need a proper tree"""
    ast.fix_missing_locations(fn)
    new = ast.parse(ast.unparse(fn)).body[0]
    assert isinstance(new, ast.FunctionDef)
    return new


def hoist_conversions(fn: ast.FunctionDef) -> bool:
    """`x = [list display / comprehension]` whose only other occurrence is `tuple(x)` (or list / set / frozenset / sorted with x as the sole
    argument): convert at the definition (`x = tuple(...)`) and use `x` -- the conversion of a fresh list has no side effect, so where it
    happens does not matter, and the order of the element evaluations stays where it was."""
    changed = False
    defs: dict[str, list[ast.Assign]] = {}
    for n in _own_nodes(fn):
        if isinstance(n, ast.Assign) and len(n.targets) == 1 and isinstance(n.targets[0], ast.Name):
            defs.setdefault(n.targets[0].id, []).append(n)
    parents: dict[int, ast.AST] = {}
    for n in _own_nodes(fn):
        for ch in ast.iter_child_nodes(n):
            parents[id(ch)] = n
    for name, ds in defs.items():
        if len(ds) != 1 or not isinstance(ds[0].value, (ast.List, ast.ListComp)):
            continue
        if isinstance(ds[0].value, ast.List) and any(isinstance(x, ast.Starred) for x in ds[0].value.elts):
            continue
        uses = [n for n in _own_nodes(fn) if isinstance(n, ast.Name) and n.id == name and n is not ds[0].targets[0]]
        if len(uses) != 1 or not isinstance(uses[0].ctx, ast.Load):
            continue
        par = parents.get(id(uses[0]))
        if not (isinstance(par, ast.Call) and isinstance(par.func, ast.Name) and par.func.id in ('tuple', 'frozenset', 'set') and len(par.args) == 1
                and par.args[0] is uses[0] and not par.keywords):
            continue
        # the use must come after the definition in the same straight-line block or below it (no loop in between that would re-run the use)
        anc = parents.get(id(par))
        looped = False
        while anc is not None and anc is not fn:
            if isinstance(anc, (ast.For, ast.While, ast.AsyncFor)) and not any(x is ds[0] for x in ast.walk(anc)):
                looped = True
            anc = parents.get(id(anc))
        if looped:
            continue
        conv = par.func.id
        ds[0].value = ast.Call(func=ast.Name(id=conv, ctx=ast.Load()), args=[ds[0].value], keywords=[])
        gp = parents.get(id(par))
        if gp is None:
            continue
        for field, val in ast.iter_fields(gp):
            if val is par:
                setattr(gp, field, uses[0])
            elif isinstance(val, list):
                for i, x in enumerate(val):
                    if x is par:
                        val[i] = uses[0]
        changed = True
    if changed:
        ast.fix_missing_locations(fn)
    return changed


def _structural_fixpoint(fn: ast.FunctionDef, rounds: int) -> ast.FunctionDef:
    for _ in range(rounds):
        fn = _untangle(fn)
        before = ast.dump(fn)
        mod = canonicalise(ast.Module(body=[fn], type_ignores=[]))
        fn = mod.body[0]
        fn = _NNF().visit(fn)
        lists = {a.targets[0].id for a in ast.walk(fn) if isinstance(a, ast.Assign) and len(a.targets) == 1 and isinstance(a.targets[0], ast.Name)
                 and isinstance(a.value, (ast.List, ast.ListComp))}
        nonlists = {a.targets[0].id for a in ast.walk(fn) if isinstance(a, ast.Assign) and len(a.targets) == 1 and isinstance(a.targets[0], ast.Name)
                    and not isinstance(a.value, (ast.List, ast.ListComp))}
        params_ = {a.arg for a in [*fn.args.posonlyargs, *fn.args.args, *fn.args.kwonlyargs]}
        s = Structurer(void=not _has_return_value(fn.body), local_lists=lists - nonlists - params_)
        fn.body = s.block(fn.body, True) or [ast.Pass()]
        hoist_conversions(fn)
        fn = _Consumers().visit(fn)
        fn = _Exprs().visit(fn)
        split_webs(fn)
        split_reassignments(fn)
        n = 0
        while inline_pure_locals(fn) and n < 40:
            n += 1
        ast.fix_missing_locations(fn)
        if ast.dump(fn) == before:
            break
    return fn


def normalise(fn: ast.FunctionDef, rounds: int = 8) -> ast.FunctionDef:
    fn = copy.deepcopy(fn)
    fn = _Strip().visit(fn)
    fn = _structural_fixpoint(fn, rounds)
    fn.body = _decisions(fn.body) or [ast.Pass()]
    ast.fix_missing_locations(fn)
    fn = _structural_fixpoint(fn, rounds)
    fn = _untangle(fn)
    _alpha(fn)
    return fn


def normal_form(fn: ast.FunctionDef) -> str:
    n = normalise(fn)
    n.decorator_list = []       # decorators are compared separately (they are part of the declaration, not of the body)
    return ast.dump(n, annotate_fields=False, include_attributes=False)


def digest(fn: ast.FunctionDef) -> str:
    return hashlib.sha256(normal_form(fn).encode()).hexdigest()[:20]


# ----------------------------------------------------------------------------- private helpers
def _own_nodes(fn: ast.AST):
    todo = list(ast.iter_child_nodes(fn))
    while todo:
        n = todo.pop()
        yield n
        if not isinstance(n, (ast.FunctionDef, ast.Lambda, ast.ClassDef)):
            todo.extend(ast.iter_child_nodes(n))


def _simple_arg(e: ast.AST) -> bool:
    while isinstance(e, ast.Attribute):
        e = e.value
    return isinstance(e, (ast.Name, ast.Constant))


def helper_table(module: ast.Module, cls: Optional[ast.ClassDef]) -> dict[str, tuple[str, ast.FunctionDef]]:
    """private helpers a function of `cls` (or a module-level function) may have inlined: name -> (kind, def);
    kind 'func' (module level, called as `_h(..)`), 'method' (`self._h(..)` / `cls._h(..)` for class/static methods), 'prop' (`self._h`)"""
    out: dict[str, tuple[str, ast.FunctionDef]] = {}

    def ok_tail(f: ast.FunctionDef) -> bool:
        """may be inlined where its result is returned at once (`return helper(..)`): any number of returns is fine then"""
        if not f.name.startswith('_') or f.name.startswith('__'):
            return False
        a = f.args
        if a.vararg or a.kwarg or a.posonlyargs:
            return False
        if any(isinstance(x, (ast.Yield, ast.YieldFrom, ast.Await, ast.Global, ast.Nonlocal, ast.FunctionDef, ast.ClassDef)) for x in _own_nodes(f)):
            return False
        if any(isinstance(x, ast.Name) and x.id == f.name for x in _own_nodes(f)):
            return False
        if any(isinstance(x, ast.Attribute) and x.attr == f.name for x in _own_nodes(f)):
            return False
        return True

    def ok(f: ast.FunctionDef) -> bool:
        if not f.name.startswith('_') or f.name.startswith('__'):
            return False
        a = f.args
        if a.vararg or a.kwarg or a.posonlyargs:
            return False
        if any(isinstance(x, (ast.Yield, ast.YieldFrom, ast.Await, ast.Global, ast.Nonlocal)) for x in _own_nodes(f)):
            return False
        if any(isinstance(x, (ast.FunctionDef, ast.ClassDef)) for x in _own_nodes(f)):
            return False
        rets = [x for x in _own_nodes(f) if isinstance(x, ast.Return)]
        body = [s for s in f.body if not (isinstance(s, ast.Expr) and isinstance(s.value, ast.Constant))]
        if len(rets) > 1 or (rets and (not body or rets[0] is not body[-1])):
            return False
        if any(isinstance(x, ast.Name) and x.id == f.name for x in _own_nodes(f)):
            return False      # (directly) recursive
        return True

    for s in module.body:
        if isinstance(s, ast.FunctionDef) and ok(s) and not s.decorator_list:
            out[s.name] = ('func', s)
        elif isinstance(s, ast.FunctionDef) and ok_tail(s) and not s.decorator_list:
            out[s.name] = ('func-tail', s)
    if cls is not None:
        out['__class__'] = ('name', cls.name)          # type: ignore[assignment]
        for s in cls.body:
            if isinstance(s, ast.FunctionDef) and s.name.startswith('_') and not s.name.startswith('__') \
                    and [ast.unparse(d) for d in s.decorator_list] == ['staticmethod'] and not ok(s):
                out[s.name] = ('static-any', s)
        for s in cls.body:
            if isinstance(s, ast.FunctionDef) and not ok(s) and ok_tail(s) and s.name not in out:
                decos = [ast.unparse(d) for d in s.decorator_list]
                if not decos:
                    out[s.name] = ('method-tail', s)
                elif decos == ['staticmethod']:
                    out[s.name] = ('staticmethod-tail', s)
        for s in cls.body:
            if isinstance(s, ast.FunctionDef) and ok(s):
                decos = [ast.unparse(d) for d in s.decorator_list]
                if not decos:
                    out[s.name] = ('method', s)
                elif decos in (['staticmethod'], ['classmethod']):
                    out[s.name] = (decos[0], s)
                elif len(decos) == 1 and decos[0].split('.')[-1] in ('property', 'custom_property') and len(s.args.args) == 1:
                    body = [x for x in s.body if not (isinstance(x, ast.Expr) and isinstance(x.value, ast.Constant))]
                    if len(body) == 1 and isinstance(body[0], ast.Return) and body[0].value is not None:
                        # a setter for the same name disqualifies (the attribute is then not a pure view)
                        if sum(1 for t in cls.body if isinstance(t, ast.FunctionDef) and t.name == s.name) == 1:
                            out[s.name] = ('prop', s)
    return out


class _InlineProps(ast.NodeTransformer):
    def __init__(self, table: dict[str, tuple[str, ast.FunctionDef]], selfname: str) -> None:
        self.t, self.selfname = table, selfname
        self.n = 0

    def visit_Attribute(self, n: ast.Attribute) -> ast.AST:
        self.generic_visit(n)
        if isinstance(n.ctx, ast.Load) and isinstance(n.value, ast.Name) and n.value.id == self.selfname and n.attr in self.t \
                and self.t[n.attr][0] == 'prop' and self.n < 50:
            f = self.t[n.attr][1]
            body = [x for x in f.body if not (isinstance(x, ast.Expr) and isinstance(x.value, ast.Constant))]
            e = copy.deepcopy(body[0].value)        # type: ignore[union-attr]
            e = _Rename({f.args.args[0].arg: self.selfname}).visit(e)
            self.n += 1
            return ast.copy_location(e, n)
        return n


def inline_helpers(fn: ast.FunctionDef, table: dict[str, tuple[str, ast.FunctionDef]], depth: int = 0) -> ast.FunctionDef:
    """a copy of fn with calls of private helpers replaced by their bodies where that cannot change evaluation order"""
    fn = copy.deepcopy(fn)
    if not table or depth > 2:
        return fn
    selfname = fn.args.args[0].arg if fn.args.args else ''
    clsname = table.get('__class__', ('', None))[1] or '<none>'      # type: ignore[assignment]
    counter = [0]

    def callee(c: ast.Call, tail: bool = False) -> Optional[tuple[str, ast.FunctionDef, list[ast.AST]]]:
        if c.keywords and any(k.arg is None for k in c.keywords):
            return None
        kinds_f = ('func', 'func-tail') if tail else ('func',)
        kinds_m = ('method', 'staticmethod', 'classmethod', 'method-tail', 'staticmethod-tail') if tail else ('method', 'staticmethod', 'classmethod')
        if any(isinstance(a, ast.Starred) for a in c.args):
            return None
        f = c.func
        if isinstance(f, ast.Name) and f.id in table and (table[f.id][0] in kinds_f or table[f.id][0] in (
                ('staticmethod', 'staticmethod-tail') if tail else ('staticmethod',))):
            h = table[f.id][1]
            params = [a.arg for a in h.args.args]
            recv: list[ast.AST] = []
        elif isinstance(f, ast.Attribute) and isinstance(f.value, ast.Name) and f.value.id in (selfname, 'cls', 'self', clsname) and f.attr in table \
                and table[f.attr][0] in kinds_m and f.attr != fn.name:
            kind, h = table[f.attr]
            params = [a.arg for a in h.args.args]
            if f.value.id == clsname and not kind.startswith('staticmethod'):
                return None
            recv = [] if kind.startswith('staticmethod') else [f.value]
        else:
            return None
        args: list[ast.AST] = list(recv) + list(c.args)
        kw = {k.arg: k.value for k in c.keywords}
        if len(args) > len(params):
            return None
        defaults = dict(zip(params[len(params) - len(h.args.defaults):], h.args.defaults))
        kwonly = [a.arg for a in h.args.kwonlyargs]
        for p_, d_ in zip(kwonly, h.args.kw_defaults):
            if d_ is not None:
                defaults[p_] = d_
        params = params + kwonly
        for p_ in params[len(args):]:
            if p_ in kw:
                args.append(kw.pop(p_))
            elif p_ in defaults:
                args.append(defaults[p_])
            else:
                return None
        if kw:
            return None
        return h.name, h, args

    def expand_tail(h: ast.FunctionDef, args: list[ast.AST], at: ast.stmt) -> list[ast.stmt]:
        """`return helper(args)`: the helper's body stands in for the statement, its returns become the caller's"""
        counter[0] += 1
        tag = f'hlp{counter[0]}_'
        params = [a.arg for a in h.args.args] + [a.arg for a in h.args.kwonlyargs]
        body = [copy.deepcopy(s) for s in h.body if not (isinstance(s, ast.Expr) and isinstance(s.value, ast.Constant))]
        locals_ = {x.id for s in body for x in ast.walk(s) if isinstance(x, ast.Name) and isinstance(x.ctx, (ast.Store, ast.Del))}
        mapping = {n: tag + n for n in set(params) | locals_}
        pre: list[ast.stmt] = []
        for p_, a_ in zip(params, args):
            if isinstance(a_, ast.Name) and p_ not in locals_:
                mapping[p_] = a_.id
            else:
                pre.append(ast.copy_location(ast.Assign(targets=[ast.Name(id=mapping[p_], ctx=ast.Store())], value=copy.deepcopy(a_)), at))
        r = _Rename(mapping)
        body = [r.visit(s) for s in body]
        if not terminates(body):
            body.append(ast.copy_location(ast.Return(value=None), at))
        return pre + body

    def expand(h: ast.FunctionDef, args: list[ast.AST], result: Optional[ast.AST], at: ast.stmt) -> Optional[list[ast.stmt]]:
        counter[0] += 1
        tag = f'hlp{counter[0]}_'
        params = [a.arg for a in h.args.args] + [a.arg for a in h.args.kwonlyargs]
        body = [copy.deepcopy(s) for s in h.body if not (isinstance(s, ast.Expr) and isinstance(s.value, ast.Constant))]
        locals_ = {x.id for s in body for x in ast.walk(s) if isinstance(x, ast.Name) and isinstance(x.ctx, (ast.Store, ast.Del))}
        mapping = {n: tag + n for n in set(params) | locals_}
        pre: list[ast.stmt] = []
        for p_, a_ in zip(params, args):
            if isinstance(a_, ast.Name) and p_ not in locals_:
                mapping[p_] = a_.id                        # a plain name argument that the helper never rebinds: use it directly
            else:
                pre.append(ast.copy_location(ast.Assign(targets=[ast.Name(id=mapping[p_], ctx=ast.Store())], value=copy.deepcopy(a_)), at))
        r = _Rename(mapping)
        body = [r.visit(s) for s in body]
        ret = None
        if body and isinstance(body[-1], ast.Return):
            ret = body[-1].value
            body = body[:-1]
        tail: list[ast.stmt] = []
        if result is not None:
            if isinstance(result, ast.Return):
                tail = [ast.copy_location(ast.Return(value=ret), at)]
            else:
                tail = [ast.copy_location(ast.Assign(targets=[result], value=ret if ret is not None else ast.Constant(value=None)), at)]
        elif ret is not None and any(isinstance(x, ast.Call) for x in ast.walk(ret)):
            tail = [ast.copy_location(ast.Expr(value=ret), at)]
        return pre + body + tail

    def block(body: list[ast.stmt]) -> list[ast.stmt]:
        out: list[ast.stmt] = []
        for st in body:
            for fld in ('body', 'orelse', 'finalbody'):
                sub = getattr(st, fld, None)
                if isinstance(sub, list) and sub and isinstance(sub[0], ast.stmt):
                    setattr(st, fld, block(sub))
            for h_ in getattr(st, 'handlers', []) or []:
                h_.body = block(h_.body)
            c: Optional[ast.Call] = None
            result: Optional[ast.AST] = None
            if isinstance(st, ast.Expr) and isinstance(st.value, ast.Call):
                c = st.value
            elif isinstance(st, ast.Assign) and len(st.targets) == 1 and isinstance(st.value, ast.Call) and (
                    isinstance(st.targets[0], ast.Name) or (isinstance(st.targets[0], ast.Tuple) and all(isinstance(t, ast.Name) for t in st.targets[0].elts))):
                c, result = st.value, st.targets[0]
            elif isinstance(st, ast.Return) and isinstance(st.value, ast.Call):
                c, result = st.value, st
            if c is not None and callee(c) is None and isinstance(st, ast.Expr) and len(c.args) == 1 and not c.keywords \
                    and isinstance(c.args[0], ast.Call) and callee(c.args[0]) is not None and isinstance(c.func, ast.Attribute) \
                    and isinstance(c.func.value, ast.Name):
                # `local.method(self._helper(..))`: evaluate the helper first (looking up a method on a local has no effect)
                counter[0] += 1
                tmp = f'hlp{counter[0]}_arg'
                hit0 = callee(c.args[0])
                assert hit0 is not None
                ex0 = expand(hit0[1], hit0[2], ast.Name(id=tmp, ctx=ast.Store()), st)
                if ex0 is not None:
                    out.extend(ex0)
                    c.args[0] = ast.copy_location(ast.Name(id=tmp, ctx=ast.Load()), c.args[0])
                    out.append(st)
                    continue
            if c is not None and isinstance(st, ast.Return) and callee(c) is None:
                hit_t = callee(c, tail=True)
                if hit_t is not None:
                    out.extend(expand_tail(hit_t[1], hit_t[2], st))
                    continue
            if c is not None:
                hit = callee(c)
                if hit is not None:
                    ex = expand(hit[1], hit[2], result, st)
                    if ex is not None:
                        out.extend(ex)
                        continue
            out.append(st)
        return out

    fn.body = block(fn.body)
    # expression helpers (single return) with simple arguments, anywhere in an expression
    class _Expr(ast.NodeTransformer):
        def visit_Call(self, n: ast.Call) -> ast.AST:
            self.generic_visit(n)
            hit = callee(n)
            if hit is None:
                return n
            _, h, args = hit
            body = [s for s in h.body if not (isinstance(s, ast.Expr) and isinstance(s.value, ast.Constant))]
            if len(body) != 1 or not isinstance(body[0], ast.Return) or body[0].value is None or not all(_simple_arg(a) for a in args):
                return n
            params = [a.arg for a in h.args.args]
            e = copy.deepcopy(body[0].value)
            for p_, a_ in zip(params, args):
                e = _SubstName(p_, a_).visit(e)
            return ast.copy_location(e, n)
    fn = _Expr().visit(fn)

    class _Static(ast.NodeTransformer):
        # a private static method is a plain function: `self._h(..)` / `Cls._h(..)` / `cls._h(..)` -> `_h(..)`, so that moving a private
        # function between module level and a class (as a staticmethod) does not change the form of its callers
        def visit_Call(self, n: ast.Call) -> ast.AST:
            self.generic_visit(n)
            f = n.func
            if isinstance(f, ast.Attribute) and isinstance(f.value, ast.Name) and f.value.id in (selfname, 'self', 'cls', clsname) \
                    and f.attr in static_names:
                n.func = ast.copy_location(ast.Name(id=f.attr, ctx=ast.Load()), f)
            return n
    static_names = {k for k, v in table.items() if v[0] in ('staticmethod', 'static-any')}
    if static_names:
        fn = _Static().visit(fn)
    fn = _InlineProps(table, selfname).visit(fn)
    ast.fix_missing_locations(fn)
    return fn


def digest_inlined(fn: ast.FunctionDef, table: dict[str, tuple[str, ast.FunctionDef]]) -> str:
    f2 = inline_helpers(fn, table)
    f3 = inline_helpers(f2, table, 1) if ast.dump(f2) != ast.dump(fn) else f2
    return digest(f3)


# ----------------------------------------------------------------------------- live-range splitting (def-use webs)
def split_webs(fn: ast.FunctionDef) -> bool:
    """gives every def-use web of a local its own name: `x = a(); use(x); x = b(); use(x)` becomes two variables.  Reaching definitions
    are computed over the structured statements with over-approximated control flow (break / continue / return are treated as falling
    through, loops are iterated, handlers see every definition of the try body), which can only merge webs, never split one."""
    if any(isinstance(x, (ast.Global, ast.Nonlocal)) for x in ast.walk(fn)):
        return False
    params = [a.arg for a in [*fn.args.posonlyargs, *fn.args.args, *fn.args.kwonlyargs]]
    if fn.args.vararg:
        params.append(fn.args.vararg.arg)
    if fn.args.kwarg:
        params.append(fn.args.kwarg.arg)
    parent: dict[int, int] = {}
    def_node: dict[int, ast.AST] = {}
    def_var: dict[int, str] = {}
    order: dict[int, int] = {}
    use_defs: list[tuple[ast.Name, frozenset]] = []
    counter = [0]

    def find(a: int) -> int:
        while parent[a] != a:
            parent[a] = parent[parent[a]]
            a = parent[a]
        return a

    def union(a: int, b: int) -> None:
        ra, rb = find(a), find(b)
        if ra != rb:
            parent[max(ra, rb)] = min(ra, rb)

    node_def: dict[int, int] = {}

    def new_def(var: str, node: Optional[ast.AST]) -> int:
        if node is not None and id(node) in node_def:
            return node_def[id(node)]         # loops are walked several times: one definition per binding occurrence
        counter[0] += 1
        d = counter[0]
        parent[d] = d
        def_var[d] = var
        order[d] = counter[0]
        if node is not None:
            def_node[d] = node
            node_def[id(node)] = d
        return d

    Env = dict
    env0: dict[str, frozenset] = {p_: frozenset([new_def(p_, None)]) for p_ in params}
    param_defs = {next(iter(v)) for v in env0.values()}
    closure_vars: set[str] = set()
    for x in ast.walk(fn):
        if isinstance(x, (ast.FunctionDef, ast.Lambda, ast.ListComp, ast.SetComp, ast.DictComp, ast.GeneratorExp)) and x is not fn:
            for y in ast.walk(x):
                if isinstance(y, ast.Name):
                    closure_vars.add(y.id)

    def use(n: ast.Name, env: Env) -> None:
        ds = env.get(n.id)
        if ds:
            use_defs.append((n, ds))
            first = next(iter(ds))
            for d in ds:
                union(first, d)

    def expr(e: Optional[ast.AST], env: Env) -> None:
        if e is None:
            return
        if isinstance(e, (ast.Lambda, ast.ListComp, ast.SetComp, ast.DictComp, ast.GeneratorExp, ast.FunctionDef)):
            for y in ast.walk(e):
                if isinstance(y, ast.Name) and isinstance(y.ctx, ast.Load):
                    use(y, env)
            return
        if isinstance(e, ast.NamedExpr):
            expr(e.value, env)
            bind(e.target, env)
            return
        if isinstance(e, ast.Name):
            if isinstance(e.ctx, ast.Load):
                use(e, env)
            return
        for ch in ast.iter_child_nodes(e):
            expr(ch, env)

    def bind(t: ast.AST, env: Env) -> None:
        if isinstance(t, ast.Name):
            d = new_def(t.id, t)
            env[t.id] = frozenset([d])
        elif isinstance(t, (ast.Tuple, ast.List)):
            for x in t.elts:
                bind(x, env)
        elif isinstance(t, ast.Starred):
            bind(t.value, env)
        else:
            expr(t, env)          # attribute / subscript target: its base is read

    def join(a: Env, b: Env) -> Env:
        out = dict(a)
        for k, v in b.items():
            out[k] = out.get(k, frozenset()) | v
        return out

    def block(body: list[ast.stmt], env: Env) -> Env:
        for st in body:
            env = stmt(st, env)
        return env

    def stmt(st: ast.stmt, env: Env) -> Env:
        env = dict(env)
        if isinstance(st, ast.Assign):
            expr(st.value, env)
            for t in st.targets:
                bind(t, env)
        elif isinstance(st, ast.AnnAssign):
            expr(st.value, env)
            if st.value is not None:
                bind(st.target, env)
        elif isinstance(st, ast.AugAssign):
            expr(st.value, env)
            if isinstance(st.target, ast.Name):
                old = env.get(st.target.id, frozenset())
                d = new_def(st.target.id, st.target)
                for o in old:
                    union(d, o)
                env[st.target.id] = frozenset([d])
            else:
                expr(st.target, env)
        elif isinstance(st, ast.If):
            expr(st.test, env)
            env = join(block(st.body, env), block(st.orelse, env))
        elif isinstance(st, (ast.For, ast.While)):
            if isinstance(st, ast.For):
                expr(st.iter, env)
            e_in = env
            for _ in range(3):
                e_loop = dict(e_in)
                if isinstance(st, ast.For):
                    bind(st.target, e_loop)
                else:
                    expr(st.test, e_loop)
                e_after = block(st.body, e_loop)
                e_in = join(e_in, e_after)
            env = join(e_in, block(st.orelse, e_in))
        elif isinstance(st, ast.With):
            for it in st.items:
                expr(it.context_expr, env)
                if it.optional_vars is not None:
                    bind(it.optional_vars, env)
            env = block(st.body, env)
        elif isinstance(st, ast.Try):
            e_body = block(st.body, env)
            e_mid = join(env, e_body)
            outs = [block(st.orelse, e_body)]
            for h in st.handlers:
                eh = dict(e_mid)
                if h.name:
                    d = new_def(h.name, None)
                    eh[h.name] = frozenset([d])
                expr(h.type, eh)
                outs.append(block(h.body, eh))
            e = outs[0]
            for o in outs[1:]:
                e = join(e, o)
            env = block(st.finalbody, join(e, e_mid)) if st.finalbody else e
        elif isinstance(st, ast.Delete):
            for t in st.targets:
                if isinstance(t, ast.Name):
                    use(ast.Name(id=t.id, ctx=ast.Load()), env)
                    old = env.get(t.id, frozenset())
                    d = new_def(t.id, t)
                    for o in old:
                        union(d, o)
                    env[t.id] = frozenset([d])
                else:
                    expr(t, env)
        elif isinstance(st, (ast.FunctionDef, ast.ClassDef)):
            expr(st, env) if isinstance(st, ast.FunctionDef) else None
            d = new_def(st.name, None)
            env[st.name] = frozenset([d])
        elif isinstance(st, ast.Match):
            expr(st.subject, env)
            outs = []
            for c in st.cases:
                ec = dict(env)
                for y in ast.walk(c.pattern):
                    nm = getattr(y, 'name', None)
                    if isinstance(y, (ast.MatchAs, ast.MatchStar)) and isinstance(nm, str):
                        d = new_def(nm, None)
                        ec[nm] = frozenset([d])
                expr(c.guard, ec)
                outs.append(block(c.body, ec))
            e = env
            for o in outs:
                e = join(e, o)
            env = e
        else:
            for ch in ast.iter_child_nodes(st):
                if isinstance(ch, ast.expr):
                    expr(ch, env)
        return env

    block(fn.body, env0)
    # variables captured by nested scopes, or bound by constructs without a node (handlers, patterns, nested defs): one web
    by_var: dict[str, list[int]] = {}
    for d, v in def_var.items():
        by_var.setdefault(v, []).append(d)
    for v, ds in by_var.items():
        if v in closure_vars or any(d not in def_node and d not in param_defs for d in ds):
            for d in ds[1:]:
                union(ds[0], d)
    renamed = False
    for v, ds in by_var.items():
        roots = sorted({find(d) for d in ds}, key=lambda r: min(order[d] for d in ds if find(d) == r))
        if len(roots) < 2:
            continue
        keep = next((r for r in roots if any(d in param_defs for d in ds if find(d) == r)), roots[0])
        names = {}
        k = 0
        for r in roots:
            if r == keep:
                names[r] = v
            else:
                k += 1
                names[r] = f'{v}_w{k}'
        for d in ds:
            node = def_node.get(d)
            if isinstance(node, ast.Name) and names[find(d)] != v:
                node.id = names[find(d)]
                renamed = True
        for n, dset in use_defs:
            if n.id == v:
                r = find(next(iter(dset)))
                if names.get(r, v) != v:
                    n.id = names[r]
                    renamed = True
    return renamed
