"""Linear normal form of integer expressions: sum(coeff * atom) + const.

Atoms are sub-expressions that are not +, -, unary -, or multiplication by a constant;
they are identified by their normalised source text (after alias substitution).
Used to compare index arithmetic semantically instead of textually.
"""
from __future__ import annotations

import ast
from typing import Optional

Linear = tuple[tuple[tuple[str, int], ...], int]


def linear(e: ast.AST, env: Optional[dict[str, ast.AST]] = None, depth: int = 0) -> Linear:
    coeffs: dict[str, int] = {}
    const = [0]

    def add(e: ast.AST, k: int, d: int) -> None:
        if isinstance(e, ast.Constant) and isinstance(e.value, int) and not isinstance(e.value, bool):
            const[0] += k * e.value
        elif isinstance(e, ast.BinOp) and isinstance(e.op, ast.Add):
            add(e.left, k, d)
            add(e.right, k, d)
        elif isinstance(e, ast.BinOp) and isinstance(e.op, ast.Sub):
            add(e.left, k, d)
            add(e.right, -k, d)
        elif isinstance(e, ast.UnaryOp) and isinstance(e.op, ast.USub):
            add(e.operand, -k, d)
        elif isinstance(e, ast.UnaryOp) and isinstance(e.op, ast.UAdd):
            add(e.operand, k, d)
        elif isinstance(e, ast.BinOp) and isinstance(e.op, ast.Mult) and isinstance(e.right, ast.Constant) \
                and isinstance(e.right.value, int):
            add(e.left, k * e.right.value, d)
        elif isinstance(e, ast.BinOp) and isinstance(e.op, ast.Mult) and isinstance(e.left, ast.Constant) \
                and isinstance(e.left.value, int):
            add(e.right, k * e.left.value, d)
        elif isinstance(e, ast.Name) and env is not None and e.id in env and d < 6:
            add(env[e.id], k, d + 1)
        else:
            t = ast.unparse(e)
            coeffs[t] = coeffs.get(t, 0) + k

    add(e, 1, depth)
    return tuple(sorted((a, c) for a, c in coeffs.items() if c)), const[0]


def same(a: ast.AST, b: ast.AST, env: Optional[dict[str, ast.AST]] = None) -> bool:
    return linear(a, env) == linear(b, env)


def parse(text: str) -> ast.AST:
    return ast.parse(text, mode='eval').body


def show(l: Linear) -> str:
    parts = [f'{c:+d}*{a}' for a, c in l[0]]
    if l[1] or not parts:
        parts.append(f'{l[1]:+d}')
    return ' '.join(parts)
