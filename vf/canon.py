"""Semantics-preserving canonicalisation of function bodies, applied once when the program model is loaded.

Rules compare *shapes*; without this, harmless refactorings (a helper temporary, `b > a` for `a < b`,
`other.x == self.x`, `-r + n` for `n - r`) would change the shape.  Only transformations that cannot change
behaviour are applied:

  T1  an assignment to a fresh local that is used exactly once, in the statement that directly follows, and
      whose use is evaluated before any call of that statement completes, is inlined (tuple assignments
      element-wise);
  T2  comparisons are oriented: `a > b` -> `b < a`, `a >= b` -> `b <= a`; `==`/`!=`/`is`/`is not` operands are
      ordered with the self-rooted / lexicographically smaller operand first;
  T3  flat +/- chains of three or more terms keep their meaning but are re-associated and sorted
      (positive terms first, then by text) -- integer / sequence-length arithmetic only (no string constants);
  T4  isinstance(x, A | B) -> isinstance(x, (A, B)) with the alternatives sorted.

Line numbers are preserved (copy_location), so reports still point at the original source.
"""
from __future__ import annotations

import ast
import copy
from typing import Optional

PURE_CALLS = {'len', 'list', 'tuple', 'set', 'frozenset', 'isinstance', 'max', 'min', 'id', 'sorted', 'reversed', 'range', 'abs', 'type'}


def _names(node: ast.AST, ctx_type: type) -> list[str]:
    return [n.id for n in ast.walk(node) if isinstance(n, ast.Name) and isinstance(n.ctx, ctx_type)]


def _eval_order_ok(stmt: ast.stmt, name: str) -> bool:
    """the single load of `name` in `stmt` happens before any call of the statement has completed, and not inside a
    construct that would evaluate it repeatedly or lazily"""
    done_call = [False]
    found = [False]
    ok = [True]

    def visit(e: ast.AST, lazy: bool) -> None:
        if found[0]:
            return
        if isinstance(e, ast.Name):
            if e.id == name and isinstance(e.ctx, ast.Load):
                found[0] = True
                if done_call[0] or lazy:
                    ok[0] = False
            return
        if isinstance(e, (ast.Lambda, ast.GeneratorExp, ast.ListComp, ast.SetComp, ast.DictComp)):
            # only the first iterable of a comprehension is evaluated eagerly
            if isinstance(e, ast.Lambda):
                for ch in ast.iter_child_nodes(e):
                    visit(ch, True)
                return
            visit(e.generators[0].iter, lazy)
            for g in e.generators:
                for c in g.ifs:
                    visit(c, True)
            for g in e.generators[1:]:
                visit(g.iter, True)
            for ch in ([e.elt] if not isinstance(e, ast.DictComp) else [e.key, e.value]):
                visit(ch, True)
            return
        if isinstance(e, ast.BoolOp):
            visit(e.values[0], lazy)
            for v in e.values[1:]:
                visit(v, True)          # short-circuit: may not be evaluated
            return
        if isinstance(e, ast.IfExp):
            visit(e.test, lazy)
            visit(e.body, True)
            visit(e.orelse, True)
            return
        if isinstance(e, ast.Call):
            visit(e.func, lazy)
            for a in e.args:
                visit(a, lazy)
            for k in e.keywords:
                visit(k.value, lazy)
            if not found[0]:
                fn = e.func
                if not (isinstance(fn, ast.Name) and fn.id in PURE_CALLS):
                    done_call[0] = True
            return
        for ch in ast.iter_child_nodes(e):
            visit(ch, lazy)

    if isinstance(stmt, (ast.Return, ast.Expr)):
        if stmt.value is not None:
            visit(stmt.value, False)
    elif isinstance(stmt, ast.Assign):
        visit(stmt.value, False)
        if not found[0]:
            for t in stmt.targets:
                visit(t, False)
    elif isinstance(stmt, ast.AugAssign):
        visit(stmt.target, False)
        visit(stmt.value, False)
    elif isinstance(stmt, ast.AnnAssign) and stmt.value is not None:
        visit(stmt.value, False)
    elif isinstance(stmt, ast.If):
        visit(stmt.test, False)
    elif isinstance(stmt, (ast.For,)):
        visit(stmt.iter, False)
    elif isinstance(stmt, ast.Raise) and stmt.exc is not None:
        visit(stmt.exc, False)
    else:
        return False
    return found[0] and ok[0]


class _Subst(ast.NodeTransformer):
    def __init__(self, mapping: dict[str, ast.AST]) -> None:
        self.mapping = mapping

    def visit_Name(self, n: ast.Name) -> ast.AST:
        if isinstance(n.ctx, ast.Load) and n.id in self.mapping:
            return ast.copy_location(copy.deepcopy(self.mapping[n.id]), n)
        return n


def _inline_block(body: list[ast.stmt], fn: ast.AST, params: set[str]) -> list[ast.stmt]:
    out: list[ast.stmt] = []
    i = 0
    while i < len(body):
        st = body[i]
        nxt = body[i + 1] if i + 1 < len(body) else None
        pairs: list[tuple[str, ast.AST]] = []
        if isinstance(st, ast.Assign) and len(st.targets) == 1 and nxt is not None:
            t, v = st.targets[0], st.value
            if isinstance(t, ast.Name):
                pairs = [(t.id, v)]
            elif isinstance(t, ast.Tuple) and isinstance(v, ast.Tuple) and len(t.elts) == len(v.elts) \
                    and all(isinstance(x, ast.Name) for x in t.elts):
                pairs = [(x.id, y) for x, y in zip(t.elts, v.elts)]  # type: ignore[union-attr]
        if pairs and nxt is not None:
            ok = True
            for name, val in pairs:
                if name in params or name.startswith('__'):
                    ok = False
                    break
                if any(isinstance(x, (ast.Yield, ast.YieldFrom, ast.Await, ast.NamedExpr, ast.Lambda)) for x in ast.walk(val)):
                    ok = False
                    break
                loads = [n for n in ast.walk(fn) if isinstance(n, ast.Name) and n.id == name and isinstance(n.ctx, ast.Load)]
                stores = [n for n in ast.walk(fn) if isinstance(n, ast.Name) and n.id == name and not isinstance(n.ctx, ast.Load)]
                in_next = [n for n in ast.walk(nxt) if isinstance(n, ast.Name) and n.id == name and isinstance(n.ctx, ast.Load)]
                if len(loads) != 1 or len(stores) != 1 or len(in_next) != 1:
                    ok = False
                    break
                if len(pairs) > 1:
                    # all right-hand sides of a tuple assignment must be call-free so that their order does not matter
                    if any(isinstance(x, ast.Call) for _, vv in pairs for x in ast.walk(vv)):
                        ok = False
                        break
                    hdr = nxt.value if isinstance(nxt, (ast.Return, ast.Expr, ast.Assign)) else None
                    if hdr is None:
                        ok = False
                        break
                elif not _eval_order_ok(nxt, name):
                    ok = False
                    break
            if ok:
                new = _Subst(dict(pairs)).visit(copy.deepcopy(nxt))
                ast.fix_missing_locations(new)
                body = body[:i] + [new] + body[i + 2:]
                continue            # re-examine the merged statement with what follows
        # recurse into nested blocks
        for attr in ('body', 'orelse', 'finalbody'):
            blk = getattr(st, attr, None)
            if isinstance(blk, list) and blk and isinstance(blk[0], ast.stmt) and not isinstance(st, (ast.FunctionDef, ast.AsyncFunctionDef, ast.ClassDef)):
                setattr(st, attr, _inline_block(blk, fn, params))
        if isinstance(st, ast.Try):
            for h in st.handlers:
                h.body = _inline_block(h.body, fn, params)
        if isinstance(st, ast.Match):
            for c in st.cases:
                c.body = _inline_block(c.body, fn, params)
        out.append(st)
        i += 1
    return out


def _rooted_self(e: ast.AST) -> bool:
    while isinstance(e, (ast.Attribute, ast.Subscript, ast.Call)):
        e = e.value if not isinstance(e, ast.Call) else e.func
    return isinstance(e, ast.Name) and e.id == 'self'


class _Orient(ast.NodeTransformer):
    def visit_Compare(self, n: ast.Compare) -> ast.AST:
        self.generic_visit(n)
        if len(n.ops) != 1:
            return n
        op, l, r = n.ops[0], n.left, n.comparators[0]
        if isinstance(op, ast.Gt):
            return ast.copy_location(ast.Compare(left=r, ops=[ast.Lt()], comparators=[l]), n)
        if isinstance(op, ast.GtE):
            return ast.copy_location(ast.Compare(left=r, ops=[ast.LtE()], comparators=[l]), n)
        if isinstance(op, (ast.Eq, ast.NotEq, ast.Is, ast.IsNot)):
            if isinstance(l, ast.Constant) and not isinstance(r, ast.Constant):
                return ast.copy_location(ast.Compare(left=r, ops=[op], comparators=[l]), n)
            if isinstance(r, ast.Constant):
                return n
            ls, rs = _rooted_self(l), _rooted_self(r)
            if rs and not ls:
                return ast.copy_location(ast.Compare(left=r, ops=[op], comparators=[l]), n)
        return n

    def visit_Call(self, n: ast.Call) -> ast.AST:
        self.generic_visit(n)
        if isinstance(n.func, ast.Name) and n.func.id == 'isinstance' and len(n.args) == 2:
            alts: list[ast.AST] = []

            def flat(e: ast.AST) -> bool:
                if isinstance(e, ast.BinOp) and isinstance(e.op, ast.BitOr):
                    return flat(e.left) and flat(e.right)
                if isinstance(e, ast.Tuple):
                    return all(flat(x) for x in e.elts)
                if isinstance(e, (ast.Name, ast.Attribute)):
                    alts.append(e)
                    return True
                return False

            if isinstance(n.args[1], (ast.BinOp, ast.Tuple)) and flat(n.args[1]) and len(alts) > 1:
                alts.sort(key=lambda x: ast.unparse(x))
                n.args[1] = ast.copy_location(ast.Tuple(elts=alts, ctx=ast.Load()), n.args[1])
        return n

    def visit_BinOp(self, n: ast.BinOp) -> ast.AST:
        self.generic_visit(n)
        if not isinstance(n.op, (ast.Add, ast.Sub)):
            return n
        terms: list[tuple[int, ast.AST]] = []

        def flat(e: ast.AST, sign: int) -> bool:
            if isinstance(e, ast.BinOp) and isinstance(e.op, ast.Add):
                return flat(e.left, sign) and flat(e.right, sign)
            if isinstance(e, ast.BinOp) and isinstance(e.op, ast.Sub):
                return flat(e.left, sign) and flat(e.right, -sign)
            if isinstance(e, ast.UnaryOp) and isinstance(e.op, ast.USub):
                return flat(e.operand, -sign)
            if isinstance(e, (ast.Constant,)) and not isinstance(e.value, int):
                return False
            if isinstance(e, (ast.JoinedStr, ast.List, ast.Tuple, ast.ListComp, ast.Dict, ast.Set)):
                return False
            terms.append((sign, e))
            return True

        if not flat(n, 1):
            return n
        # only arithmetic that visibly is integer arithmetic: some term is len(...), an int constant, .index / .start / .stop / .line / .column
        def inty(e: ast.AST) -> bool:
            if isinstance(e, ast.Constant) and isinstance(e.value, int):
                return True
            if isinstance(e, ast.Call) and isinstance(e.func, ast.Name) and e.func.id == 'len':
                return True
            if isinstance(e, ast.Attribute) and e.attr in ('index', 'start', 'stop', 'line', 'column'):
                return True
            return False
        if not any(inty(t) for _, t in terms) or len(terms) < 2:
            return n
        if not any(s < 0 for s, _ in terms) and len(terms) < 3:
            return n
        pos = sorted([t for s, t in terms if s > 0], key=lambda x: ast.unparse(x))
        neg = sorted([t for s, t in terms if s < 0], key=lambda x: ast.unparse(x))
        if not pos:
            return n
        cur: ast.AST = pos[0]
        for t in pos[1:]:
            cur = ast.BinOp(left=cur, op=ast.Add(), right=t)
        for t in neg:
            cur = ast.BinOp(left=cur, op=ast.Sub(), right=t)
        return ast.copy_location(cur, n)


def canonicalise(tree: ast.Module) -> ast.Module:
    for fn in [n for n in ast.walk(tree) if isinstance(n, (ast.FunctionDef, ast.AsyncFunctionDef))]:
        a = fn.args
        params = {x.arg for x in [*a.posonlyargs, *a.args, *a.kwonlyargs]}
        if a.vararg:
            params.add(a.vararg.arg)
        if a.kwarg:
            params.add(a.kwarg.arg)
        fn.body = _inline_block(fn.body, fn, params)
    tree = _Orient().visit(tree)
    ast.fix_missing_locations(tree)
    return tree
