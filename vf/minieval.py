"""E3 -- tiny abstract evaluator for functions whose control flow depends only on presence / type tests.

The client supplies an object model (attribute get/set on modelled objects, calls of modelled primitives).
Values are opaque symbols, None, or modelled handles.  Unsupported syntax raises AnalysisError (exit 2).
"""
from __future__ import annotations

import ast
from typing import Any, Callable, Optional

from .model import AnalysisError, norm


class Refused(Exception):
    def __init__(self, what: str) -> None:
        super().__init__(what)
        self.what = what


class _Return(Exception):
    def __init__(self, value: Any) -> None:
        self.value = value


class MiniEval:
    def __init__(self, where: str, get_attr: Callable[[Any, str], Any], set_attr: Callable[[Any, str, Any], None],
                 call: Callable[[str, list, dict], Any], isinstance_: Callable[[Any, str], bool]) -> None:
        self.where = where
        self.get_attr = get_attr
        self.set_attr = set_attr
        self.call = call
        self.isinstance_ = isinstance_
        self.steps = 0

    def fail(self, node: ast.AST, what: str) -> AnalysisError:
        return AnalysisError(f'E3 ({self.where}): unsupported {what}: {norm(node)[:80]}')

    # ------------------------------------------------------------------ run
    def run(self, body: list[ast.stmt], env: dict[str, Any]) -> Any:
        try:
            self.block(body, env)
        except _Return as r:
            return r.value
        return None

    def block(self, body: list[ast.stmt], env: dict[str, Any]) -> None:
        for st in body:
            self.stmt(st, env)

    def stmt(self, st: ast.stmt, env: dict[str, Any]) -> None:
        self.steps += 1
        if isinstance(st, ast.Expr):
            if isinstance(st.value, ast.Constant):
                return
            self.expr(st.value, env)
        elif isinstance(st, ast.Assign) and len(st.targets) == 1:
            v = self.expr(st.value, env)
            self.assign(st.targets[0], v, env)
        elif isinstance(st, ast.If):
            if self.truth(self.expr(st.test, env)):
                self.block(st.body, env)
            else:
                self.block(st.orelse, env)
        elif isinstance(st, ast.Return):
            raise _Return(self.expr(st.value, env) if st.value is not None else None)
        elif isinstance(st, ast.Raise):
            raise Refused(norm(st)[:100])
        elif isinstance(st, ast.Match):
            subj = self.expr(st.subject, env)
            for case in st.cases:
                b = self.match(case.pattern, subj)
                if b is not None and (case.guard is None or self.truth(self.expr(case.guard, {**env, **b}))):
                    env.update(b)
                    self.block(case.body, env)
                    return
        elif isinstance(st, ast.Pass):
            return
        else:
            raise self.fail(st, 'statement')

    def assign(self, t: ast.AST, v: Any, env: dict[str, Any]) -> None:
        if isinstance(t, ast.Name):
            env[t.id] = v
        elif isinstance(t, ast.Attribute):
            self.set_attr(self.expr(t.value, env), t.attr, v)
        else:
            raise self.fail(t, 'assignment target')

    def truth(self, v: Any) -> bool:
        if v is None or v is False:
            return False
        return True

    # ------------------------------------------------------------------ expressions
    def expr(self, e: ast.AST, env: dict[str, Any]) -> Any:
        if isinstance(e, ast.Constant):
            return e.value if e.value is None or isinstance(e.value, bool) else ('const', e.value)
        if isinstance(e, ast.Name):
            if e.id in env:
                return env[e.id]
            return ('name', e.id)
        if isinstance(e, ast.NamedExpr):
            v = self.expr(e.value, env)
            env[e.target.id] = v
            return v
        if isinstance(e, ast.Attribute):
            base = self.expr(e.value, env)
            if isinstance(base, tuple) and base and base[0] == 'name':
                return ('name', f'{base[1]}.{e.attr}')
            return self.get_attr(base, e.attr)
        if isinstance(e, ast.BoolOp):
            v: Any = None
            for sub in e.values:
                v = self.expr(sub, env)
                if isinstance(e.op, ast.And) and not self.truth(v):
                    return v
                if isinstance(e.op, ast.Or) and self.truth(v):
                    return v
            return v
        if isinstance(e, ast.UnaryOp) and isinstance(e.op, ast.Not):
            return not self.truth(self.expr(e.operand, env))
        if isinstance(e, ast.Compare) and len(e.ops) == 1 and isinstance(e.ops[0], (ast.Is, ast.IsNot)):
            a, b = self.expr(e.left, env), self.expr(e.comparators[0], env)
            same = a is b or (a is None and b is None)
            return same if isinstance(e.ops[0], ast.Is) else not same
        if isinstance(e, ast.Compare) and len(e.ops) == 1 and isinstance(e.ops[0], (ast.Eq, ast.NotEq)):
            # equality of a value with a constant: decided only where the abstract value says what it is (('v', 'EMPTY') is the empty
            # string the repository itself supplies; any other value token is some non-empty text); anything else is refused
            a, b = self.expr(e.left, env), self.expr(e.comparators[0], env)
            if isinstance(b, tuple) and b[:1] == ('const',) and isinstance(a, tuple) and a[:1] == ('v',) or a is None:
                eq = (a is not None) and ((a == ('v', 'EMPTY')) == (b[1] == '')) and (a == ('v', 'EMPTY') or b[1] != '') and (a == ('v', 'EMPTY'))
                if a is None:
                    eq = False
                elif b[1] == '':
                    eq = a == ('v', 'EMPTY')
                else:
                    raise self.fail(e, 'comparison of an abstract value with a non-empty constant')
                return eq if isinstance(e.ops[0], ast.Eq) else not eq
            raise self.fail(e, 'expression')
        if isinstance(e, ast.IfExp):
            return self.expr(e.body, env) if self.truth(self.expr(e.test, env)) else self.expr(e.orelse, env)
        if isinstance(e, ast.Tuple):
            return ('tuple', tuple(self.expr(x, env) for x in e.elts))
        if isinstance(e, ast.Call):
            fn = e.func
            if isinstance(fn, ast.Name) and fn.id == 'isinstance' and len(e.args) == 2:
                return self.isinstance_(self.expr(e.args[0], env), norm(e.args[1]))
            name = norm(fn)
            recv = None
            if isinstance(fn, ast.Attribute):
                base = self.expr(fn.value, env)
                if not (isinstance(base, tuple) and base and base[0] == 'name'):
                    recv = base
                    name = '.' + fn.attr
                else:
                    name = f'{base[1]}.{fn.attr}'
            args = [self.expr(a, env) for a in e.args]
            kwargs = {k.arg: self.expr(k.value, env) for k in e.keywords if k.arg}
            if recv is not None:
                args = [recv] + args
            return self.call(name, args, kwargs)
        raise self.fail(e, 'expression')

    # ------------------------------------------------------------------ patterns
    def match(self, p: ast.AST, v: Any) -> Optional[dict[str, Any]]:
        if isinstance(p, ast.MatchAs):
            if p.pattern is None:
                return {p.name: v} if p.name else {}
            b = self.match(p.pattern, v)
            if b is None:
                return None
            if p.name:
                b[p.name] = v
            return b
        if isinstance(p, ast.MatchSingleton):
            return {} if v is p.value or (p.value is None and v is None) else None
        if isinstance(p, ast.MatchClass):
            return {} if v is not None and self.isinstance_(v, norm(p.cls)) else None
        if isinstance(p, ast.MatchSequence):
            if not (isinstance(v, tuple) and v and v[0] == 'tuple' and len(v[1]) == len(p.patterns)):
                return None
            out: dict[str, Any] = {}
            for sub, x in zip(p.patterns, v[1]):
                b = self.match(sub, x)
                if b is None:
                    return None
                out.update(b)
            return out
        raise self.fail(p, 'pattern')
