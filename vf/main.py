"""Driver: ./check <Cxx> [--tier quick|thorough] [--replay <path>].

exit 0  every structural obligation of the property discharged (known findings printed)
exit 1  VIOLATION property=<id> replay=<path>   (a finding not listed in known_findings.json)
exit 2  ANALYSIS-ERROR: the analyser could not interpret an anchored construct (fail closed)
"""
from __future__ import annotations

import argparse
import importlib
import json
import os
import sys
import time
import traceback

sys.path.insert(0, os.path.dirname(os.path.dirname(os.path.abspath(__file__))))

from vf import model, report  # noqa: E402


def main() -> int:
    ap = argparse.ArgumentParser()
    ap.add_argument('prop')
    ap.add_argument('--tier', default=os.environ.get('VERIF_TIER', 'quick'), choices=['quick', 'thorough'])
    ap.add_argument('--replay', default=None)
    args = ap.parse_args()
    prop = args.prop.upper()
    seed = int(os.environ.get('VERIF_SEED', '0') or 0)
    started = time.time()
    replay_key = None
    if args.replay:
        with open(args.replay) as f:
            replay_key = json.load(f)['key']
    try:
        mod = importlib.import_module(f'vf.rules.{prop.lower()}')
    except ModuleNotFoundError:
        print(f'ANALYSIS-ERROR: no check registered for {prop}')
        return 2
    ctx = report.RuleContext(prop, args.tier)
    try:
        program = model.Program()
        ctx.stats['repo_digest'] = program.digest.hexdigest()[:16]
        ctx.stats['modules'] = len(program.modules)
        ctx.stats['classes'] = len(program.classes)
        ctx.stats['functions'] = len(program.all_funcs)
        ctx.stats['analysed_in_reference_spelling'] = list(program.restored)
        mod.run(ctx, program)
        if ctx.errors:
            for e in ctx.errors:
                print(f'ANALYSIS-ERROR: property={prop} {e}')
            rc = report.finish(ctx, started, mod.EXPLANATION, seed, replay_key) if ctx.findings else 2
            return 1 if rc == 1 else 2
        return report.finish(ctx, started, mod.EXPLANATION, seed, replay_key)
    except model.AnalysisError as e:
        print(f'ANALYSIS-ERROR: property={prop} {e}')
        if ctx.findings:
            # findings established before the analyser gave up are still reported (a violation is never masked by exit 2)
            try:
                rc = report.finish(ctx, started, mod.EXPLANATION, seed, replay_key)
                if rc == 1:
                    return 1
            except model.AnalysisError:
                pass
        return 2
    except Exception:  # a crash of the analyser is never a verdict
        traceback.print_exc()
        print(f'ANALYSIS-ERROR: property={prop} analyser crashed (see traceback)')
        return 2


if __name__ == '__main__':
    sys.exit(main())
