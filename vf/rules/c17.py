"""C17 -- spacing accessors read and write exactly the whitespace between neighbours (structural clauses)."""
from __future__ import annotations

import ast
from typing import Any, Iterable

from ..model import AnalysisError, FuncInfo, Program, dotted, norm, self_attr, stmts_no_doc, walk_no_nested
from ..report import RuleContext
from ..walker import Walker

EXPLANATION = (
    'Static analysis (AST dominance, mirror-image agreement, regex language equivalence). Decides: SP-GUARD (_find_spacing only '
    'collects tokens dominated by an isinstance(token, Newline | Whitespace) test, skips only empty tokens before the run and '
    'stops at the first other token), SP-RANGE (each raw setter deletes exactly [current[0], current[-1]] of its own side\'s '
    'getter result or inserts adjacent to first_token/last_token on that side; before/after are mirror images: get_prev + '
    'reversed vs get_next), SP-ROUTE (the string accessors route to the raw accessors of the same side through '
    '_tokens_to_text/_text_to_tokens), SPACING-RE (the two alternatives of the spacing regex are language-equivalent to the '
    'grammar terminals WHITESPACE and _NEWLINE, map to the classes registered for those terminals, and every string of blanks '
    'and newlines is covered without loss). It does NOT decide which invisible tokens neighbour a model at run time.')


def rule_sp_guard(ctx: RuleContext, p: Program, rid: str) -> None:
    ctx.rule(rid, '_find_spacing(token, succ): first skips tokens with empty text, then collects while isinstance(token, '
                  'Newline | Whitespace) (appending only non-empty ones) and stops at the first other token; it only advances with succ')
    f = p.func('models.internal.spacing_accessors', '_find_spacing')
    tok, succ = f.params[0], f.params[1]
    loops = []
    for st in stmts_no_doc(f.node.body):
        if isinstance(st, ast.While):
            loops.append(st)
        elif isinstance(st, ast.Assign) and norm(st.targets[0]) == tok and isinstance(st.value, ast.Call) \
                and isinstance(st.value.func, ast.Name) and [norm(a) for a in st.value.args] == [tok, succ]:
            # a helper extracted from the scan: `token = helper(token, succ)` -> its loops with the parameters renamed
            h = f.module.symbols.get(st.value.func.id)
            if isinstance(h, FuncInfo) and len(h.params) == 2:
                hb = stmts_no_doc(h.node.body)
                rets = [x for x in hb if isinstance(x, ast.Return)]
                if len(rets) == 1 and norm(rets[0].value) == h.params[0] and all(isinstance(x, (ast.While, ast.Return)) for x in hb):
                    class Ren(ast.NodeTransformer):
                        def visit_Name(self, n: ast.Name) -> ast.AST:
                            return ast.copy_location(ast.Name(id={h.params[0]: tok, h.params[1]: succ}.get(n.id, n.id), ctx=n.ctx), n)
                    import copy as _copy
                    loops.extend(Ren().visit(_copy.deepcopy(x)) for x in hb if isinstance(x, ast.While))
    problems: list[str] = []
    if len(loops) != 2:
        raise AnalysisError('SP-GUARD: expected a skip loop and a collect loop in _find_spacing')
    skip, coll = loops
    t = norm(skip.test)
    if not (f'not {tok}.raw_text' in t and f'{tok} is not None' in t):
        problems.append(f'skip loop condition is `{t}`: must skip only empty-text tokens')
    if any(isinstance(x, ast.Call) and isinstance(x.func, ast.Attribute) and x.func.attr in ('append', 'extend', 'insert')
           for x in ast.walk(skip)):
        problems.append('skip loop collects tokens')
    ct = coll.test
    if not (isinstance(ct, ast.Call) and norm(ct.func) == 'isinstance' and norm(ct.args[0]) == tok
            and sorted(x.strip() for x in norm(ct.args[1]).strip('()').replace(',', '|').split('|')) == ['Newline', 'Whitespace']):
        problems.append(f'collect loop runs while `{norm(ct)}`, not while the token is a Newline or Whitespace')
    apps = [x for x in ast.walk(coll) if isinstance(x, ast.Call) and isinstance(x.func, ast.Attribute) and x.func.attr == 'append']
    if len(apps) != 1 or norm(apps[0].args[0]) != tok:
        problems.append('collect loop does not append exactly the current token')
    for lp in (skip, coll):
        adv = [a for a in ast.walk(lp) if isinstance(a, ast.Assign) and norm(a.targets[0]) == tok]
        if len(adv) != 1 or norm(adv[0].value) != f'{succ}({tok})':
            problems.append(f'loop advances with {[norm(a.value) for a in adv]}, not {succ}({tok})')
        if any(isinstance(x, (ast.Break, ast.Continue)) for x in ast.walk(lp)):
            problems.append('loop has break/continue (tokens could be skipped inside the run)')
    other_app = [x for x in walk_no_nested(f.node) if isinstance(x, ast.Call) and isinstance(x.func, ast.Attribute)
                 and x.func.attr in ('append', 'extend', 'insert') and not any(norm(x) == norm(y) for y in ast.walk(coll) if isinstance(y, ast.Call))]
    if other_app:
        problems.append('tokens are collected outside the guarded loop')
    ctx.check(not problems, rid, 'models.internal.spacing_accessors:_find_spacing', '; '.join(problems) or 'ok',
              '; '.join(problems), f.where, note='skip empty; collect while Newline|Whitespace; advance by succ')


def rule_sp_range(ctx: RuleContext, p: Program, rid: str) -> None:
    ctx.rule(rid, 'raw_spacing_before/after: getter = _find_spacing(prev/next of first/last token, get_prev/get_next) '
                  '(before: reversed); setter replaces exactly [current[0], current[-1]] of the same side\'s getter, or inserts '
                  'before first_token / after last_token when there is none; refused without a store before any edit')
    mx = p.cls('SpacingAccessorsMixin', 'models.internal.spacing_accessors')
    for side, edge, succ, rev, ins in (('before', 'first_token', 'get_prev', True, 'insert_before'),
                                       ('after', 'last_token', 'get_next', False, 'insert_after')):
        g = p.method(mx, f'raw_spacing_{side}', inherited=False)
        rets = [r.value for r in walk_no_nested(g.node) if isinstance(r, ast.Return) and r.value is not None]
        calls = [c for r in rets for c in ast.walk(r) if isinstance(c, ast.Call) and norm(c.func) == '_find_spacing']
        problems: list[str] = []
        if len(calls) != 1:
            problems.append('getter does not call _find_spacing once')
        else:
            a0, a1 = (norm(a) for a in calls[0].args)
            if a0 != f'self.token_store.{succ}(self.{edge})' or a1 != f'self.token_store.{succ}':
                problems.append(f'getter scans from {a0} with {a1}; expected self.token_store.{succ}(self.{edge}) with self.token_store.{succ}')
            outer = next(r for r in rets if any(c is calls[0] for c in ast.walk(r)))
            has_rev = any(isinstance(c, ast.Call) and norm(c.func) == 'reversed' for c in ast.walk(outer))
            if has_rev != rev:
                problems.append(f'getter {"does not reverse" if rev else "reverses"} the scan result (document order required)')
        ctx.check(not problems, rid, f'models.internal.spacing_accessors:SpacingAccessorsMixin.raw_spacing_{side}',
                  '; '.join(problems) or 'ok', '; '.join(problems), g.where, note=f'{succ} from {edge}' + (' reversed' if rev else ''))
        s = p.method(mx, f'raw_spacing_{side}', setter=True, inherited=False)
        val = s.params[1]
        problems = []
        cur = [a for a in walk_no_nested(s.node) if isinstance(a, ast.Assign) and norm(a.value) == f'self.raw_spacing_{side}']
        if len(cur) != 1:
            problems.append(f'setter does not read self.raw_spacing_{side} for the current run')
        else:
            cv = norm(cur[0].targets[0])
            sp = [c for c in walk_no_nested(s.node) if isinstance(c, ast.Call) and isinstance(c.func, ast.Attribute)
                  and c.func.attr in ('splice', 'insert_before', 'insert_after', 'remove', 'replace')]
            kinds = sorted(c.func.attr for c in sp)  # type: ignore[union-attr]
            if kinds != sorted(['splice', ins]):
                problems.append(f'setter edits with {kinds}, expected splice + {ins}')
            for c in sp:
                if c.func.attr == 'splice' and [norm(a) for a in c.args] != [val, f'{cv}[0]', f'{cv}[-1]']:  # type: ignore[union-attr]
                    problems.append(f'splice replaces {[norm(a) for a in c.args]}, expected ({val}, {cv}[0], {cv}[-1])')
                if c.func.attr == ins and [norm(a) for a in c.args] != [f'self.{edge}', val]:  # type: ignore[union-attr]
                    problems.append(f'{ins} called with {[norm(a) for a in c.args]}, expected (self.{edge}, {val})')
            br = [i for i in walk_no_nested(s.node) if isinstance(i, ast.If) and norm(i.test) == cv]
            if len(br) != 1:
                problems.append('setter does not branch on whether a run exists')
        # refusal before edit
        first = stmts_no_doc(s.node.body)[0]
        if not (isinstance(first, ast.If) and 'token_store is None' in norm(first.test)
                and any(isinstance(x, ast.Raise) for x in first.body)):
            problems.append('missing store check before any edit')
        ctx.check(not problems, rid, f'models.internal.spacing_accessors:SpacingAccessorsMixin.raw_spacing_{side}[set]',
                  '; '.join(problems) or 'ok', '; '.join(problems), s.where, note=f'splice(current[0], current[-1]) | {ins}({edge})')


def rule_sp_route(ctx: RuleContext, p: Program, rid: str) -> None:
    ctx.rule(rid, 'spacing_before/after route to raw_spacing_before/after of the same side through _tokens_to_text / '
                  '_text_to_tokens; _tokens_to_text concatenates raw_text of every token; _text_to_tokens yields a Whitespace for '
                  'group 1 and a Newline for group 2 of every match, in order')
    mx = p.cls('SpacingAccessorsMixin', 'models.internal.spacing_accessors')
    for side in ('before', 'after'):
        g = p.method(mx, f'spacing_{side}', inherited=False)
        r = [x.value for x in walk_no_nested(g.node) if isinstance(x, ast.Return)]
        ctx.check(len(r) == 1 and norm(r[0]) == f'_tokens_to_text(self.raw_spacing_{side})', rid,
                  f'SpacingAccessorsMixin.spacing_{side}', norm(r[0]) if r else '', f'spacing_{side} getter does not read raw_spacing_{side}', g.where)
        s = p.method(mx, f'spacing_{side}', setter=True, inherited=False)
        a = [x for x in walk_no_nested(s.node) if isinstance(x, ast.Assign)]
        ok = len(a) == 1 and norm(a[0].targets[0]) == f'self.raw_spacing_{side}' and \
            norm(a[0].value) in (f'tuple(_text_to_tokens({s.params[1]}))', f'list(_text_to_tokens({s.params[1]}))')
        ctx.check(ok, rid, f'SpacingAccessorsMixin.spacing_{side}[set]', norm(a[0]) if a else '',
                  f'spacing_{side} setter does not assign raw_spacing_{side} from _text_to_tokens(value)', s.where)
    t2t = p.func('models.internal.spacing_accessors', '_tokens_to_text')
    r = [x.value for x in walk_no_nested(t2t.node) if isinstance(x, ast.Return)]
    ok = len(r) == 1 and isinstance(r[0], ast.Call) and norm(r[0].func) == "''.join" and \
        isinstance(r[0].args[0], (ast.GeneratorExp, ast.ListComp)) and norm(r[0].args[0].elt).endswith('.raw_text') \
        and not r[0].args[0].generators[0].ifs
    ctx.check(ok, rid, '_tokens_to_text', norm(r[0]) if r else '', '_tokens_to_text does not join raw_text of every token', t2t.where)
    t2k = p.func('models.internal.spacing_accessors', '_text_to_tokens')
    lp = [l for l in walk_no_nested(t2k.node) if isinstance(l, ast.For)]
    ok = False
    if len(lp) == 1 and isinstance(lp[0].iter, ast.Call) and norm(lp[0].iter.func) == '_SPACING_GROUP_RE.findall' \
            and isinstance(lp[0].target, ast.Tuple) and len(lp[0].target.elts) == 2:
        g1, g2 = (norm(e) for e in lp[0].target.elts)
        ys = []
        for st in lp[0].body:
            if isinstance(st, ast.If) and len(st.body) == 1 and isinstance(st.body[0], ast.Expr) \
                    and isinstance(st.body[0].value, ast.Yield) and not st.orelse:
                ys.append((norm(st.test), norm(st.body[0].value.value)))
        ok = ys == [(g1, f'Whitespace.from_raw_text({g1})'), (g2, f'Newline.from_raw_text({g2})')]
    ctx.check(ok, rid, '_text_to_tokens', 'group1 -> Whitespace, group2 -> Newline', '_text_to_tokens does not map group 1 to '
              'Whitespace and group 2 to Newline for every match', t2k.where)


def run(ctx: RuleContext, p: Program) -> None:
    ctx.try_rule(rule_sp_guard, p, 'SP-GUARD')
    ctx.try_rule(rule_sp_range, p, 'SP-RANGE')
    ctx.try_rule(rule_sp_route, p, 'SP-ROUTE')
    from . import grammar_rules
    ctx.try_rule(grammar_rules.rule_spacing_re, p, 'SPACING-RE')
    ctx.not_decided += ['which invisible tokens neighbour a model at run time', 'that adjacent models see the same run (follows from '
                        'the mirror-image getters, not observed)']
    ctx.assumptions += ['TokenStore.get_prev/get_next/splice/insert semantics (C07)']
