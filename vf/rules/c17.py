"""C17 -- spacing accessors read and write exactly the whitespace between neighbours (structural clauses)."""
from __future__ import annotations

import ast
from typing import Any, Iterable, Optional

from ..model import AnalysisError, ClassInfo, FuncInfo, Program, dotted, norm, self_attr, stmts_no_doc, walk_no_nested
from ..report import RuleContext
from ..walker import Walker

EXPLANATION = (
    'Static analysis (AST dominance, mirror-image agreement, regex language equivalence). Decides: SP-SEM (_find_spacing, interpreted from its '
    'AST over every sequence of up to 5 abstract neighbour tokens -- 7 in the thorough tier -- returns exactly the non-empty blank tokens '
    'of the first blank run after the leading zero-width tokens, so no mark lies inside the spliced range), SP-RANGE (each raw setter deletes exactly [current[0], current[-1]] of its own side\'s '
    'getter result or inserts adjacent to first_token/last_token on that side; before/after are mirror images: get_prev + '
    'reversed vs get_next), SP-ROUTE (the string accessors route to the raw accessors of the same side through '
    '_tokens_to_text/_text_to_tokens), SPACING-RE (the two alternatives of the spacing regex are language-equivalent to the '
    'grammar terminals WHITESPACE and _NEWLINE, map to the classes registered for those terminals, and every string of blanks '
    'and newlines is covered without loss). It does NOT decide which invisible tokens neighbour a model at run time.')


def rule_sp_range(ctx: RuleContext, p: Program, rid: str) -> None:
    ctx.rule(rid, 'raw_spacing_before/after: getter = _find_spacing(prev/next of first/last token, get_prev/get_next) '
                  '(before: reversed); setter replaces exactly [current[0], current[-1]] of the same side\'s getter, or inserts '
                  'before first_token / after last_token when there is none; refused without a store before any edit')
    mx = p.cls('SpacingAccessorsMixin', 'models.internal.spacing_accessors')
    for side, edge, succ, rev, ins in (('before', 'first_token', 'get_prev', True, 'insert_before'),
                                       ('after', 'last_token', 'get_next', False, 'insert_after')):
        g = p.method(mx, f'raw_spacing_{side}', inherited=False)
        rets = [r.value for r in walk_no_nested(g.node) if isinstance(r, ast.Return) and r.value is not None]
        calls = [c for r in rets for c in ast.walk(r) if isinstance(c, ast.Call) and norm(c.func) == '_find_spacing']
        problems: list[str] = []
        if len(calls) != 1:
            problems.append('getter does not call _find_spacing once')
        else:
            a0, a1 = (norm(a) for a in calls[0].args)
            if a0 != f'self.token_store.{succ}(self.{edge})' or a1 != f'self.token_store.{succ}':
                problems.append(f'getter scans from {a0} with {a1}; expected self.token_store.{succ}(self.{edge}) with self.token_store.{succ}')
            outer = next(r for r in rets if any(c is calls[0] for c in ast.walk(r)))
            has_rev = any(isinstance(c, ast.Call) and norm(c.func) == 'reversed' for c in ast.walk(outer))
            if has_rev != rev:
                problems.append(f'getter {"does not reverse" if rev else "reverses"} the scan result (document order required)')
        ctx.check(not problems, rid, f'models.internal.spacing_accessors:SpacingAccessorsMixin.raw_spacing_{side}',
                  '; '.join(problems) or 'ok', '; '.join(problems), g.where, note=f'{succ} from {edge}' + (' reversed' if rev else ''))
        s = p.method(mx, f'raw_spacing_{side}', setter=True, inherited=False)
        val = s.params[1]
        problems = []
        cur = [a for a in walk_no_nested(s.node) if isinstance(a, ast.Assign) and norm(a.value) == f'self.raw_spacing_{side}']
        if len(cur) != 1:
            problems.append(f'setter does not read self.raw_spacing_{side} for the current run')
        else:
            cv = norm(cur[0].targets[0])
            sp = [c for c in walk_no_nested(s.node) if isinstance(c, ast.Call) and isinstance(c.func, ast.Attribute)
                  and c.func.attr in ('splice', 'insert_before', 'insert_after', 'remove', 'replace')]
            kinds = sorted(c.func.attr for c in sp)  # type: ignore[union-attr]
            if kinds != sorted(['splice', ins]):
                problems.append(f'setter edits with {kinds}, expected splice + {ins}')
            for c in sp:
                if c.func.attr == 'splice' and [norm(a) for a in c.args] != [val, f'{cv}[0]', f'{cv}[-1]']:  # type: ignore[union-attr]
                    problems.append(f'splice replaces {[norm(a) for a in c.args]}, expected ({val}, {cv}[0], {cv}[-1])')
                if c.func.attr == ins and [norm(a) for a in c.args] != [f'self.{edge}', val]:  # type: ignore[union-attr]
                    problems.append(f'{ins} called with {[norm(a) for a in c.args]}, expected (self.{edge}, {val})')
            br = [i for i in walk_no_nested(s.node) if isinstance(i, ast.If) and norm(i.test) == cv]
            if len(br) != 1:
                problems.append('setter does not branch on whether a run exists')
        # refusal before edit
        first = stmts_no_doc(s.node.body)[0]
        if not (isinstance(first, ast.If) and 'token_store is None' in norm(first.test)
                and any(isinstance(x, ast.Raise) for x in first.body)):
            problems.append('missing store check before any edit')
        ctx.check(not problems, rid, f'models.internal.spacing_accessors:SpacingAccessorsMixin.raw_spacing_{side}[set]',
                  '; '.join(problems) or 'ok', '; '.join(problems), s.where, note=f'splice(current[0], current[-1]) | {ins}({edge})')


def rule_sp_acc(ctx: RuleContext, p: Program, rid: str, ctx_len: int = 3) -> None:
    """finite-domain evaluation of the four raw spacing accessors against a mock store"""
    import itertools
    from . import possem
    from .tokenstore import TS
    ctx.rule(rid, 'raw_spacing_before / raw_spacing_after, getter and setter, interpreted over every document '
                  '<left context> <model of 1-2 tokens> <right context> with contexts of up to %d abstract tokens (zero-width mark, empty blank, '
                  'non-empty blank, other) against a mock store: the getter returns, in document order, the non-empty blanks of the run '
                  'adjacent to the model\'s first / last token; the setter leaves a document in which exactly the span from the first to the '
                  'last token of that run is replaced by the new tokens -- or, with no run, the new tokens are inserted right before the first '
                  '/ right after the last token of the model -- and everything else is untouched; without a store the setter raises before '
                  'doing anything' % ctx_len)
    m = p.module('models.internal.spacing_accessors')
    mx = p.cls('SpacingAccessorsMixin', 'models.internal.spacing_accessors')
    ts = TS(p)
    class_of = {'Eol': p.cls('Eol'), 'Whitespace': p.cls('Whitespace'), 'Newline': p.cls('Newline'), 'Account': p.cls('Account')}
    kinds = {'Z': ('Eol', ''), 'z': ('Whitespace', ''), 'S': ('Whitespace', ' '), 'O': ('Account', 'x'), 'N': ('Newline', '\n')}
    getters = {side: p.method(mx, f'raw_spacing_{side}', inherited=False) for side in ('before', 'after')}
    setters = {side: p.method(mx, f'raw_spacing_{side}', setter=True, inherited=False) for side in ('before', 'after')}

    class Interp(possem.PosInterp):
        tag = 'SP-ACC'

        def __init__(self, doc: list, me: Any) -> None:
            super().__init__(ts, [], module=m)
            self.doc, self.me = doc, me
            self.edits = 0
            self.split: Optional[int] = None
            self.unknown_used = False

        def idx(self, t: Any, node: Any) -> int:
            for i, x in enumerate(self.doc):
                if x is t:
                    return i
            raise possem.Raised('ValueError: token is not in the store')

        def store_call(self, name: str, args: list, node: Any) -> Any:
            d = self.doc
            if name in ('get_prev', 'get_next'):
                i = self.idx(args[0], node)
                j = i - 1 if name == 'get_prev' else i + 1
                return d[j] if 0 <= j < len(d) else None
            self.edits += 1
            if name == 'splice':
                new, a, b = list(args[0]), args[1], args[2] if len(args) > 2 else None
                i = 0 if a is None else self.idx(a, node)
                j = i if b is None else self.idx(b, node) + 1
                d[i:j] = new
                return None
            if name in ('insert_before', 'insert_after'):
                ref, new = args[0], list(args[1])
                i = (0 if ref is None else self.idx(ref, node)) if name == 'insert_before' else (0 if ref is None else self.idx(ref, node) + 1)
                d[i:i] = new
                return None
            if name == 'remove':
                i = self.idx(args[0], node)
                j = self.idx(args[1], node) + 1 if len(args) > 1 and args[1] is not None else i + 1
                del d[i:j]
                return None
            if name == 'replace':
                d[self.idx(args[0], node)] = args[1]
                return None
            if f'TokenStore.{name}' in ts.funcs:
                # a store method this mock does not model (a new iterator / lookup): its own code, interpreted on an abstract store of
                # len(doc) tokens cut into blocks at self.split (the caller repeats the case for every cut)
                self.edits -= 1
                self.unknown_used = True
                layout = [len(d)] if self.split is None else [self.split, len(d) - self.split]
                enc = [('tok', self.idx(a, node)) if isinstance(a, possem.Obj) else a for a in args]
                res, changed = possem.store_query(ts, name, layout, enc)
                if changed:
                    raise self.err(node, f'store method {name} changes the store; not modelled here')

                def dec(v: Any) -> Any:
                    if isinstance(v, tuple) and len(v) == 2 and v[0] == 'tok':
                        return d[v[1]]
                    if isinstance(v, tuple) and len(v) == 2 and v[0] == 'raises':
                        raise possem.Raised(f'{v[1]} (in TokenStore.{name})')
                    if isinstance(v, list):
                        return [dec(x) for x in v]
                    if isinstance(v, tuple):
                        raise self.err(node, f'store method {name} returns {v!r}')
                    return v
                out = dec(res)
                fn_ = ts.funcs[f'TokenStore.{name}']
                if isinstance(out, list) and any(isinstance(x, (ast.Yield, ast.YieldFrom)) for x in ast.walk(fn_.node)):
                    return possem._It(out)          # a generator method hands out an iterator
                return out
            raise self.err(node, f'store method {name}')

        def expr(self, e: Any, env: dict) -> Any:            # type: ignore[override]
            if isinstance(e, ast.Attribute):
                b = e.value
                if isinstance(b, ast.Name) and env.get(b.id) is self.me:
                    if e.attr in ('raw_spacing_before', 'raw_spacing_after'):
                        return self.call_function(getters[e.attr.rsplit('_', 1)[1]], [self.me], {})
                    if e.attr in self.me.f:
                        return self.me.f[e.attr]
                bv = self.expr(b, env) if not (isinstance(b, ast.Name) and b.id not in env) else None
                if isinstance(bv, possem.Obj) and bv.cls == 'Store':
                    name = e.attr
                    return lambda *a: self.store_call(name, list(a), e)
            if isinstance(e, (ast.Name, ast.Attribute)) and not (isinstance(e, ast.Name) and e.id in env):
                sym_ = p.resolve_expr(m, e)
                if isinstance(sym_, ClassInfo):
                    return sym_
                if isinstance(e, ast.Name) and isinstance(sym_, FuncInfo):
                    return sym_
            if isinstance(e, ast.BinOp) and isinstance(e.op, ast.BitOr):
                l, r = self.expr(e.left, env), self.expr(e.right, env)
                flat: list = []
                for x in (l, r):
                    flat.extend(x if isinstance(x, tuple) else [x])
                return tuple(flat)
            if isinstance(e, ast.Call) and isinstance(e.func, ast.Name) and e.func.id == 'isinstance' and e.func.id not in env:
                v = self.expr(e.args[0], env)
                c = self.expr(e.args[1], env)
                cs = c if isinstance(c, tuple) else (c,)
                if not all(isinstance(k, ClassInfo) for k in cs):
                    raise self.err(e, 'isinstance against something that is not a repository class')
                return isinstance(v, possem.Obj) and v.cls in class_of and any(class_of[v.cls].is_subclass_of(k) for k in cs)
            if isinstance(e, ast.Call):
                f = self.expr(e.func, env) if not (isinstance(e.func, ast.Name) and e.func.id not in env) else None
                if callable(f) and not isinstance(f, (FuncInfo, possem.Builtin, possem.Bound, possem.ClassRef, possem._Lambda)):
                    return f(*[self.expr(a, env) for a in e.args])
            return super().expr(e, env)

        def stmt(self, st: Any, env: dict) -> None:           # type: ignore[override]
            if isinstance(st, ast.Raise):
                raise possem.Raised(norm(st.exc)[:60] if st.exc is not None else 'raise')
            if isinstance(st, ast.Assign) and len(st.targets) == 1 and isinstance(st.targets[0], ast.Attribute) \
                    and isinstance(st.targets[0].value, ast.Name) and env.get(st.targets[0].value.id) is self.me \
                    and st.targets[0].attr in ('raw_spacing_before', 'raw_spacing_after'):
                self.call_function(setters[st.targets[0].attr.rsplit('_', 1)[1]], [self.me, self.expr(st.value, env)], {})
                return
            super().stmt(st, env)

    def run_ref(doc: list, side: str, first: int, last: int) -> list[int]:
        i = first - 1 if side == 'before' else last + 1
        step = -1 if side == 'before' else 1
        while 0 <= i < len(doc) and doc[i].f['raw_text'] == '':
            i += step
        out = []
        while 0 <= i < len(doc) and doc[i].cls in ('Whitespace', 'Newline'):
            if doc[i].f['raw_text']:
                out.append(i)
            i += step
        return sorted(out)

    def mk(seq: str, tag: str) -> list:
        return [possem.Obj(kinds[ch][0], {'raw_text': kinds[ch][1]}, f'{tag}{i}:{ch}') for i, ch in enumerate(seq)]

    problems: dict[str, str] = {}
    n = 0
    ctxs = [''.join(x) for k in range(0, ctx_len + 1) for x in itertools.product('ZzSON', repeat=k)]
    for left in ctxs:
        for right in ctxs:
            for msize in (1, 2):
                for side in ('before', 'after'):
                    if (side == 'before' and right not in ('', 'S')) or (side == 'after' and left not in ('', 'S')):
                        continue          # the far side is irrelevant to this accessor: two representatives are enough
                    doc = mk(left, 'l') + mk('O' * msize, 'm') + mk(right, 'r')
                    store = possem.Obj('Store', {}, 'store')
                    first, last = len(left), len(left) + msize - 1
                    me = possem.Obj('Model', {'token_store': store, 'first_token': doc[first], 'last_token': doc[last]}, 'model')
                    show = f'{" ".join(left) or "-"} [{"O " * msize}] {" ".join(right) or "-"}'.replace('Z', 'mark').replace('z', 'empty').replace('S', 'blank').replace('N', 'newline').replace('O', 'other')
                    want = run_ref(doc, side, first, last)
                    splits: list = [None]
                    si = 0
                    while si < len(splits):
                      split = splits[si]
                      si += 1
                      cut = '' if split is None else f' (store blocks cut after token {split})'
                      it = Interp(list(doc), me)
                      it.split = split
                      n += 1
                      try:
                        got = it.call_function(getters[side], [me], {})
                      except possem.Raised as ex:
                        problems.setdefault(f'raw_spacing_{side}', f'document {show}{cut}: the getter raises {ex}')
                        continue
                      if it.unknown_used and split is None:
                        splits += list(range(1, len(doc)))
                      gi = [next((i for i, t in enumerate(doc) if t is r), -1) for r in (got or ())]
                      if gi != want or it.edits:
                        problems.setdefault(f'raw_spacing_{side}', f'document {show}{cut}: the getter returns positions {gi}, the adjacent run (in document order) is {want}'
                                            + ('; it edits the store' if it.edits else ''))
                        continue
                      new = [possem.Obj('Whitespace', {'raw_text': '  '}, 'new0'), possem.Obj('Newline', {'raw_text': '\n'}, 'new1')]
                      for payload in (new, []):
                        work = list(doc)
                        it2 = Interp(work, me)
                        it2.split = split
                        try:
                            it2.call_function(setters[side], [me, tuple(payload)], {})
                        except possem.Raised as ex:
                            problems.setdefault(f'raw_spacing_{side}[set]', f'document {show}{cut}: the setter raises {ex}')
                            continue
                        if want:
                            exp = doc[:want[0]] + payload + doc[want[-1] + 1:]
                        elif side == 'before':
                            exp = doc[:first] + payload + doc[first:]
                        else:
                            exp = doc[:last + 1] + payload + doc[last + 1:]
                        if [id(x) for x in work] != [id(x) for x in exp]:
                            def names(ts_: list) -> str:
                                return ' '.join(t.label for t in ts_)
                            problems.setdefault(f'raw_spacing_{side}[set]', f'document {show}{cut}: assigning {len(payload)} token(s) gives [{names(work)}], expected [{names(exp)}]')
    # no store: refused before anything happens
    for side in ('before', 'after'):
        tok = possem.Obj('Account', {'raw_text': 'x'}, 'free')
        me = possem.Obj('Model', {'token_store': None, 'first_token': tok, 'last_token': tok}, 'free model')
        it = Interp([tok], me)
        try:
            it.call_function(setters[side], [me, ()], {})
            problems.setdefault(f'raw_spacing_{side}[set]', 'without a token store the setter does not raise')
        except possem.Raised:
            pass
        it = Interp([tok], me)
        try:
            r = it.call_function(getters[side], [me], {})
            if r not in ((), []):
                problems.setdefault(f'raw_spacing_{side}', f'without a token store the getter returns {r!r}')
        except possem.Raised as ex:
            problems.setdefault(f'raw_spacing_{side}', f'without a token store the getter raises {ex}')
    if n < 500:
        raise AnalysisError(f'SP-ACC: only {n} documents evaluated')
    for side in ('before', 'after'):
        for suffix, fn in (('', getters[side]), ('[set]', setters[side])):
            key = f'raw_spacing_{side}{suffix}'
            ctx.check(key not in problems, rid, f'models.internal.spacing_accessors:SpacingAccessorsMixin.{key}', 'adjacent run read / replaced',
                      problems.get(key, ''), fn.where, note=f'{n} documents')


def rule_sp_route(ctx: RuleContext, p: Program, rid: str) -> None:
    """finite-domain evaluation of the string accessors and their two converters"""
    import itertools
    from . import possem
    from .tokenstore import TS
    ctx.rule(rid, 'the string accessors, interpreted (with whatever helpers of other modules they call): _text_to_tokens, for every spacing text of '
                  'up to 5 units over {space, tab, LF, CRLF} -- the domain of the property --, yields one Whitespace per maximal run of blanks and '
                  'one Newline per line terminator, in order, each with exactly its text; _tokens_to_text concatenates raw_text of every token; spacing_before / '
                  'spacing_after read _tokens_to_text of the raw accessor of the same side and assign _text_to_tokens(value) to it')
    m = p.module('models.internal.spacing_accessors')
    mx = p.cls('SpacingAccessorsMixin', 'models.internal.spacing_accessors')
    ts = TS(p)
    t2k = p.func('models.internal.spacing_accessors', '_text_to_tokens')
    t2t = p.func('models.internal.spacing_accessors', '_tokens_to_text')

    by_rule: dict = {}
    for c_ in p.registered('token_model'):
        r_ = p.class_const(c_, 'RULE')
        if isinstance(r_, ast.Constant):
            by_rule[r_.value] = c_.name
    token_classes = set(by_rule.values())

    class Interp(possem.PosInterp):
        tag = 'SP-ROUTE'

        def __init__(self, me: Any = None) -> None:
            super().__init__(ts, [], module=m)
            self.me = me
            self.assigned: dict = {}

        def expr(self, e: Any, env: dict) -> Any:                 # type: ignore[override]
            if isinstance(e, ast.Call) and isinstance(e.func, ast.Attribute) and e.func.attr == 'from_raw_text' and isinstance(e.func.value, ast.Name) \
                    and e.func.value.id in ('Whitespace', 'Newline') and e.func.value.id not in env:
                return possem.Obj(e.func.value.id, {'raw_text': self.expr(e.args[0], env)}, e.func.value.id)
            if isinstance(e, ast.Call) and isinstance(e.func, ast.Attribute) and e.func.attr == 'from_raw_text' \
                    and not (isinstance(e.func.value, ast.Name) and e.func.value.id not in env and e.func.value.id not in ('Whitespace', 'Newline')):
                kv = self.expr(e.func.value, env)          # the class reached through a variable: `for token_cls, text in ((Whitespace, ws), (Newline, nl))`
                if isinstance(kv, possem.ClassRef) and (kv.name in ('Whitespace', 'Newline') or kv.name in token_classes):
                    return possem.Obj(kv.name, {'raw_text': self.expr(e.args[0], env)}, kv.name)
            if isinstance(e, ast.Subscript) and norm(e.value).rsplit('.', 1)[-1] == 'TOKEN_MODELS' and not (isinstance(e.value, ast.Name) and e.value.id in env):
                k_ = self.expr(e.slice, env)              # the registry: the token class registered under that terminal name
                if k_ not in by_rule:
                    raise possem.Raised(f'KeyError: {k_!r}')
                return possem.ClassRef(by_rule[k_])
            if isinstance(e, ast.Name) and e.id in ('Whitespace', 'Newline') and e.id not in env:
                return possem.ClassRef(e.id)
            if isinstance(e, ast.Call) and isinstance(e.func, ast.Attribute) and e.func.attr == 'join' and isinstance(e.func.value, ast.Constant):
                return e.func.value.value.join(self.iter_of(self.expr(e.args[0], env), e))
            if isinstance(e, ast.Attribute) and isinstance(e.value, ast.Name) and self.me is not None and env.get(e.value.id) is self.me \
                    and e.attr in ('raw_spacing_before', 'raw_spacing_after'):
                return self.me.f[e.attr]
            if isinstance(e, ast.Name) and e.id not in env:
                f_ = next((f for f in p.functions_in(m) if f.qualname == e.id), None)
                if f_ is not None:
                    return f_
            return super().expr(e, env)

        def stmt(self, st: Any, env: dict) -> None:           # type: ignore[override]
            if isinstance(st, ast.Assign) and len(st.targets) == 1 and isinstance(st.targets[0], ast.Attribute) and self.me is not None \
                    and isinstance(st.targets[0].value, ast.Name) and env.get(st.targets[0].value.id) is self.me:
                self.assigned[st.targets[0].attr] = self.expr(st.value, env)
                return
            super().stmt(st, env)

    def reference(text: str) -> list[tuple[str, str]]:
        out: list[tuple[str, str]] = []
        i = 0
        while i < len(text):
            ch = text[i]
            if ch in ' \t':
                j = i
                while j < len(text) and text[j] in ' \t':
                    j += 1
                out.append(('Whitespace', text[i:j]))
                i = j
            elif ch in '\r\n':
                j = i
                while j < len(text) and text[j] == '\r':
                    j += 1
                if j < len(text) and text[j] == '\n':
                    out.append(('Newline', text[i:j + 1]))
                    i = j + 1
                else:
                    i = j if j > i else i + 1      # CRs that no LF follows are not a line terminator: skipped
            else:
                i += 1
        return out

    problem = ''
    n = 0
    for k in range(0, 6):
        for chars in itertools.product((' ', '\t', '\n', '\r\n'), repeat=k):
            text = ''.join(chars)
            n += 1
            try:
                got = Interp().call_function(t2k, [text], {})
            except possem.Raised as ex:
                problem = problem or f'{text!r}: raises {ex}'
                continue
            shape = [(g.cls, g.f['raw_text']) for g in (got or []) if isinstance(g, possem.Obj)]
            if shape != reference(text) and not problem:
                problem = f'_text_to_tokens({text!r}) yields {shape}, expected {reference(text)}'
    ctx.check(not problem, rid, '_text_to_tokens', 'blank runs -> Whitespace, line terminators -> Newline', problem, t2k.where, note=f'{n} strings')
    toks = [possem.Obj('Whitespace', {'raw_text': '  '}, 'a'), possem.Obj('Newline', {'raw_text': '\r\n'}, 'b'), possem.Obj('Whitespace', {'raw_text': '\t'}, 'c')]
    problem = ''
    for sub in (toks[:0], toks[:1], toks[:2], toks):
        try:
            got = Interp().call_function(t2t, [list(sub)], {})
        except possem.Raised as ex:
            got = f'raises {ex}'
        if got != ''.join(t.f['raw_text'] for t in sub):
            problem = problem or f'_tokens_to_text of {len(sub)} tokens gives {got!r}'
    ctx.check(not problem, rid, '_tokens_to_text', 'concatenation of raw_text', problem, t2t.where)
    for side in ('before', 'after'):
        other = 'after' if side == 'before' else 'before'
        g = p.method(mx, f'spacing_{side}', inherited=False)
        me = possem.Obj('Model', {f'raw_spacing_{side}': tuple(toks), f'raw_spacing_{other}': (possem.Obj('Whitespace', {'raw_text': 'WRONG'}, 'w'),)}, 'model')
        it = Interp(me)
        try:
            got = it.call_function(g, [me], {})
        except possem.Raised as ex:
            got = f'raises {ex}'
        ctx.check(got == '  \r\n\t', rid, f'SpacingAccessorsMixin.spacing_{side}', 'reads the raw accessor of its own side',
                  f'spacing_{side} returns {got!r}, the tokens of raw_spacing_{side} read {"  " + chr(13) + chr(10) + chr(9)!r}', g.where)
        st_ = p.method(mx, f'spacing_{side}', setter=True, inherited=False)
        # whatever the run currently holds (here: blanks, a CR LF line break, a tab), the assigned text alone decides the new tokens
        ok, why = True, ''
        for text, want_shape, doc_nl in [(t_, w_, nl_) for nl_ in ('\n', '\r\n') for t_, w_ in (
                (' \n', [('Whitespace', ' '), ('Newline', '\n')]), (' ', [('Whitespace', ' ')]), ('\t', [('Whitespace', '\t')]), ('', []),
                ('\n\n', [('Newline', '\n'), ('Newline', '\n')]), ('\r\n\n', [('Newline', '\r\n'), ('Newline', '\n')]))]:
            # the document the model sits in: its other line breaks are LF in one run, CR LF in the other -- the assigned text alone decides
            me.f['token_store'] = [possem.Obj('Other', {'raw_text': 'x'}, 'x'), possem.Obj('Newline', {'raw_text': doc_nl}, 'nl'), *toks,
                                   possem.Obj('Other', {'raw_text': 'y'}, 'y'), possem.Obj('Newline', {'raw_text': doc_nl}, 'nl2')]
            me.f['first_token'] = me.f['last_token'] = me.f['token_store'][5]
            it = Interp(me)
            try:
                it.call_function(st_, [me, text], {})
                val = it.assigned.get(f'raw_spacing_{side}')
                shape = [(x.cls, x.f['raw_text']) for x in (val or []) if isinstance(x, possem.Obj)]
                if not (set(it.assigned) == {f'raw_spacing_{side}'} and shape == want_shape) and ok:
                    ok = False
                    why = (f'spacing_{side} = {text!r} while the run holds blanks and a line break and the document breaks its lines with {doc_nl!r}: assigns '
                           f'{dict((k_, [(x.cls, x.f["raw_text"]) for x in v_]) for k_, v_ in it.assigned.items())}; expected raw_spacing_{side} = {want_shape} '
                           f'-- the tokens of the assigned text and nothing else (tokens of the old run carried over stay in the document: the '
                           f'length does not change by the difference and the value does not read back)')
            except possem.Raised as ex:
                if ok:
                    ok, why = False, f'spacing_{side} = {text!r}: raises {ex}'
        ctx.check(ok, rid, f'SpacingAccessorsMixin.spacing_{side}[set]', 'assigns the tokens of the text to the raw accessor of its own side',
                  why, st_.where)


def run(ctx: RuleContext, p: Program) -> None:
    ctx.try_rule(rule_sp_acc, p, 'SP-ACC', 3 if ctx.tier == 'quick' else 4)
    ctx.try_rule(rule_sp_route, p, 'SP-ROUTE')
    ctx.try_rule(rule_sp_sem, p, 'SP-SEM', 5 if ctx.tier == 'quick' else 7)
    from . import grammar_rules
    ctx.try_rule(grammar_rules.rule_spacing_re, p, 'SPACING-RE')
    from . import round4
    ctx.try_rule(round4.rule_memo, p, 'MEMO')
    from . import c12
    ctx.try_rule(c12.rule_gram_look, p, c12.grammar(p), 'GRAM-LOOK')
    ctx.not_decided += ['which invisible tokens neighbour a model at run time', 'that adjacent models see the same run (follows from '
                        'the mirror-image getters, not observed)']
    ctx.assumptions += ['TokenStore.get_prev/get_next/splice/insert semantics (C07)', 'stdlib re applied to the compiled pattern constant _SPACING_GROUP_RE '
                        '(its language is compared with the grammar terminals by SPACING-RE)']


# ====================================================================== SP-SEM (added after seeded round 3)
def rule_sp_sem(ctx: RuleContext, p: Program, rid: str, max_len: int = 5) -> None:
    """finite-domain abstract evaluation of _find_spacing over every sequence of abstract tokens up to max_len"""
    import itertools
    from . import possem
    from .tokenstore import TS
    ctx.rule(rid, '_find_spacing, evaluated from its AST over every sequence of up to %d abstract tokens (zero-width mark, empty '
                  'blank token, non-empty blank token, other token): it returns exactly the non-empty blank tokens of the first run of '
                  'blank-class tokens that follows the leading zero-width tokens -- so only zero-width tokens separate the run from the '
                  'model, every returned token is a non-empty Whitespace/Newline, and no mark or other token lies between the first and '
                  'the last returned token (the setter splices first..last)' % max_len)
    m = p.module('models.internal.spacing_accessors')
    fn = next((f for f in p.functions_in(m) if f.qualname == '_find_spacing'), None)
    if fn is None:
        raise AnalysisError('SP-SEM: _find_spacing vanished')
    ts = TS(p)

    class Tok(possem.Obj):
        pass

    class_of = {'Eol': p.cls('Eol'), 'Whitespace': p.cls('Whitespace'), 'Newline': p.cls('Newline'), 'Account': p.cls('Account')}

    class Interp(possem.PosInterp):
        tag = 'SP-SEM'

        def expr(self, e: Any, env: dict) -> Any:            # type: ignore[override]
            if isinstance(e, (ast.Name, ast.Attribute)) and not (isinstance(e, ast.Name) and e.id in env):
                sym_ = p.resolve_expr(m, e)
                if isinstance(sym_, ClassInfo):
                    return sym_
                if isinstance(e, ast.Name) and isinstance(sym_, FuncInfo):
                    return sym_                                 # a helper extracted from the scan
            if isinstance(e, ast.BinOp) and isinstance(e.op, ast.BitOr):
                l, r = self.expr(e.left, env), self.expr(e.right, env)
                flat = []
                for x in (l, r):
                    flat.extend(x if isinstance(x, tuple) else [x])
                return tuple(flat)
            if isinstance(e, ast.Call) and isinstance(e.func, ast.Name) and e.func.id == 'isinstance' and e.func.id not in env:
                v = self.expr(e.args[0], env)
                c = self.expr(e.args[1], env)
                cs = c if isinstance(c, tuple) else (c,)
                if not all(isinstance(k, ClassInfo) for k in cs):
                    raise self.err(e, 'isinstance against something that is not a repository class')
                return isinstance(v, possem.Obj) and any(class_of[v.cls].is_subclass_of(k) for k in cs)
            if isinstance(e, ast.Call) and isinstance(e.func, ast.Name) and callable(env.get(e.func.id)):
                return env[e.func.id](*[self.expr(a, env) for a in e.args])
            return super().expr(e, env)

    def reference(seq: str) -> list[int]:
        i = 0
        while i < len(seq) and seq[i] in 'Zz':
            i += 1
        out = []
        while i < len(seq) and seq[i] in 'zS':
            if seq[i] == 'S':
                out.append(i)
            i += 1
        return out

    kinds = {'Z': ('Eol', ''), 'z': ('Whitespace', ''), 'S': ('Whitespace', ' '), 'O': ('Account', 'x')}
    n = 0
    first_bad: Optional[str] = None
    for k in range(0, max_len + 1):
        for seq in map(''.join, itertools.product('ZzSO', repeat=k)):
            toks = [Tok(kinds[ch][0], {'raw_text': kinds[ch][1]}, label=f'{ch}{i}') for i, ch in enumerate(seq)]
            # two variants of a blank-class token: Whitespace and Newline
            for nl_variant in (False, True):
                if nl_variant:
                    if 'S' not in seq and 'z' not in seq:
                        continue
                    for t in toks:
                        if t.cls == 'Whitespace':
                            t.cls = 'Newline'
                nxt = {id(t): (toks[i + 1] if i + 1 < len(toks) else None) for i, t in enumerate(toks)}
                it = Interp(ts, [], module=m)
                try:
                    if len(fn.params) == 2:
                        res = it.call_function(fn, [toks[0] if toks else None, lambda t: nxt[id(t)]], {})      # (first neighbour, successor function)
                    elif len(fn.params) == 1:
                        res = it.call_function(fn, [possem._It(toks)], {})                                      # (iterator over the neighbours)
                    else:
                        ctx.not_decided.append('SP-SEM: _find_spacing has a signature this rule cannot drive; the accessors are evaluated whole by SP-ACC')
                        return
                except possem.Raised as ex:
                    n += 1
                    if first_bad is None:
                        show = ' '.join({'Z': 'mark', 'z': 'empty-blank', 'S': 'blank', 'O': 'other'}[c] for c in seq)
                        first_bad = (f'for the neighbours [{show}] (then the end of the store) it raises {ex}: reading or assigning the spacing of a model '
                                     f'at the edge of the document fails')
                    continue
                n += 1
                if not isinstance(res, (list, tuple)):
                    raise AnalysisError(f'SP-SEM: _find_spacing returned {res!r}')
                got = [next(i for i, t in enumerate(toks) if t is r) for r in res]
                want = reference(seq)
                if got != want and first_bad is None:
                    show = ' '.join({'Z': 'mark', 'z': 'empty-blank', 'S': 'blank', 'O': 'other'}[c] for c in seq)
                    why = ''
                    if any(seq[i] != 'S' for i in got):
                        why = 'a token that is not a non-empty blank is returned'
                    elif got and any(seq[i] in 'ZO' for i in range(got[0], got[-1] + 1)):
                        why = ('a zero-width mark lies between the first and the last returned token: the setter splices that whole range and '
                               'removes the mark (an end-of-line mark or a field placeholder that the tree still owns) from the store')
                    elif len(got) < len(want):
                        why = 'part of the adjacent run is not returned'
                    else:
                        why = 'tokens beyond the adjacent run are returned'
                    first_bad = f'for the neighbours [{show}] it returns positions {got} where the adjacent run is {want}: {why}'
    if n < 1000:
        raise AnalysisError(f'SP-SEM: only {n} sequences evaluated')
    ctx.check(first_bad is None, rid, 'models.internal.spacing_accessors:_find_spacing', 'adjacent run', first_bad or '', fn.where,
              note=f'{n} token sequences up to length {max_len}')
