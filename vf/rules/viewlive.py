"""VIEW-LIVE: several filtered views over one repeated field, kept in step by the real registration / notification chain.

RepeatedNodeWrapper.__init__, register_update_handler, _notify, _notify_splice, RepeatedValueWrapper.__init__ / __len__ / __getitem__ and the
update handler class (whatever its spelling: hand-written __init__ or a dataclass) are interpreted from their ASTs.  The raw item list is
changed by the rule itself (a splice or an arbitrary rewrite), then the real notification is interpreted with the arguments the mutators
pass (NOTIFY-ARGS decides that they pass them); afterwards every view, read through its own __len__ / __getitem__, must list exactly the
items of its type, in order -- for every view created over the wrapper, including two views of the same type and views created at
different moments of the history.
"""
from __future__ import annotations

import ast
import itertools
from typing import Any, Optional

from ..model import AnalysisError, FuncInfo, Program, norm
from ..report import RuleContext
from . import possem
from .tokenstore import TS


def rule_view_live(ctx: RuleContext, p: Program, rid: str, max_raw: int = 3) -> None:
    ctx.rule(rid, 'the registration / notification chain between a repeated field and its filtered views, interpreted from the ASTs of '
                  'RepeatedNodeWrapper.__init__ / register_update_handler / _notify / _notify_splice, RepeatedValueWrapper.__init__ / __len__ / '
                  f'__getitem__ and the update handler class: over raw lists of up to {max_raw} items of three kinds, four views (two of the same '
                  'type, one of another type, one of a pair of types; one of them created only after the first change), every splice '
                  '(l, r, up to two new items) and every rewrite followed by the notification the mutators send, histories of two steps: each '
                  'view, read through its own __len__ and __getitem__, lists exactly the items of its type in order')
    vm = p.module('models.internal.value_properties')
    pm = p.module('models.internal.properties')
    rw_c = p.cls('RepeatedNodeWrapper', 'models.internal.properties')
    vw_c = p.cls('RepeatedValueWrapper', 'models.internal.value_properties')
    ts = TS(p)
    class_of = {c.name: c for c in p.classes if c.module in (vm, pm)}

    class Interp(possem.PosInterp):
        tag = 'VIEW-LIVE'

        def __init__(self) -> None:
            super().__init__(ts, [], module=vm)
            self.mod_of: dict[int, Any] = {}

        def _cls(self, name: str) -> Any:                          # type: ignore[override]
            if name in class_of:
                return class_of[name]
            return super()._cls(name)

        def method(self, cls: str, name: str) -> Any:             # type: ignore[override]
            if cls in class_of:
                f_ = class_of[cls].lookup(name)
                if isinstance(f_, FuncInfo):
                    return f_
                return None
            return None

        def py_isinstance(self, v: Any, t: Any) -> bool:
            if isinstance(t, tuple):
                return any(self.py_isinstance(v, x) for x in t)
            if isinstance(t, possem.ClassRef):
                return isinstance(v, possem.Obj) and v.cls == t.name
            raise AnalysisError('VIEW-LIVE: isinstance against something that is not a class')

        def seq_items(self, o: Any, node: Any) -> list:
            """iteration of an object that is a Sequence: __getitem__(0), (1), ... until IndexError (collections.abc.Sequence.__iter__),
            or its own __iter__ when it spells one"""
            it = self.method(o.cls, '__iter__')
            if it is not None:
                return list(possem.PosInterp.iter_of(self, self.call_function(it, [o], {}), node))
            gi = self.method(o.cls, '__getitem__')
            if gi is None:
                raise self.err(node, f'iteration of {o!r}')
            out = []
            for i in range(64):
                try:
                    out.append(self.call_function(gi, [o, i], {}))
                except possem.Raised as ex:
                    if str(ex).startswith('IndexError'):
                        return out
                    raise
            raise self.err(node, 'an endless sequence')

        def iter_of(self, v: Any, node: Any) -> list:             # type: ignore[override]
            if isinstance(v, possem.Obj) and v.cls in class_of:
                return self.seq_items(v, node)
            return super().iter_of(v, node)

        def call_value(self, f: Any, args: list, kwargs: dict, node: Any) -> Any:      # type: ignore[override]
            if isinstance(f, possem.Builtin) and f.name == 'isinstance' and len(args) == 2 and isinstance(args[1], (tuple, possem.ClassRef)):
                return self.py_isinstance(args[0], args[1])
            if isinstance(f, possem.Builtin) and f.name == 'len' and args and isinstance(args[0], possem.Obj) and args[0].cls in class_of:
                ln = self.method(args[0].cls, '__len__')
                if ln is None:
                    raise self.err(node, 'len() of an object without __len__')
                return self.call_function(ln, [args[0]], {})
            return super().call_value(f, args, kwargs, node)

        def expr(self, e: Any, env: dict) -> Any:                 # type: ignore[override]
            if isinstance(e, ast.Call) and isinstance(e.func, ast.Subscript) and isinstance(e.func.value, ast.Name) \
                    and e.func.value.id in ('list', 'dict', 'set') and e.func.value.id not in env and not e.args:
                return {'list': list, 'dict': dict, 'set': set}[e.func.value.id]()
            if isinstance(e, ast.Call) and isinstance(e.func, ast.Name) and e.func.id == 'isinstance' and e.func.id not in env and len(e.args) == 2:
                t_ = self.expr(e.args[1], env)
                if isinstance(t_, (tuple, possem.ClassRef)):
                    return self.py_isinstance(self.expr(e.args[0], env), t_)
            if isinstance(e, ast.Call) and isinstance(e.func, ast.Attribute) and isinstance(e.func.value, ast.Name) and e.func.value.id == 'bisect' \
                    and 'bisect' not in env:
                import bisect as _b
                args = [self.expr(a, env) for a in e.args]
                kw = {k.arg: self.expr(k.value, env) for k in e.keywords if k.arg}
                if not (isinstance(args[0], list) and all(isinstance(x, int) for x in args[0]) and isinstance(args[1], int)) \
                        or e.func.attr not in ('bisect_left', 'bisect_right', 'bisect', 'insort', 'insort_left', 'insort_right') \
                        or any(not (isinstance(v, int) or v is None) for v in kw.values()):
                    raise self.err(e, 'bisect call')
                return getattr(_b, e.func.attr)(*args, **kw)
            if isinstance(e, ast.Subscript) and not isinstance(e.slice, ast.Slice):
                bv = self.expr(e.value, env)
                if isinstance(bv, possem.Obj) and bv.cls in class_of:
                    gi = self.method(bv.cls, '__getitem__')
                    if gi is None:
                        raise self.err(e, 'subscript of an object without __getitem__')
                    return self.call_function(gi, [bv, self.expr(e.slice, env)], {})
                i = self.expr(e.slice, env)
                if isinstance(bv, list) and isinstance(i, slice):
                    return bv[i]
            if isinstance(e, ast.Attribute) and isinstance(e.value, ast.Name) and e.value.id not in env and e.value.id in ('properties', 'value_properties'):
                c = class_of.get(e.attr)
                if c is not None:
                    return possem.ClassRef(c.name)
            if isinstance(e, ast.Name) and e.id not in env and e.id in class_of:
                return possem.ClassRef(e.id)
            return super().expr(e, env)

        def compare(self, op: Any, a: Any, b: Any, node: Any) -> bool:   # type: ignore[override]
            if isinstance(op, (ast.Eq, ast.NotEq)) and (isinstance(a, possem.Obj) or isinstance(b, possem.Obj)):
                r = self.py_eq(a, b, node)
                return r if isinstance(op, ast.Eq) else not r
            if isinstance(op, (ast.In, ast.NotIn)) and isinstance(b, (list, tuple)):
                found = any(x is a or self.py_eq(x, a, node) for x in b)
                return found if isinstance(op, ast.In) else not found
            return super().compare(op, a, b, node)

        def py_eq(self, a: Any, b: Any, node: Any) -> bool:
            """== as python evaluates it: an own __eq__, the field-wise one a dataclass synthesises, identity otherwise"""
            if a is b:
                return True
            if isinstance(a, possem.Obj) and a.cls in class_of:
                own = self.method(a.cls, '__eq__')
                if own is not None:
                    return bool(self.truth(self.call_function(own, [a, b], {}), node))
                c = class_of[a.cls]
                for k in [c] + [x for x in c.mro if x is not c]:
                    dec = [d for d in k.node.decorator_list if 'dataclass' in norm(d)]
                    if not dec:
                        continue
                    d0 = dec[0]
                    if isinstance(d0, ast.Call) and any(kw.arg == 'eq' and isinstance(kw.value, ast.Constant) and kw.value.value is False for kw in d0.keywords):
                        return False
                    if not (isinstance(b, possem.Obj) and b.cls == a.cls):
                        return False
                    names = [n for n, _ in self.fields_of(a.cls)]
                    return all(self.py_eq(a.f.get(n), b.f.get(n), node) for n in names)
                return False
            if isinstance(a, possem.Obj) or isinstance(b, possem.Obj):
                return False
            if isinstance(a, (list, tuple)) and type(a) is type(b):
                return len(a) == len(b) and all(self.py_eq(x, y, node) for x, y in zip(a, b))
            if isinstance(a, possem.ClassRef) and isinstance(b, possem.ClassRef):
                return a.name == b.name
            try:
                return bool(a == b)
            except Exception:
                return False

    ident = possem._Lambda(ast.parse('lambda x: x', mode='eval').body, {})
    no_update = possem._Lambda(ast.parse('lambda a, b: False', mode='eval').body, {})
    KINDS = {'M': 'Mine', 'O': 'Other', 'T': 'Third'}
    TYPES = [('first view of Mine', possem.ClassRef('Mine')), ('second view of Mine', possem.ClassRef('Mine')),
             ('view of Other', possem.ClassRef('Other')), ('view of (Mine, Third)', (possem.ClassRef('Mine'), possem.ClassRef('Third')))]

    def want(items: list, t: Any) -> list:
        names = {x.name for x in (t if isinstance(t, tuple) else (t,))}
        return [x for x in items if x.cls in names]

    init_rw = rw_c.lookup('__init__')
    init_vw = vw_c.lookup('__init__')
    n_s = rw_c.lookup('_notify_splice')
    n_a = rw_c.lookup('_notify')
    for f_, nm in ((init_rw, 'RepeatedNodeWrapper.__init__'), (init_vw, 'RepeatedValueWrapper.__init__'), (n_s, '_notify_splice'), (n_a, '_notify')):
        if not isinstance(f_, FuncInfo):
            raise AnalysisError(f'VIEW-LIVE: {nm} vanished')
    ip = init_rw.params[1:]
    if len(ip) < 2:
        raise AnalysisError('VIEW-LIVE: RepeatedNodeWrapper.__init__ no longer takes (repeated, field)')

    counter = itertools.count()

    def item(ch: str) -> Any:
        return possem.Obj(KINDS[ch], {}, f'{ch}{next(counter)}')

    # the steps: ('splice', l, r, kinds of the new items) and ('rewrite', permutation name)
    def steps_for(n: int) -> list:
        out: list = []
        for l in range(n + 1):
            for r in range(l, n + 1):
                for new in ('', 'M', 'O', 'T', 'MO', 'OM', 'MM'):
                    if l == r and not new:
                        continue
                    out.append(('splice', l, r, new))
        out.append(('rewrite', 'reverse'))
        out.append(('rewrite', 'drop-first'))
        return out

    problem: Optional[str] = None
    n_hist = 0
    lateness = (None, 1, 3) if max_raw >= 3 else (None, 1)    # which view is created only after the first step (None: all up front)
    for n in range(0, max_raw + 1):
        for kinds in itertools.product('MOT', repeat=n):
            if n == max_raw and kinds.count('T') > 1:
                continue
            first_steps = steps_for(n)
            for s1 in first_steps:
                for late in lateness:
                    # second steps: a small family (the list length has changed)
                    n1 = n - (s1[2] - s1[1]) + len(s1[3]) if s1[0] == 'splice' else (n if s1[1] == 'reverse' else max(0, n - 1))
                    seconds: list = [None] + ([('splice', 0, min(1, n1), 'M'), ('splice', n1, n1, 'O'), ('rewrite', 'reverse')]
                                              + ([('splice', n1 - 1, n1, '')] if n1 else []) if late is None or n <= 2 else [])
                    for s2 in seconds:
                        if problem is not None:
                            break
                        n_hist += 1
                        it = Interp()
                        items = [item(ch) for ch in kinds]
                        rep = possem.Obj('Repeated', {'items': items}, 'repeated')
                        fld = possem.Obj('Field', {'separators': (), 'separators_before': None}, 'field')
                        rw = possem.Obj('RepeatedNodeWrapper', {}, 'raw wrapper')
                        try:
                            it.call_function(init_rw, [rw, rep, fld] + [None] * (len(ip) - 2), {})
                            views: dict[int, Any] = {}

                            def make(k: int) -> None:
                                v = possem.Obj('RepeatedValueWrapper', {}, TYPES[k][0])
                                it.call_function(init_vw, [v, rw, TYPES[k][1], ident, ident, no_update], {})
                                views[k] = v

                            for k in range(len(TYPES)):
                                if k != late:
                                    make(k)
                            trail = []
                            for si, st in enumerate((s1, s2)):
                                if st is None:
                                    continue
                                if st[0] == 'splice':
                                    _, l, r, new = st
                                    newi = [item(ch) for ch in new]
                                    items[l:r] = newi
                                    it.call_function(n_s, [rw, l, r, list(newi)], {})
                                    trail.append(f'items[{l}:{r}] = {[x.label for x in newi]} + _notify_splice({l}, {r}, ...)')
                                else:
                                    if st[1] == 'reverse':
                                        items.reverse()
                                    else:
                                        del items[:1]
                                    it.call_function(n_a, [rw], {})
                                    trail.append(f'{st[1]} + _notify()')
                                if si == 0 and late is not None:
                                    make(late)
                                    trail.append(f'{TYPES[late][0]} created')
                                for k, v in sorted(views.items()):
                                    ln = it.call_value(possem.Builtin('len'), [v], {}, init_vw.node)
                                    got = []
                                    gi = it.method('RepeatedValueWrapper', '__getitem__')
                                    for i in range(ln if isinstance(ln, int) else 0):
                                        got.append(it.call_function(gi, [v, i], {}))
                                    exp = want(items, TYPES[k][1])
                                    if [id(x) for x in got] != [id(x) for x in exp]:
                                        raise _Mismatch(f'raw list {[KINDS[c] for c in kinds]}, views ' + ', '.join(TYPES[j][0] for j in sorted(views))
                                                        + f'; after {"; ".join(trail)}: the {TYPES[k][0]} lists {[x.label for x in got]}, '
                                                          f'its items in the raw list are {[x.label for x in exp]}')
                        except _Mismatch as ex:
                            problem = str(ex)
                        except possem.Raised as ex:
                            problem = f'raw list {[KINDS[c] for c in kinds]}, steps {s1}, {s2}: raises {ex}'
    if problem is None and n_hist < 1500:
        raise AnalysisError(f'VIEW-LIVE: only {n_hist} histories evaluated')
    ctx.check(problem is None, rid, 'models.internal.value_properties:RepeatedValueWrapper / models.internal.properties:RepeatedNodeWrapper',
              'every registered view follows every change', problem or '', init_vw.where, note=f'{n_hist} histories over raw lists of up to {max_raw} items')


class _Mismatch(Exception):
    pass


_ALIAS_CONTROL = """
class Owner:
    def __init__(self, items):
        self.items = list(items)
        self.name = 'x'
    def move(self, store):
        self.items = [i for i in self.items]
class Cache:
    def __init__(self, owner: Owner, other: 'Owner') -> None:
        self._items = owner.items
        self._name = other.name
"""


def _alias_findings(classes: list) -> tuple[list, dict]:
    """classes: (class name, ast.ClassDef, where).  Returns ([(class, assign node, owner, attr, rebound?, where)], rebound table)"""
    import ast as _ast

    def self_attr_(t: Any, selfname: str) -> Optional[str]:
        return t.attr if isinstance(t, _ast.Attribute) and isinstance(t.value, _ast.Name) and t.value.id == selfname else None
    rebound: dict[str, set[str]] = {}
    for name, node, _ in classes:
        for fn in node.body:
            if not isinstance(fn, _ast.FunctionDef) or fn.name in ('__init__', '__new__') or not fn.args.args:
                continue
            me = fn.args.args[0].arg
            for a in _ast.walk(fn):
                tgts = a.targets if isinstance(a, _ast.Assign) else [a.target] if isinstance(a, (_ast.AnnAssign, _ast.AugAssign)) else []
                for t in tgts:
                    sa = self_attr_(t, me)
                    if sa:
                        rebound.setdefault(name, set()).add(sa)
    out = []
    for name, node, where in classes:
        init = next((f for f in node.body if isinstance(f, _ast.FunctionDef) and f.name == '__init__'), None)
        if init is None or not init.args.args:
            continue
        me = init.args.args[0].arg
        ann = {a.arg: norm(a.annotation) for a in [*init.args.args, *init.args.kwonlyargs] if a.annotation is not None}
        for a in _ast.walk(init):
            if not (isinstance(a, _ast.Assign) and len(a.targets) == 1 and self_attr_(a.targets[0], me) and isinstance(a.value, _ast.Attribute)
                    and isinstance(a.value.value, _ast.Name) and a.value.value.id in ann):
                continue
            owner = ann[a.value.value.id].split('[', 1)[0].rsplit('.', 1)[-1].strip('\'"')
            out.append((name, a, owner, a.value.attr, a.value.attr in rebound.get(owner, set()), where))
    return out, rebound


def rule_alias_rebind(ctx: RuleContext, p: Program, rid: str) -> None:
    """an attribute that its owner rebinds after construction is not cached by another object"""
    import ast as _ast
    ctx.rule(rid, 'no object keeps, in an attribute of its own, the value of an attribute that the owner REBINDS after construction (`self.items = [...]` in '
                  'Repeated._reattach ...): the copy goes stale at the next rebinding -- reads through the copy see the old object while writes '
                  'through the owner go to the new one.  For every `self.<a> = <param>.<b>` in a constructor of the hand-written internal classes, '
                  '<b> must not be assigned by the class of <param> (by annotation) outside its __init__')
    ctl, _ = _alias_findings([(n.name, n, '') for n in _ast.parse(_ALIAS_CONTROL).body if isinstance(n, _ast.ClassDef)])
    ctx.control(rid, 'the embedded example (a cache of an attribute its owner rebinds in a later method) is flagged, the copy of an attribute that is '
                     'never rebound is not', True, sorted((c, attr, bad) for c, _, _, attr, bad, _ in ctl) == [('Cache', 'items', True), ('Cache', 'name', False)])
    classes = [(c.name, c.node, c) for c in p.classes
               if not c.module.name.endswith('_test') and '.generated' not in c.module.name and c.module.name.startswith('autobean_refactor.models')]
    found, rebound = _alias_findings(classes)
    n = 0
    for cname, a, owner, attr, bad, c in found:
        if '.models.internal' not in c.module.name:
            continue
        n += 1
        ctx.check(not bad, rid, f'{c.module.name.split(".", 1)[1]}:{cname}.__init__', norm(a)[:80],
                  f'`{norm(a)[:80]}` keeps the value of {owner}.{attr} at construction time, but {owner} assigns that attribute again later '
                  f'(after a move to another store the owner holds a new object): the copy is stale from then on -- reads through it and writes '
                  f'through the owner no longer meet', f'{c.module.relpath}:{a.lineno}', note='the attribute is never rebound by its owner', nontrivial=False)
    ctx.stats['alias_candidates'] = n
    if 'items' not in rebound.get('Repeated', set()):
        raise AnalysisError('ALIAS-REBIND: Repeated.items is no longer rebound outside __init__ (the anchor of this rule vanished)')


_STORE_EDGE_OK = {
    'models.file:File.first_token': 'the file IS the whole document',
    'models.file:File.last_token': 'the file IS the whole document',
    'models.base:RawModel.detach': 'the gate: compares the model\'s edges with the store\'s and hands out the whole store only when they coincide',
}

_STORE_EDGE_CONTROL = """
def swap(cost, left, right):
    old_left, *_, old_right = cost.token_store
    cost.token_store.replace(old_left, left)
def fine(cost, left):
    cost.token_store.replace(cost.first_token, left)
    for t in cost.token_store.iter(cost.first_token, cost.last_token):
        pass
"""


def _store_edge_uses(fn_node: Any) -> list:
    """expressions in a function that take the WHOLE store: get_first() / get_last(), iterating / unpacking / list()-ing a `.token_store`"""
    import ast as _ast

    def is_store(e: Any) -> bool:
        return isinstance(e, _ast.Attribute) and e.attr in ('token_store', '_token_store')
    out = []
    for n in _ast.walk(fn_node):
        if isinstance(n, _ast.Call) and isinstance(n.func, _ast.Attribute) and n.func.attr in ('get_first', 'get_last') and not n.args and is_store(n.func.value):
            out.append(n)
        elif isinstance(n, (_ast.For, _ast.comprehension)) and is_store(n.iter):
            out.append(n.iter)
        elif isinstance(n, _ast.Assign) and is_store(n.value) and any(isinstance(t, (_ast.Tuple, _ast.List)) for t in n.targets):
            out.append(n.value)
        elif isinstance(n, _ast.Call) and isinstance(n.func, _ast.Name) and n.func.id in ('list', 'tuple', 'iter', 'next', 'reversed', 'len') and n.args and is_store(n.args[0]):
            out.append(n)
        elif isinstance(n, _ast.Starred) and is_store(n.value):
            out.append(n.value)
    return out


def rule_store_edge(ctx: RuleContext, p: Program, rid: str) -> None:
    """a model inside a document is not its store: the store's own edges are used only where the model is the whole document"""
    import ast as _ast
    ctx.rule(rid, 'the extent of a model is first_token .. last_token; the edges and the full content of its token STORE (get_first() / get_last(), '
                  'iterating, unpacking or list()-ing `x.token_store`) belong to the whole document the model may sit in.  Outside the three places '
                  'where model and store coincide by construction (File.first_token / last_token, the gate in RawModel.detach), no function of the '
                  'models or the editor takes them: a helper that does works on a stand-alone model and rewrites the first and last token of the ledger otherwise')
    ctl = {f.name: len(_store_edge_uses(f)) for f in _ast.parse(_STORE_EDGE_CONTROL).body if isinstance(f, _ast.FunctionDef)}
    ctx.control(rid, 'the embedded example (star-unpacking of cost.token_store) is flagged, a bounded iter(first_token, last_token) is not', True,
                ctl == {'swap': 1, 'fine': 0})
    n = 0
    seen_ok = set()
    for m in p.modules.values():
        if m.name.endswith('_test') or '.tests' in m.name or '.generated' in m.name or '.modelgen' in m.name or not m.name.startswith('autobean_refactor'):
            continue
        if not ('.models' in m.name or m.name.endswith('.editor') or m.name.endswith('.printer')):
            continue
        for fn in p.functions_in(m):
            if fn.kind == 'overload':
                continue
            uses = _store_edge_uses(fn.node)
            if not uses:
                continue
            site = f'{m.name.split(".", 1)[1]}:{fn.qualname}'
            for u in uses:
                n += 1
                ok = site in _STORE_EDGE_OK
                if ok:
                    seen_ok.add(site)
                ctx.check(ok, rid, site, norm(u)[:70],
                          f'`{norm(u)[:70]}` in {fn.qualname} takes the edge / the content of the whole token store: for a model that sits inside a posting, '
                          f'a transaction or a file that is the first / last token of the LEDGER, not of the model (use first_token / last_token, or '
                          f'token_store.iter(first_token, last_token))', f'{m.relpath}:{getattr(u, "lineno", fn.node.lineno)}',
                          note=_STORE_EDGE_OK.get(site, ''), nontrivial=False)
    if len(seen_ok) < 3:
        raise AnalysisError(f'STORE-EDGE: only {sorted(seen_ok)} of the three confirmed whole-store sites found')


def rule_prop_shadow(ctx: RuleContext, p: Program, rid: str) -> None:
    """a property re-declared without its setter takes the setter away from every subclass that relied on the inherited one"""
    import ast as _ast
    ctx.rule(rid, 'a class that declares a property of the same name as a settable property of one of its bases declares the setter too: a property '
                  'object without a setter is still a data descriptor, so it hides the inherited getter / setter pair, and every subclass that relied on '
                  'the inherited setter (`token.raw_text = s` on blanks, operators, keywords ...) raises AttributeError on assignment')

    def props(node: Any) -> tuple[set, set]:
        getters, setters = set(), set()
        for f in node.body:
            if isinstance(f, _ast.FunctionDef):
                for d in f.decorator_list:
                    dn = norm(d)
                    if dn in ('property', 'functools.cached_property', 'cached_property') or dn.endswith('custom_property'):
                        getters.add(f.name)
                    elif dn.endswith('.setter'):
                        setters.add(f.name)
        return getters, setters
    n = 0
    table = {}
    for c in p.classes:
        if c.module.name.endswith('_test') or not c.module.name.startswith('autobean_refactor'):
            continue
        table[id(c)] = props(c.node)
    for c in p.classes:
        if id(c) not in table:
            continue
        getters, setters = table[id(c)]
        for name in sorted(getters - setters):
            owner = next((k for k in c.mro[1:] if id(k) in table and name in table[id(k)][0]), None)
            if owner is None:
                continue
            n += 1
            lost = name in table[id(owner)][1]
            ctx.check(not lost, rid, f'{c.module.name.split(".", 1)[1]}:{c.name}.{name}', 'read-only re-declaration of a settable property',
                      f'{c.name}.{name} is re-declared as a property without a setter, but {owner.name}.{name} (a base class) has one: the new property '
                      f'hides the pair, so assigning `{name}` raises AttributeError for {c.name} and for every subclass that does not bring its own setter',
                      c.where, note=f'{owner.name}.{name} has no setter either', nontrivial=False)
    ctx.stats['prop_redeclarations'] = n
    # positive control on an embedded example
    ctl = _ast.parse("class A:\n    @property\n    def t(self): return 1\n    @t.setter\n    def t(self, v): pass\nclass B(A):\n    @property\n    def t(self): return 2\n")
    ga, sa = props(ctl.body[0])
    gb, sb = props(ctl.body[1])
    ctx.control(rid, 'the embedded example (a subclass re-declares a settable property with a getter only) is recognised', True, 't' in gb - sb and 't' in sa)
