"""C03 -- adding / removing / replacing a child leaves everything else untouched (structural clauses)."""
from __future__ import annotations

import ast
from typing import Any, Iterable, Optional

from .. import linear
from ..fieldmodel import build_tree_classes
from ..model import AnalysisError, ClassInfo, FuncInfo, Program, dotted, norm, self_attr, stmts_no_doc, walk_no_nested
from ..report import RuleContext
from . import gen, seps

EXPLANATION = (
    'Static analysis (AST sibling agreement, provenance, finite-domain abstract evaluation). Decides: SEP-PROV (shared '
    'separator tokens enter a store only as deep copies), OPT-SIB (within optional_left_field / optional_right_field the three '
    'layout functions agree on separator/value order, insertion happens on the pivot side and removal deletes exactly the '
    'mirrored span), PIVOT (every pivot of every optional field of every class is the edge token of the nearest present '
    'neighbour per the ordered field list), ANCHOR (no insertion at the None anchor into a store the function does not own), '
    'DEL-RANGE (the token range deleted for items[start:stop] is delimited by those items and their neighbours, on the correct '
    'side for a deletion at the head), ORIENT (over all valuations of the loop guards the chunk sequence built by '
    '_insert_tokens / Repeated.from_children alternates separators and values and ends on the correct side of the anchor). '
    'It does NOT decide the full separator arithmetic for every (index, arity), nor token identity outside the window.')


def _seq_order(fn: FuncInfo, value_name: str) -> Optional[str]:
    """order in which separators and the value appear in a list display / yields of a layout function: 'SV' | 'VS'"""
    marks: list[tuple[int, int, str]] = []
    for n in ast.walk(fn.node):
        pos = (getattr(n, 'lineno', 0), getattr(n, 'col_offset', 0))
        if isinstance(n, ast.Attribute) and n.attr in seps.SEP_ATTRS:
            marks.append((*pos, 'S'))
        elif isinstance(n, ast.Call) and isinstance(n.func, ast.Attribute) and n.func.attr == 'detach' \
                and norm(n.func.value) == value_name:
            marks.append((*pos, 'V'))
        elif isinstance(n, ast.Yield) and isinstance(n.value, ast.Tuple) and norm(n.value.elts[0]) == value_name:
            marks.append((*pos, 'V'))
    marks.sort()
    seq = ''.join(m[2] for m in marks)
    seq = ''.join(ch for i, ch in enumerate(seq) if i == 0 or seq[i - 1] != ch)
    return seq if seq in ('SV', 'VS') else None


def rule_opt_sib(ctx: RuleContext, p: Program, rid: str) -> None:
    ctx.rule(rid, 'optional field classes: detach_with_separators, _create_node and iter_children_formatted lay out '
                  '(separators, value) in one order; insert_after(pivot) goes with separators-first and insert_before(pivot) with '
                  'value-first; _remove_node deletes from the token next to the pivot through the far edge of the child')
    fields = p.module('models.internal.fields')
    n = 0
    for cname in ('optional_left_field', 'optional_right_field'):
        c = p.cls(cname, 'models.internal.fields')
        fs = {nm: p.method(c, nm, inherited=False) for nm in ('detach_with_separators', '_create_node', 'iter_children_formatted', '_remove_node')}
        orders = {nm: _seq_order(f, f.params[-1] if nm == '_create_node' else f.params[1])
                  for nm, f in fs.items() if nm != '_remove_node'}
        site = f'models.internal.fields:{cname}'
        vals = set(orders.values())
        n += 1
        if None in vals or len(vals) != 1:
            ctx.fail(rid, site, f'{orders}', f'layout functions of {cname} disagree on separator/value order: {orders}', c.where)
            continue
        order = vals.pop()
        ctx.ok(rid, site + ': layout order', f'{orders}')
        cr = fs['_create_node']
        store_p, pivot_p, value_p = cr.params[1], cr.params[2], cr.params[3]
        ins = [x for x in walk_no_nested(cr.node) if isinstance(x, ast.Call) and isinstance(x.func, ast.Attribute)
               and x.func.attr in ('insert_after', 'insert_before', 'splice') and norm(x.func.value) == store_p]
        want_ins = 'insert_after' if order == 'SV' else 'insert_before'
        ok = len(ins) == 1 and ins[0].func.attr == want_ins and norm(ins[0].args[0]) == pivot_p  # type: ignore[union-attr]
        n += 1
        ctx.check(ok, rid, site + '._create_node', norm(ins[0])[:120] if ins else 'no insertion',
                  f'{cname}._create_node lays out {order} but inserts with {[x.func.attr for x in ins]} '  # type: ignore[union-attr]
                  f'(separators must sit between the pivot and the child: {want_ins}({pivot_p}, ...))', cr.where,
                  note=f'{want_ins}({pivot_p}, [{order}])')
        rea = [x for x in walk_no_nested(cr.node) if isinstance(x, ast.Call) and isinstance(x.func, ast.Attribute)
               and x.func.attr == 'reattach' and norm(x.func.value) == value_p and x.args and norm(x.args[0]) == store_p]
        ctx.check(len(rea) == 1, rid, site + '._create_node: reattach', f'{value_p}.reattach({store_p})',
                  f'{cname}._create_node does not reattach the new child to the store', cr.where)
        rm = fs['_remove_node']
        store_p, pivot_p, cur_p = rm.params[1], rm.params[2], rm.params[3]
        env = {st.targets[0].id: st.value for st in walk_no_nested(rm.node)
               if isinstance(st, ast.Assign) and isinstance(st.targets[0], ast.Name)}
        rem = [x for x in walk_no_nested(rm.node) if isinstance(x, ast.Call) and isinstance(x.func, ast.Attribute)
               and x.func.attr == 'remove' and norm(x.func.value) == store_p]
        n += 1
        if len(rem) != 1 or len(rem[0].args) != 2:
            ctx.fail(rid, site + '._remove_node', 'remove call', f'{cname}._remove_node: single store.remove(first, last) not found', rm.where)
            continue
        def res(e: ast.AST) -> str:
            while isinstance(e, ast.Name) and e.id in env:
                e = env[e.id]
            return norm(e)
        a, b = res(rem[0].args[0]), res(rem[0].args[1])
        if order == 'SV':
            want = (f'{store_p}.get_next({pivot_p})', f'{cur_p}.last_token')
        else:
            want = (f'{cur_p}.first_token', f'{store_p}.get_prev({pivot_p})')
        ctx.check((a, b) == want, rid, site + '._remove_node', f'remove({a}, {b})',
                  f'{cname}._remove_node removes ({a} .. {b}); with layout {order} the span of separators+child is '
                  f'({want[0]} .. {want[1]})', rm.where, note=f'remove({a}, {b})')
    if n < 6:
        raise AnalysisError('OPT-SIB: optional field classes not found')


def rule_anchor(ctx: RuleContext, p: Program, rid: str) -> None:
    ctx.rule(rid, 'outside parser.py and token_store.py no insertion uses the None anchor (position 0 of the whole store) '
                  'unless the store is one the function itself created (deep copy / from_tokens)')
    n = 0
    for m in p.modules.values():
        if m.name.endswith(('.parser', '.token_store')):
            continue
        for fn in p.functions_in(m):
            for c in walk_no_nested(fn.node):
                if not (isinstance(c, ast.Call) and isinstance(c.func, ast.Attribute)
                        and c.func.attr in ('insert_after', 'insert_before', 'splice')):
                    continue
                if 'store' not in norm(c.func.value):
                    continue
                n += 1
                ref = c.args[0] if c.func.attr != 'splice' else (c.args[1] if len(c.args) > 1 else None)
                is_none = isinstance(ref, ast.Constant) and ref.value is None
                site = f'{m.name.split(".", 1)[1]}:{fn.qualname}'
                if not is_none:
                    ctx.ok(rid, f'{site}: {norm(c)[:70]}', 'anchored at a token', nontrivial=False)
                    continue
                # receiver `<x>.token_store` where x was rebound to a deep copy in this function
                recv = c.func.value
                owner = recv.value if isinstance(recv, ast.Attribute) else recv
                fresh = any(isinstance(a, ast.Assign) and norm(a.targets[0]) == norm(owner) and isinstance(a.value, ast.Call)
                            and ((dotted(a.value.func) or '') in ('copy.deepcopy',) or (dotted(a.value.func) or '').endswith('from_tokens'))
                            for a in walk_no_nested(fn.node))
                ctx.check(fresh, rid, site, norm(c)[:120],
                          f'`{norm(c)[:120]}` inserts at the very beginning of a store that this function did not create', fn.where,
                          note='None anchor on a store created in this function')
    if n < 15:
        raise AnalysisError(f'ANCHOR: only {n} insertion sites found (>= 15 confirmed by hand)')


def rule_anchor_null(ctx: RuleContext, p: Program, rid: str) -> None:
    ctx.rule(rid, 'no store insertion / splice / removal in a Borrowed document is anchored at a possibly-None token (an Optional '
                  'result of get_prev / get_next / a helper that was not tested): insert_before(None, ...) silently inserts at the very '
                  'beginning of the document (effect / ownership interpretation of every mutating entry point)')
    from ..absint import EffectInterp
    from . import effects
    it = EffectInterp(p)
    ents = effects.enumerate_entries(p, it, ctx.tier)
    n = 0
    for g in ('set', 'call', 'wrapper_call'):
        for e in ents[g]:
            e.run()
            n += 1
    for (fn, stmt), meth in sorted(it.null_anchors.items()):
        ctx.fail(rid, fn, stmt, f'`{stmt}` calls token_store.{meth} with an anchor that may be None: at the end (or start) of a document the '
                 f'tokens land at position 0 of the store instead of next to the edited model', '')
    ctx.ok(rid, f'{n} mutating entry points', f'{len(it.null_anchors)} possibly-None anchors')
    ctx.ok(rid, 'store mutator call sites reached', 'anchors are tokens', nontrivial=False)
    if n < 300:
        raise AnalysisError(f'ANCHOR-NULL: only {n} entries analysed')


def rule_del_range(ctx: RuleContext, p: Program, rid: str) -> None:
    ctx.rule(rid, '_del_tokens(start, stop): for a deletion at the head that leaves later items, the range is '
                  '[items[start].first_token, prev(items[stop].first_token)] (the following separator goes, the preceding one '
                  'stays); otherwise [next(prev_last(start)), items[stop-1].last_token] (the preceding separator goes)')
    w = p.cls('RepeatedNodeWrapper', 'models.internal.properties')
    f = p.method(w, '_del_tokens', inherited=False)
    start, stop = f.params[1], f.params[2]
    problems: list[str] = []
    ifs = [s for s in stmts_no_doc(f.node.body) if isinstance(s, ast.If)]
    head = next((s for s in ifs if s.orelse), None)
    early = next((s for s in ifs if not s.orelse and any(isinstance(x, ast.Return) for x in s.body)), None)
    if early is None or norm(early.test) not in (f'{stop} <= {start}', f'{start} >= {stop}'):
        problems.append('empty range is not skipped first')
    if head is None:
        raise AnalysisError('DEL-RANGE: head/else branch of _del_tokens not found')
    t = norm(head.test)
    if not (f'{start} == 0' in t and (f'{stop} < len(self._repeated.items)' in t)):
        problems.append(f'head case is tested by `{t}`, expected {start} == 0 and {stop} < len(items)')

    def env_of(body: list[ast.stmt]) -> dict[str, ast.AST]:
        return {s.targets[0].id: s.value for s in body if isinstance(s, ast.Assign) and isinstance(s.targets[0], ast.Name)}

    def res(e: ast.AST, env: dict[str, ast.AST]) -> str:
        for _ in range(5):
            if isinstance(e, ast.Name) and e.id in env:
                e = env[e.id]
        class R(ast.NodeTransformer):
            def visit_Name(self, n: ast.Name) -> ast.AST:
                return env[n.id] if n.id in env and n.id not in (start, stop) else n
        for _ in range(4):
            e = R().visit(ast.parse(norm(e), mode='eval').body)
        return norm(e)

    rem = [x for x in walk_no_nested(f.node) if isinstance(x, ast.Call) and isinstance(x.func, ast.Attribute) and x.func.attr == 'remove']
    if len(rem) != 1:
        raise AnalysisError('DEL-RANGE: single store.remove not found')
    fa, la = rem[0].args
    items = 'self._repeated.items'
    store = 'self._repeated.token_store'
    e1 = env_of(head.body)
    got1 = (res(fa, e1), res(la, e1))
    want1 = (f'{items}[{start}].first_token', f'{store}.get_prev({items}[{stop}].first_token)')
    if got1 != want1:
        problems.append(f'head case removes {got1}, expected {want1}')
    e2 = env_of(head.orelse)
    got2 = (res(fa, e2), res(la, e2))
    want2 = (f'{store}.get_next(self._prev_last({start}))', f'{items}[{stop} - 1].last_token')
    if got2 != want2:
        problems.append(f'general case removes {got2}, expected {want2}')
    ctx.check(not problems, rid, 'models.internal.properties:RepeatedNodeWrapper._del_tokens', '; '.join(problems) or 'ok',
              '; '.join(problems), f.where, note=f'head {got1}; general {got2}')
    pl = p.method(w, '_prev_last', inherited=False)
    e = [n for n in walk_no_nested(pl.node) if isinstance(n, ast.Return)][0].value
    ix = pl.params[1]
    ok = isinstance(e, ast.IfExp) and norm(e.test) in (f'{ix} > 0', f'0 < {ix}') and norm(e.body) == f'{items}[{ix} - 1].last_token' \
        and norm(e.orelse) == 'self._repeated.placeholder'
    ctx.check(ok, rid, 'models.internal.properties:RepeatedNodeWrapper._prev_last', norm(e)[:140],
              f'_prev_last is `{norm(e)[:140]}`, expected items[i-1].last_token for i > 0 else the placeholder', pl.where,
              note=norm(e)[:140])


def run(ctx: RuleContext, p: Program) -> None:
    tcs = build_tree_classes(p)
    ctx.try_rule(seps.rule_sep_prov, p, 'SEP-PROV')
    ctx.try_rule(seps.rule_sep_fresh, p, 'SEP-FRESH')
    ctx.try_rule(rule_opt_sib, p, 'OPT-SIB')
    ctx.try_rule(gen.rule_pivot, p, tcs, 'PIVOT')
    ctx.require_min('PIVOT', 80)
    ctx.try_rule(rule_anchor, p, 'ANCHOR')
    ctx.try_rule(rule_anchor_null, p, 'ANCHOR-NULL')
    ctx.try_rule(rule_del_range, p, 'DEL-RANGE')
    from . import orient
    ctx.try_rule(orient.rule_orient, p, 'ORIENT')
    from . import presence
    ctx.try_rule(presence.rule_presence_truth, p, 'PRESENCE-TRUTH')
    from . import idxspace
    ctx.try_rule(idxspace.rule_idx_space, p, 'IDX-SPACE')
    from . import round4 as _r4
    ctx.try_rule(_r4.rule_iter_once, p, 'ITER-ONCE')
    from . import nodesem
    ctx.try_rule(nodesem.rule_node_sem, p, 'NODE-SEM', 3 if ctx.tier == 'quick' else 4)
    ctx.try_rule(nodesem.rule_unord_sem, p, 'UNORD-SEM')
    from . import c10 as _c10
    # removing through a filtered view (del / pop / remove / discard / clear, by position or by value) removes exactly the items asked for
    ctx.try_rule(_c10.rule_view_sem, p, 'VIEW-SEM', 3 if ctx.tier == 'quick' else 4)
    from . import descsem as _ds
    ctx.try_rule(_ds.rule_desc_sem, p, 'DESC-SEM')
    ctx.try_rule(_ds.rule_field_sem, p, 'FIELD-SEM')
    ctx.try_rule(_ds.rule_rep_edge, p, 'REP-EDGE')
    ctx.not_decided += ['full separator arithmetic for every (index, arity, position)', 'store block boundaries (C07)',
                        'identity of tokens outside the edit window (runtime)']
    ctx.assumptions += ['TokenStore.insert_after/insert_before/remove/splice semantics (C07)']
