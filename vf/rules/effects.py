"""Entry-point enumeration and shared driver for the effect interpreter (C02, C04, C13, C19)."""
from __future__ import annotations

import ast
from typing import Any, Iterable, Optional

from ..absint import EffectInterp, InstV, Summary, join_point
from ..absval import B, F, NoneV, Obj, Plain, Unknown
from ..model import AnalysisError, ClassInfo, CustomProp, DescriptorDecl, FuncInfo, Program, norm

FIELD_KINDS = {'required_field', 'optional_left_field', 'optional_right_field', 'repeated_field', 'data_field'}
WRAPPER_METHODS = ['__setitem__', '__delitem__', 'insert', 'append', 'extend', 'pop', 'clear', 'remove', 'discard', 'drop_many',
                   'claim_interleaving_comments', 'unclaim_interleaving_comments', 'auto_claim_comments']
WRAPPER_READS = ['__getitem__', '__len__', '__iter__', '__contains__', '__eq__', 'keys', 'values', 'items', '__reversed__']
MUTATING_METHODS_SKIP = {'reattach', '_reattach', 'clone', 'detach'}


class Entry:
    def __init__(self, label: str, kind: str, run) -> None:  # type: ignore[no-untyped-def]
        self.label = label
        self.kind = kind        # set | call | get | read
        self.run = run


def registered_models(p: Program) -> list[ClassInfo]:
    cs = p.registered('tree_model') + p.registered('token_model')
    # most derived first, so that a hand-written subclass represents the symbols it inherits from its generated base
    return sorted(cs, key=lambda c: -len(c.mro))


def _as_param(v: Any) -> Any:
    import dataclasses
    from ..absval import ListV, Obj as O
    if isinstance(v, O):
        return dataclasses.replace(v, src='param')
    if isinstance(v, ListV) and isinstance(v.elem, O):
        return dataclasses.replace(v, elem=dataclasses.replace(v.elem, src='param'))
    return v


def _arg_values(it: EffectInterp, f: FuncInfo, skip: int = 1) -> list[list[Any]]:
    """argument vectors for a method call: every parameter Borrowed by its annotation; Optional ones also None"""
    a = f.node.args
    params = [*a.posonlyargs, *a.args][skip:]
    base: list[Any] = []
    for x in params:
        base.append(_as_param(it.value_of_annotation(f.module, x.annotation, B, f.cls)))
    vecs = [base]
    for i, x in enumerate(params):
        t = norm(x.annotation) if x.annotation is not None else ''
        if 'Optional' in t or 'None' in t:
            alt = list(base)
            alt[i] = NoneV()
            vecs.append(alt)
    return vecs


def setter_values() -> list[Any]:
    return [Obj(None, B, False, 'param'), NoneV(), Plain('param')]


def enumerate_entries(p: Program, it: EffectInterp, tier: str = 'thorough') -> dict[str, list[Entry]]:
    """all public entry points, grouped: 'set' (attribute stores), 'call' (public methods), 'get' (attribute loads),
    'wrapper_call' / 'wrapper_read' (methods of the view objects returned by repeated properties)"""
    out: dict[str, list[Entry]] = {'set': [], 'call': [], 'get': [], 'wrapper_call': [], 'wrapper_read': []}
    seen_sym: set[int] = set()
    seen_sig: set[Any] = set()
    skipped = [0]
    wrapper_seen: set[tuple[str, str]] = set()
    for c in registered_models(p):
        me = Obj(frozenset({c.qualname}), B, False)
        names: list[str] = []
        for k in c.mro:
            for nm in k.attr_order:
                if nm not in names:
                    names.append(nm)
        for nm in names:
            sym = c.lookup(nm)
            is_token = any(k.name == 'RawTokenModel' for k in c.mro)
            if sym is None or (id(sym) in seen_sym and not (is_token and isinstance(sym, CustomProp)
                                                            and nm in ('raw_text', 'value', 'indent', 'claimed'))):
                continue
            public = not nm.startswith('_') or (nm.startswith('__') and nm.endswith('__'))
            if isinstance(sym, DescriptorDecl):
                if sym.kind.name in FIELD_KINDS or not public:
                    continue
                seen_sym.add(id(sym))
                label = f'{c.name}.{nm}'
                if tier == 'quick' and 'generated' in sym.owner.module.name:
                    sig = decl_signature(p, sym)
                    if sig in seen_sig:
                        skipped[0] += 1
                        continue
                    seen_sig.add(sig)
                if isinstance(sym.kind.lookup('__set__'), FuncInfo):
                    for v in setter_values():
                        out['set'].append(Entry(f'{label} = <{_vname(v)}>', 'set',
                                                lambda me=me, nm=nm, v=v, label=label: it.run_store(label, me, nm, v)))
                out['get'].append(Entry(label, 'get', lambda me=me, nm=nm, label=label: it.run_load(label, me, nm)[0]))
                _wrapper_entries(p, it, out, wrapper_seen, sym.kind.name, me, nm, label)
            elif isinstance(sym, CustomProp):
                if not public:
                    continue
                seen_sym.add(id(sym))
                label = f'{c.name}.{nm}'
                if sym.fset is not None:
                    for v in setter_values():
                        out['set'].append(Entry(f'{label} = <{_vname(v)}>', 'set',
                                                lambda me=me, nm=nm, v=v, label=label: it.run_store(label, me, nm, v)))
                if sym.fget is not None:
                    out['get'].append(Entry(label, 'get', lambda me=me, nm=nm, label=label: it.run_load(label, me, nm)[0]))
                    _wrapper_entries(p, it, out, wrapper_seen, sym.flavour + ':' + (sym.fget.qualname), me, nm, label)
            elif isinstance(sym, FuncInfo):
                if not public or sym.kind in ('classmethod', 'staticmethod', 'overload') or nm in MUTATING_METHODS_SKIP:
                    continue
                if nm in ('__init__', '__repr__', '__init_subclass__', '__class_getitem__'):
                    continue
                seen_sym.add(id(sym))
                label = f'{c.name}.{nm}()'
                for i, vec in enumerate(_arg_values(it, sym)):
                    out['call'].append(Entry(label + (f' #{i}' if i else ''), 'call',
                                             lambda me=me, sym=sym, vec=vec, label=label: it.run_entry(label, it.func_value(sym, me), vec)))
    out['_skipped_same_signature'] = skipped[0]      # type: ignore[assignment]
    return out


def _vname(v: Any) -> str:
    return 'borrowed node' if isinstance(v, Obj) else 'None' if isinstance(v, NoneV) else 'plain value'


def _wrapper_entries(p: Program, it: EffectInterp, out: dict[str, list[Entry]], seen: set[tuple[str, str]], how: str,
                     me: Obj, attr: str, label: str) -> None:
    summ, vals = it.run_load(label, me, attr)
    for w in vals:
        if not isinstance(w, InstV):
            continue
        wc = it.cls_by_qual[w.cls]
        if not wc.has_external_base('MutableSequence') and not wc.has_external_base('MutableMapping'):
            continue
        key = (how.split(':')[0] if ':' not in how else how, w.cls)
        if key in seen:
            continue
        seen.add(key)
        for group, names in (('wrapper_call', WRAPPER_METHODS), ('wrapper_read', WRAPPER_READS)):
            for m in names:
                f = wc.lookup(m)
                if not isinstance(f, FuncInfo) or f.kind == 'overload':
                    continue
                for i, vec in enumerate(_arg_values(it, f)):
                    lab = f'{label}.{m}()' + (f' #{i}' if i else '')
                    out[group].append(Entry(lab, group, lambda w=w, f=f, vec=vec, lab=lab: it.run_entry(lab, it.func_value(f, w), vec)))
                # str-keyed variants of the mapping views
                if m in ('__setitem__', '__delitem__', 'pop', '__getitem__', '__contains__') and wc.has_external_base('MutableMapping'):
                    pass


def decl_signature(p: Program, d: Any, depth: int = 0) -> Any:
    """structural signature of a descriptor declaration: two declarations with the same signature run the same code on
    the same shapes, so the quick tier analyses one representative of each"""
    if isinstance(d, DescriptorDecl):
        if depth > 6:
            return (d.kind.name,)
        parts = []
        for a in [*d.call.args, *[k.value for k in d.call.keywords]]:
            sym = p.resolve_expr(d.owner.module, a, d.owner.attrs, d.owner) if isinstance(a, (ast.Name, ast.Attribute)) else None
            if isinstance(sym, (DescriptorDecl, CustomProp)):
                parts.append(decl_signature(p, sym, depth + 1))
            elif isinstance(sym, ClassInfo):
                parts.append(('cls', 'token' if any(k.name == 'RawTokenModel' for k in sym.mro) else sym.name))
            else:
                parts.append(('expr', 'sep' if isinstance(a, ast.Tuple) else type(a).__name__))
        nullable = d.kind.name.startswith('optional')
        return (d.kind.name, tuple(parts), nullable)
    if isinstance(d, CustomProp):
        return ('prop', d.fget.qualname if d.fget else '', d.fset.qualname if d.fset else '')
    return ('?',)


def select(entries: list[Entry], tier: str) -> list[Entry]:
    return entries


def run_entries(it: EffectInterp, entries: Iterable[Entry]) -> dict[str, Summary]:
    out: dict[str, Summary] = {}
    for e in entries:
        out[e.label] = e.run()
    return out
