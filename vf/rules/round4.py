"""Rules added after seeded round 4: TEXT-VERBATIM (C01), CLAIM-DESCEND (C14), MEMO (C10/C17/C18), MIXIN-BATCH (C19), SET-COVERS (C09/C13).

Each is a shape rule: the construct it names is read from the current tree, the instances it confirms are counted, and a vanished
anchor is an analysis error.
"""
from __future__ import annotations

import ast
from typing import Any, Optional

from ..model import AnalysisError, ClassInfo, External, FuncInfo, Program, norm, stmts_no_doc, walk_no_nested
from ..report import RuleContext


def _short(m: Any) -> str:
    return m.name.split('.', 1)[1] if '.' in m.name else m.name


def _rebinds(fn: ast.AST, name: str) -> Optional[ast.AST]:
    """first statement of fn (nested scopes excluded) that binds `name` again"""
    for n in walk_no_nested(fn):
        targets: list[ast.AST] = []
        if isinstance(n, ast.Assign):
            targets = list(n.targets)
        elif isinstance(n, (ast.AugAssign, ast.AnnAssign)):
            targets = [n.target]
        elif isinstance(n, (ast.For, ast.AsyncFor)):
            targets = [n.target]
        elif isinstance(n, ast.NamedExpr):
            targets = [n.target]
        elif isinstance(n, (ast.With, ast.AsyncWith)):
            targets = [i.optional_vars for i in n.items if i.optional_vars is not None]
        elif isinstance(n, ast.comprehension):
            targets = [n.target]
        elif isinstance(n, ast.Delete):
            targets = list(n.targets)
        for t in targets:
            for x in ast.walk(t):
                if isinstance(x, ast.Name) and x.id == name:
                    return n
    return None


# ====================================================================== TEXT-VERBATIM (C01)
def rule_text_verbatim(ctx: RuleContext, p: Program, rid: str) -> None:
    ctx.rule(rid, 'the text travels unmodified from the caller to the lexer and from the lexer into the token models: Parser.parse / _parse / '
                  'parse_token never rebind their `text` parameter and hand that very name to lark; every from_raw_text(...) call of the '
                  'parser passes `<lexer token>.value`; every from_raw_text classmethod and every token constructor passes its raw_text '
                  'parameter, unrebound, into the raw_text slot of the next constructor (cls(raw_text, ..), super().__init__(raw_text, ..), '
                  'self._raw_text = raw_text)')
    pc = p.cls('Parser', 'parser')
    pm = p.module('parser')
    n = 0
    for name, sink in (('parse', '_parse'), ('_parse', 'parse_interactive'), ('parse_token', 'from_text')):
        f = p.method(pc, name, inherited=False)
        if len(f.params) < 2:
            raise AnalysisError(f'TEXT-VERBATIM: Parser.{name} has no text parameter')
        text = f.params[1]
        site = f'parser:Parser.{name}'
        rb = _rebinds(f.node, text)
        calls = [c for c in ast.walk(f.node) if isinstance(c, ast.Call) and isinstance(c.func, ast.Attribute) and c.func.attr == sink]
        if not calls:
            raise AnalysisError(f'TEXT-VERBATIM: Parser.{name} no longer calls {sink}(..)')
        bad = None
        for c in calls:
            args = [a for a in c.args] + [k.value for k in c.keywords if k.arg == 'text']
            if not any(isinstance(a, ast.Name) and a.id == text for a in args):
                bad = c
        n += 1
        ctx.check(rb is None and bad is None, rid, site, 'text reaches the lexer as given',
                  (f'`{text}` is rebound by `{norm(rb)[:70]}`' if rb is not None else f'`{norm(bad)[:80]}` is not given `{text}` itself')
                  + ': what is lexed differs from what the caller passed, so the tokens of the model no longer concatenate to the input '
                    '(characters removed before lexing never reach the store and are missing from the printed text)', f.where,
                  note=f'{text} -> {sink}(..)')
    # parser -> models
    calls = [c for c in ast.walk(pm.tree) if isinstance(c, ast.Call) and isinstance(c.func, ast.Attribute) and c.func.attr == 'from_raw_text']
    if len(calls) < 3:
        raise AnalysisError(f'TEXT-VERBATIM: only {len(calls)} from_raw_text calls in the parser (3 confirmed)')
    for c in calls:
        a = c.args[0] if c.args else None
        ok = isinstance(a, ast.Attribute) and a.attr == 'value' and isinstance(a.value, (ast.Name, ast.Subscript))
        n += 1
        ctx.check(ok, rid, f'parser:{norm(c.func)[:60]}', 'lexer text handed over verbatim',
                  f'`{norm(c)[:90]}` does not pass the lexer token\'s .value as is', f'{pm.relpath}:{c.lineno}', note=norm(a)[:40] if a is not None else '')
    # models: from_raw_text and constructors
    tok_root = p.cls('RawTokenModel', 'models.base')
    token_base = p.cls('Token', 'token_store')
    classes = [tok_root] + tok_root.all_subclasses() + [token_base]
    seen_fn: set = set()
    for c in classes:
        for mname in ('from_raw_text', '__init__'):
            f = c.attrs.get(mname)
            if not isinstance(f, FuncInfo) or f in seen_fn:
                continue
            seen_fn.add(f)
            if len(f.params) < 2:
                continue
            rt = f.params[1]
            if mname == '__init__' and rt != 'raw_text':
                continue
            site = f'{_short(c.module)}:{c.name}.{mname}'
            rb = _rebinds(f.node, rt)
            sinks: list[tuple[ast.AST, bool]] = []
            for x in walk_no_nested(f.node):
                if isinstance(x, ast.Call):
                    fn_ = x.func
                    is_ctor = (isinstance(fn_, ast.Name) and fn_.id in ('cls', c.name)) or \
                        (isinstance(fn_, ast.Attribute) and fn_.attr in ('__init__', 'from_raw_text') and isinstance(fn_.value, ast.Call)
                         and norm(fn_.value.func) == 'super')
                    if is_ctor:
                        first = x.args[0] if x.args else next((k.value for k in x.keywords if k.arg == 'raw_text'), None)
                        sinks.append((x, isinstance(first, ast.Name) and first.id == rt))
                elif isinstance(x, ast.Assign) and any(isinstance(t, ast.Attribute) and t.attr in ('_raw_text', 'raw_text') and norm(t.value) == 'self'
                                                       for t in x.targets):
                    sinks.append((x, isinstance(x.value, ast.Name) and x.value.id == rt))
            if not sinks:
                raise AnalysisError(f'TEXT-VERBATIM: {site} neither stores raw_text nor passes it on')
            bad_s = next((s for s, ok_ in sinks if not ok_), None)
            n += 1
            ctx.check(rb is None and bad_s is None, rid, site, 'raw_text kept verbatim',
                      (f'`{rt}` is rebound by `{norm(rb)[:70]}`' if rb is not None else f'`{norm(bad_s)[:80]}` does not pass `{rt}` itself')
                      + ': the token stores a text that differs from the lexeme, so parse-then-print loses or changes characters', f.where,
                      note=f'{len(sinks)} hand-overs')
    if n < 12:
        raise AnalysisError(f'TEXT-VERBATIM: only {n} hand-over sites found')


# ====================================================================== CLAIM-DESCEND (C14)
def rule_claim_descend(ctx: RuleContext, p: Program, rid: str) -> None:
    ctx.rule(rid, 'the hand-written links of the auto_claim_comments chain (Repeated, required / optional / repeated field, the repeated '
                  'wrappers) descend unconditionally: every path from entry reaches the auto_claim_comments call of the child -- for a '
                  'list, of every item, in a loop without break / continue / filter -- the only admitted guard being `value is not None` '
                  'of an optional child; the wrapper with interleaving comments claims the standalone comments after the descent on every path')
    sites = [
        ('models.internal.repeated', 'Repeated'),
        ('models.internal.fields', 'required_field'),
        ('models.internal.fields', 'optional_field'),
        ('models.internal.fields', 'repeated_field'),
        ('models.internal.properties', 'RepeatedNodeWrapper'),
        ('models.internal.interleaving_comments', 'RepeatedNodeWithInterleavingCommentsWrapper'),
    ]

    def is_descent(e: ast.AST) -> bool:
        return isinstance(e, ast.Expr) and isinstance(e.value, ast.Call) and isinstance(e.value.func, ast.Attribute) \
            and e.value.func.attr == 'auto_claim_comments'

    def escapes(st: ast.stmt) -> bool:
        return any(isinstance(x, (ast.Return, ast.Raise, ast.Break, ast.Continue)) for x in ast.walk(st))

    def always(stmts: list[ast.stmt], params: list[str]) -> tuple[bool, str]:
        for st in stmts:
            if is_descent(st):
                return True, ''
            if isinstance(st, (ast.For, ast.AsyncFor)):
                inner, why = always(st.body, params + [norm(st.target)])
                if inner:
                    head = []
                    for b in st.body:
                        if is_descent(b):
                            break
                        head.append(b)
                    if any(escapes(b) for b in head) or st.orelse:
                        return False, f'the loop `for {norm(st.target)} in {norm(st.iter)[:40]}` can skip an item before its descent'
                    return True, ''
            if isinstance(st, ast.If):
                t = norm(st.test)
                a, _ = always(st.body, params)
                b, _ = always(st.orelse, params)
                if a and b:
                    return True, ''
                opt = [f'{q} is not None' for q in params]
                if a and not st.orelse and t in opt:
                    return True, ''        # nothing to visit when the optional child is absent
                if escapes(st):
                    return False, f'`if {t[:60]}` leaves before the children are visited'
                continue
            if escapes(st):
                return False, f'`{norm(st)[:60]}` leaves before the children are visited'
        return False, 'no path reaches an auto_claim_comments call of the children'

    n = 0
    for mod, cname in sites:
        c = p.cls(cname, mod)
        f = c.attrs.get('auto_claim_comments')
        if not isinstance(f, FuncInfo):
            raise AnalysisError(f'CLAIM-DESCEND: {cname}.auto_claim_comments vanished')
        body = stmts_no_doc(f.node.body)
        ok, why = always(body, f.params[1:])
        if ok and cname == 'RepeatedNodeWithInterleavingCommentsWrapper':
            tail = [norm(s) for s in body]
            ok = bool(tail) and tail[-1] == 'self.claim_interleaving_comments()' and not any(escapes(s) for s in body)
            why = 'claim_interleaving_comments() is not the unconditional last step'
        n += 1
        ctx.check(ok, rid, f'{mod}:{cname}.auto_claim_comments', 'descends on every path',
                  f'{why}: a child that is skipped never gets to claim the comment next to it (its leading / trailing candidate may lie '
                  f'outside the skipped node\'s own token range), the enclosing list then takes that comment as a standalone entry and the '
                  f'documented order -- leading of the model below, else trailing of the model above, else standalone -- is broken', f.where)
    if n < 6:
        raise AnalysisError('CLAIM-DESCEND: sites missing')


# ====================================================================== MEMO (C10 / C17 / C18)
_MEMO = ('functools.cache', 'functools.lru_cache', 'functools.cached_property', 'cache', 'lru_cache', 'cached_property')


def _memo_name(e: ast.AST) -> Optional[str]:
    if isinstance(e, ast.Call):
        # lru_cache(maxsize=..) as a decorator factory / cache(f) as a wrapper
        inner = _memo_name(e.func)
        return inner
    n = norm(e)
    return n if n in _MEMO else None


def rule_memo(ctx: RuleContext, p: Program, rid: str) -> None:
    ctx.rule(rid, 'memoisation (functools.cache / lru_cache / cached_property, as decorator or as wrapper call) anywhere in the package '
                  'outside the build-time generator: the memoised body may depend only on schema -- attributes of `self._field` (the field '
                  'descriptor handed to __init__ and never reassigned) -- or, for a module-level function, on its own arguments; anything '
                  'that reads the document (tokens, children, indentation, spacing) must be computed at use, because every such value '
                  'changes under edits')
    n = 0
    control = 0
    for m in p.modules.values():
        if '.modelgen' in m.name:
            continue
        parents: dict[int, ast.AST] = {}
        for node in ast.walk(m.tree):
            for ch in ast.iter_child_nodes(node):
                parents[id(ch)] = node
        for node in ast.walk(m.tree):
            body: Optional[ast.AST] = None
            how = ''
            owner_cls: Optional[ast.ClassDef] = None
            if isinstance(node, (ast.FunctionDef, ast.AsyncFunctionDef)):
                for d in node.decorator_list:
                    mn = _memo_name(d)
                    if mn:
                        body, how = node, f'@{mn} def {node.name}'
                par = parents.get(id(node))
                owner_cls = par if isinstance(par, ast.ClassDef) else None
            elif isinstance(node, ast.Call) and _memo_name(node.func) and node.args and not isinstance(parents.get(id(node)), ast.Call) \
                    and not any(node is d for fn in ast.walk(m.tree) if isinstance(fn, (ast.FunctionDef, ast.AsyncFunctionDef)) for d in fn.decorator_list):
                # cache(f) / lru_cache(..)(f); a bare lru_cache(maxsize=..) factory has no function argument
                if isinstance(node.func, ast.Call) or norm(node.func) in _MEMO and not node.keywords:
                    body, how = node.args[0], f'{norm(node.func)}({norm(node.args[0])[:50]})'
            if body is None:
                continue
            n += 1
            site = f'{_short(m)}:{how}'
            where = f'{m.relpath}:{node.lineno}'
            reads = sorted({norm(x) for x in ast.walk(body) if isinstance(x, ast.Attribute) and isinstance(x.value, ast.Name) and x.value.id == 'self'})
            ok = False
            why = ''
            if owner_cls is not None and isinstance(body, ast.FunctionDef):
                others = [r for r in reads if r != 'self._field']
                assigned_elsewhere = [norm(a) for fn in owner_cls.body if isinstance(fn, ast.FunctionDef) and fn.name != '__init__'
                                      for a in ast.walk(fn) if isinstance(a, (ast.Assign, ast.AugAssign))
                                      and any(norm(t) == 'self._field' for t in (a.targets if isinstance(a, ast.Assign) else [a.target]))]
                calls = [c for c in ast.walk(body) if isinstance(c, ast.Call)]
                ok = not others and not assigned_elsewhere and not calls and bool(reads)
                why = f'it reads {others or reads}' + (' and calls functions' if calls else '')
                if ok:
                    control += 1
            elif owner_cls is None and isinstance(body, ast.FunctionDef) and isinstance(parents.get(id(node)), ast.Module):
                params = {a.arg for a in [*body.args.posonlyargs, *body.args.args, *body.args.kwonlyargs]}
                free = {x.id for x in ast.walk(body) if isinstance(x, ast.Name) and isinstance(x.ctx, ast.Load)} - params
                mutable = [g for g in free if any(isinstance(st, ast.Assign) and any(isinstance(t, ast.Name) and t.id == g for t in st.targets)
                                                  and not isinstance(st.value, (ast.Constant, ast.Tuple, ast.Call)) for st in m.tree.body)]
                ok = not mutable and 'self' not in params
                why = f'it reads module state {mutable}'
            else:
                why = 'it wraps a closure / lambda / method object created per instance, whose captured state is the live document'
            ctx.check(ok, rid, site, 'depends on schema only',
                      f'{how} is memoised but {why}: the first answer is kept for the life of the object while the document changes under it '
                      f'(indentation, edge tokens, spacing, children all change under edits), so later reads and writes use stale data',
                      where, note=', '.join(reads)[:80])
    ctx.control(rid, 'the two confirmed schema-only memoised properties (RepeatedNodeWrapper._separators / _separators_before) are recognised',
                True, control >= 2)
    if control < 2:
        raise AnalysisError(f'MEMO: only {control} of the 2 confirmed schema-only memoised properties found')


# ====================================================================== MIXIN-BATCH (C19)
_BATCH = {
    'MutableSequence': {'extend': 'appends the values one by one'},
    'MutableMapping': {'update': 'assigns the pairs one by one'},
}
_DELEGATES = {'MutableSequence': {'__iadd__': 'extend'}}


def rule_mixin_batch(ctx: RuleContext, p: Program, rid: str) -> None:
    ctx.rule(rid, 'batch mutators that the public list / mapping views would inherit from collections.abc (MutableSequence.extend, '
                  'MutableMapping.update: loops over the single-element primitive; __iadd__ delegates to extend) -- a refusal at the k-th '
                  'element leaves the first k-1 applied, so each view class defines its own batch method (checked by ORD-REFUSE) instead of '
                  'inheriting the loop.  reverse() is not listed: each of its steps assigns an element that is still in the list, which '
                  '__setitem__(int) refuses before editing (ORD-REFUSE)')
    n = 0
    for m in p.modules.values():
        for c in m.classes:
            if c.name.startswith('_'):
                continue          # private helpers (_Universe) are not editing API
            abcs = set()
            for k in c.mro:
                for b in k.bases:
                    if isinstance(b, External):
                        for a in _BATCH:
                            if b.qualname.endswith(a):
                                abcs.add(a)
            for a in sorted(abcs):
                for meth, how in _BATCH[a].items():
                    owner = c.lookup_owner(meth)
                    n += 1
                    site = f'{_short(c.module)}:{c.name}.{meth}'
                    f = owner.attrs.get(meth) if owner else None
                    ctx.check(owner is not None, rid, site, f'own {meth}',
                              f'{c.name}.{meth} is the collections.abc.{a} mixin, which {how} through the view\'s single-element primitive: when '
                              f'a later element is refused (a node that still lives elsewhere: "Cannot reuse node") the earlier ones are '
                              f'already in the document, so the refused call has changed text and tree',
                              f.where if isinstance(f, FuncInfo) else f'{c.module.relpath}:{c.node.lineno}', note=f'defined in {owner.name}' if owner else '')
                for meth, target in _DELEGATES.get(a, {}).items():
                    owner = c.lookup_owner(meth)
                    if owner is not None:
                        continue      # an own __iadd__ is analysed by ORD-REFUSE like any other method
                    n += 1
                    ctx.check(c.lookup_owner(target) is not None, rid, f'{_short(c.module)}:{c.name}.{meth}', f'mixin {meth} -> own {target}',
                              f'{c.name}.{meth} is the mixin that calls self.{target}(), which is itself the mixin loop', f'{c.module.relpath}:{c.node.lineno}')
    if n < 12:
        raise AnalysisError(f'MIXIN-BATCH: only {n} (view class, batch method) pairs found')


# ====================================================================== SET-COVERS (C09 / C13)
def _expand(e: ast.AST, env: dict[str, ast.AST], depth: int = 0) -> str:
    """normalised access path of e with local single-assignment names replaced by their definitions"""
    if depth > 8:
        return norm(e)
    if isinstance(e, ast.Name) and e.id in env:
        return _expand(env[e.id], env, depth + 1)
    if isinstance(e, ast.Attribute):
        return f'{_expand(e.value, env, depth + 1)}.{e.attr}'
    if isinstance(e, ast.Subscript):
        return f'{_expand(e.value, env, depth + 1)}[{norm(e.slice)}]'
    return norm(e)


def _strip_field(name: str) -> str:
    return name.removeprefix('raw_').lstrip('_').removeprefix('raw_')


def rule_set_covers(ctx: RuleContext, p: Program, rid: str) -> None:
    ctx.rule(rid, 'hand-written `value` properties that read by delegation (`return self.<field>.value`): every write the setter performs '
                  'addresses what the getter reads as a whole -- it assigns `self.<field>` (replacing the tree) or `self.<field>.value` '
                  '(delegating) -- never a strict part of it (`self.<field>.<...>.value = v`), which leaves the rest of the tree contributing '
                  'to the value read back')
    n = 0
    for m in p.modules.values():
        if not m.name.startswith('autobean_refactor.models.') or '.generated' in m.name:
            continue
        for c in m.classes:
            prop = c.attrs.get('value')
            fget = getattr(prop, 'fget', None)
            fset = getattr(prop, 'fset', None)
            if fget is None or fset is None:
                # plain @property pairs are stored as FuncInfo with a setter companion
                try:
                    fget = p.method(c, 'value', inherited=False)
                    fset = p.method(c, 'value', setter=True, inherited=False)
                except AnalysisError:
                    continue
            rets = [r.value for r in walk_no_nested(fget.node) if isinstance(r, ast.Return) and r.value is not None]
            if len(rets) != 1:
                continue
            r = rets[0]
            if not (isinstance(r, ast.Attribute) and r.attr == 'value' and isinstance(r.value, ast.Attribute) and norm(r.value.value) == 'self'):
                continue
            field = _strip_field(r.value.attr)
            env: dict[str, ast.AST] = {}
            counts: dict[str, int] = {}
            for st in walk_no_nested(fset.node):
                if isinstance(st, ast.Assign) and len(st.targets) == 1 and isinstance(st.targets[0], ast.Name):
                    counts[st.targets[0].id] = counts.get(st.targets[0].id, 0) + 1
                    env[st.targets[0].id] = st.value
                elif isinstance(st, ast.NamedExpr):
                    counts[st.target.id] = counts.get(st.target.id, 0) + 1
                    env[st.target.id] = st.value
            env = {k: v for k, v in env.items() if counts.get(k) == 1}
            writes: list[tuple[str, ast.AST]] = []
            for st in walk_no_nested(fset.node):
                ts: list[ast.AST] = []
                if isinstance(st, ast.Assign):
                    ts = [t for t in st.targets if isinstance(t, (ast.Attribute, ast.Subscript))]
                elif isinstance(st, ast.AugAssign) and isinstance(st.target, (ast.Attribute, ast.Subscript)):
                    ts = [st.target]
                for t in ts:
                    writes.append((_expand(t, env), st))
            n += 1
            site = f'{_short(m)}:{c.name}.value'
            if not writes:
                raise AnalysisError(f'SET-COVERS: the setter of {site} writes nothing recognisable')
            bad = None
            for path, st in writes:
                parts = path.split('.')
                ok = parts[0] == 'self' and len(parts) >= 2 and _strip_field(parts[1]) == field and \
                    (len(parts) == 2 or (len(parts) == 3 and parts[2] == 'value'))
                if not ok:
                    bad = (path, st)
                    break
            ctx.check(bad is None, rid, site, f'writes cover self.{r.value.attr}.value',
                      f'the setter writes `{bad[0] if bad else ""}` (`{norm(bad[1])[:70] if bad else ""}`), a strict part of `self.{r.value.attr}` '
                      f'whose .value the getter returns: operators and operands around that part keep contributing, so after `x.value = v` '
                      f'reading x.value gives something else than v for expressions the shortcut does not fit', fset.where,
                      note=f'{len(writes)} writes')
    if n < 2:
        raise AnalysisError(f'SET-COVERS: only {n} delegating value properties found (NumberExpr, Tolerance confirmed)')


# ====================================================================== EQ-SHAPE (C20)
def _seq_kind(e: ast.AST, env: dict[str, str], cls_fields: set[str], depth: int = 0) -> str:
    """'tuple' | 'list' | '?' -- the container type an expression evaluates to"""
    if depth > 6:
        return '?'
    if isinstance(e, ast.Tuple):
        return 'tuple'
    if isinstance(e, (ast.List, ast.ListComp)):
        return 'list'
    if isinstance(e, ast.Call):
        f = norm(e.func)
        if f == 'tuple':
            return 'tuple'
        if f in ('list', 'sorted'):
            return 'list'
        if f in ('cast', 'typing.cast') and len(e.args) == 2:
            return _seq_kind(e.args[1], env, cls_fields, depth + 1)      # cast() converts nothing
        return '?'
    if isinstance(e, ast.Name):
        return env.get(e.id, '?')
    if isinstance(e, ast.Attribute) and (e.attr in cls_fields or '_' + e.attr in cls_fields):
        return 'tuple'                  # the invariant under proof (induction over writers): every writer of the field stores a tuple
    if isinstance(e, ast.Subscript) and isinstance(e.slice, ast.Slice):
        return _seq_kind(e.value, env, cls_fields, depth + 1)
    if isinstance(e, ast.BinOp) and isinstance(e.op, ast.Add):
        a, b = _seq_kind(e.left, env, cls_fields, depth + 1), _seq_kind(e.right, env, cls_fields, depth + 1)
        return a if a == b else '?'
    if isinstance(e, ast.IfExp):
        a, b = _seq_kind(e.body, env, cls_fields, depth + 1), _seq_kind(e.orelse, env, cls_fields, depth + 1)
        return a if a == b else '?'
    return '?'


def _kind_env(fn: ast.AST) -> dict[str, str]:
    env: dict[str, str] = {}
    a = fn.args  # type: ignore[attr-defined]
    for x in [*a.posonlyargs, *a.args, *a.kwonlyargs]:
        if x.annotation is not None:
            an = norm(x.annotation)
            if an.startswith(('tuple[', 'Tuple[')):
                env[x.arg] = 'tuple'
            elif an.startswith(('list[', 'List[')):
                env[x.arg] = 'list'
    if a.vararg is not None:
        env[a.vararg.arg] = 'tuple'
    counts: dict[str, int] = {}
    for st in walk_no_nested(fn):
        if isinstance(st, ast.Assign) and len(st.targets) == 1 and isinstance(st.targets[0], ast.Name):
            counts[st.targets[0].id] = counts.get(st.targets[0].id, 0) + 1
    for st in walk_no_nested(fn):
        if isinstance(st, ast.Assign) and len(st.targets) == 1 and isinstance(st.targets[0], ast.Name) and counts[st.targets[0].id] == 1 \
                and st.targets[0].id not in env:
            env[st.targets[0].id] = _seq_kind(st.value, env, set())
    return env


def rule_eq_shape(ctx: RuleContext, p: Program, rid: str) -> None:
    ctx.rule(rid, 'sequence-valued fields that a hand-written _eq compares with == (self._f == other._f) always hold the same container '
                  'type: every writer -- each constructor call site in the package (Cls(..), cls(..), type(self)(..)) for the parameter the '
                  'field is initialised from, and each assignment to the field -- stores a tuple (tuple display, tuple(..), a tuple-annotated '
                  'or *args name, a slice or concatenation of those, cast() of those); a list there makes the model unequal to its own '
                  'deep copy and to a fresh parse of its text, because [x] != (x,)')
    n_sites = 0
    n_cls = 0
    for m in p.modules.values():
        if not m.name.startswith('autobean_refactor.models') or '.generated' in m.name:
            continue
        for c in m.classes:
            eq = c.attrs.get('_eq')
            init = c.attrs.get('__init__')
            if not isinstance(eq, FuncInfo) or not isinstance(init, FuncInfo):
                continue
            compared = set()
            for x in ast.walk(eq.node):
                if isinstance(x, ast.Compare) and len(x.ops) == 1 and isinstance(x.ops[0], ast.Eq):
                    l, r = x.left, x.comparators[0]
                    if isinstance(l, ast.Attribute) and isinstance(r, ast.Attribute) and l.attr == r.attr and norm(l.value) == 'self':
                        compared.add(l.attr)
            # fields initialised from a tuple-annotated parameter
            ann = {a.arg: norm(a.annotation) for a in init.node.args.args if a.annotation is not None}
            field_param: dict[str, str] = {}
            for st in walk_no_nested(init.node):
                if isinstance(st, ast.Assign) and len(st.targets) == 1 and isinstance(st.targets[0], ast.Attribute) \
                        and norm(st.targets[0].value) == 'self' and st.targets[0].attr in compared and isinstance(st.value, ast.Name) \
                        and ann.get(st.value.id, '').startswith(('tuple[', 'Tuple[')):
                    field_param[st.targets[0].attr] = st.value.id
            if not field_param:
                continue
            n_cls += 1
            params = [a.arg for a in init.node.args.args][1:]
            fields = set(field_param)
            problems: list[tuple[str, str]] = []
            # call sites
            for m2 in p.modules.values():
                if m2.name.endswith('_test') or not m2.name.startswith('autobean_refactor'):
                    continue
                for fn in p.functions_in(m2):
                    env = None
                    for call in walk_no_nested(fn.node):
                        if not isinstance(call, ast.Call):
                            continue
                        f = norm(call.func)
                        same_cls = fn.cls is not None and c in fn.cls.mro
                        if not (f == c.name or f.endswith('.' + c.name) or (same_cls and f in ('cls', 'type(self)', 'self.__class__'))):
                            continue
                        if env is None:
                            env = _kind_env(fn.node)
                        bound = dict(zip(params, call.args))
                        bound.update({k.arg: k.value for k in call.keywords if k.arg})
                        for fld, prm in field_param.items():
                            if prm not in bound:
                                continue
                            n_sites += 1
                            k = _seq_kind(bound[prm], env, fields)
                            if k == 'list':
                                problems.append((f'{_short(m2)}:{fn.qualname}', f'`{norm(call)[:80]}` passes a list for `{prm}` (stored in {fld})'))
                            elif k == '?':
                                raise AnalysisError(f'EQ-SHAPE: cannot tell the container type of `{norm(bound[prm])[:60]}` in {fn.qualname}')
            # other writers of the field
            for fn in c.methods():
                if fn is init:
                    continue
                env = None
                for st in walk_no_nested(fn.node):
                    if isinstance(st, ast.Assign):
                        for t in st.targets:
                            if isinstance(t, ast.Attribute) and norm(t.value) == 'self' and t.attr in fields:
                                if env is None:
                                    env = _kind_env(fn.node)
                                n_sites += 1
                                k = _seq_kind(st.value, env, fields)
                                if k == 'list':
                                    problems.append((f'{_short(m)}:{fn.qualname}', f'`{norm(st)[:80]}` stores a list in {t.attr}'))
                                elif k == '?':
                                    raise AnalysisError(f'EQ-SHAPE: cannot tell the container type of `{norm(st.value)[:60]}` in {fn.qualname}')
            site = f'{_short(m)}:{c.name}._eq'
            if problems:
                for where_fn, msg in problems[:3]:
                    ctx.fail(rid, site, where_fn, f'{msg}: {c.name}._eq compares the field with ==, every other producer (parser, clone, '
                                                  f'_reattach) stores a tuple, and a list never equals a tuple -- the model stops being equal to its '
                                                  f'deep copy and to the parse of its own text', eq.where)
            else:
                ctx.ok(rid, site, f'{sorted(fields)}: every writer stores a tuple')
    if n_cls < 2 or n_sites < 12:
        raise AnalysisError(f'EQ-SHAPE: only {n_cls} classes / {n_sites} writer sites found (NumberAddExpr, NumberMulExpr confirmed)')


# ====================================================================== REPLACE-STORE (C05 / C11)
def rule_replace_store(ctx: RuleContext, p: Program, rid: str) -> None:
    ctx.rule(rid, 'every property setter that swaps a node in the token store with replace_node(old, new) then records the NEW node in the '
                  'model: the next `<field>.__set__(instance, X)` in the same block has X == new (all four sibling setters -- required, '
                  'optional, repeated, repeated with interleaving comments -- agree); a field left pointing at the removed node makes the '
                  'tree disagree with the store (its tokens are in no store: spans cannot be walked, deep copies fail)')
    n = 0
    for m in p.modules.values():
        if not m.name.startswith('autobean_refactor.models.internal'):
            continue
        for fn in p.functions_in(m):
            found: list[tuple[ast.Call, list[ast.stmt]]] = []

            def scan(stmts: list[ast.stmt], after: list[ast.stmt]) -> None:
                for i, st in enumerate(stmts):
                    rest = stmts[i + 1:] + after
                    if isinstance(st, ast.Expr) and isinstance(st.value, ast.Call) and norm(st.value.func).split('.')[-1] == 'replace_node' \
                            and len(st.value.args) == 2:
                        found.append((st.value, rest))
                    if isinstance(st, (ast.FunctionDef, ast.AsyncFunctionDef, ast.ClassDef)):
                        continue
                    for attr in ('body', 'orelse', 'finalbody'):
                        sub = getattr(st, attr, None)
                        if isinstance(sub, list) and sub and isinstance(sub[0], ast.stmt):
                            scan(sub, [] if isinstance(st, (ast.For, ast.While, ast.AsyncFor)) else rest)
                    for h in getattr(st, 'handlers', []) or []:
                        scan(h.body, rest)
            scan(fn.node.body, [])
            for call, rest in found:
                old, new = norm(call.args[0]), norm(call.args[1])
                store = None
                for nx in rest:
                    for c in ast.walk(nx):
                        if isinstance(c, ast.Call) and isinstance(c.func, ast.Attribute) and c.func.attr == '__set__' and len(c.args) == 2:
                            store = c
                            break
                    if store is not None:
                        break
                n += 1
                site = f'{_short(m)}:{fn.qualname}'
                if store is None:
                    ctx.fail(rid, site, f'replace_node({old}, {new})', f'after replace_node({old}, {new}) the field is never updated: it keeps '
                             f'pointing at the removed node', fn.where)
                    continue
                got = norm(store.args[1])
                ctx.check(got == new, rid, site, f'replace_node({old}, {new}) then store',
                          f'after replace_node({old}, {new}) the field is set to `{got}`, not to the node that was spliced in (`{new}`): the model '
                          f'keeps a node whose tokens are no longer in the store -- printing looks right (the cached wrapper is the new one) but '
                          f'walking or deep-copying the model fails', f'{m.relpath}:{store.lineno}', note=f'__set__(.., {got})')
    if n < 4:
        raise AnalysisError(f'REPLACE-STORE: only {n} replace_node call sites found (4 confirmed)')
