"""Rules added after seeded round 4: TEXT-VERBATIM (C01), CLAIM-DESCEND (C14), MEMO (C10/C17/C18), MIXIN-BATCH (C19), SET-COVERS (C09/C13).

Each is a shape rule: the construct it names is read from the current tree, the instances it confirms are counted, and a vanished
anchor is an analysis error.
"""
from __future__ import annotations

import ast
import re
from typing import Any, Optional

from ..model import AnalysisError, ClassInfo, External, FuncInfo, Program, norm, stmts_no_doc, walk_no_nested
from ..report import RuleContext


def _short(m: Any) -> str:
    return m.name.split('.', 1)[1] if '.' in m.name else m.name


def _rebinds(fn: ast.AST, name: str) -> Optional[ast.AST]:
    """first statement of fn (nested scopes excluded) that binds `name` again"""
    for n in walk_no_nested(fn):
        targets: list[ast.AST] = []
        if isinstance(n, ast.Assign):
            targets = list(n.targets)
        elif isinstance(n, (ast.AugAssign, ast.AnnAssign)):
            targets = [n.target]
        elif isinstance(n, (ast.For, ast.AsyncFor)):
            targets = [n.target]
        elif isinstance(n, ast.NamedExpr):
            targets = [n.target]
        elif isinstance(n, (ast.With, ast.AsyncWith)):
            targets = [i.optional_vars for i in n.items if i.optional_vars is not None]
        elif isinstance(n, ast.comprehension):
            targets = [n.target]
        elif isinstance(n, ast.Delete):
            targets = list(n.targets)
        for t in targets:
            for x in ast.walk(t):
                if isinstance(x, ast.Name) and x.id == name:
                    return n
    return None


# ====================================================================== TEXT-VERBATIM (C01)
def rule_text_verbatim(ctx: RuleContext, p: Program, rid: str) -> None:
    ctx.rule(rid, 'the text travels unmodified from the caller to the lexer and from the lexer into the token models: Parser.parse / _parse / '
                  'parse_token never rebind their `text` parameter and hand that very name to lark; every from_raw_text(...) call of the '
                  'parser passes `<lexer token>.value`; every from_raw_text classmethod and every token constructor passes its raw_text '
                  'parameter, unrebound, into the raw_text slot of the next constructor (cls(raw_text, ..), super().__init__(raw_text, ..), '
                  'self._raw_text = raw_text)')
    pc = p.cls('Parser', 'parser')
    pm = p.module('parser')
    n = 0
    for name, sink in (('parse', '_parse'), ('_parse', 'parse_interactive'), ('parse_token', 'from_text')):
        f = p.method(pc, name, inherited=False)
        if len(f.params) < 2:
            raise AnalysisError(f'TEXT-VERBATIM: Parser.{name} has no text parameter')
        text = f.params[1]
        site = f'parser:Parser.{name}'
        rb = _rebinds(f.node, text)
        calls = [c for c in ast.walk(f.node) if isinstance(c, ast.Call) and isinstance(c.func, ast.Attribute) and c.func.attr == sink]
        if not calls:
            raise AnalysisError(f'TEXT-VERBATIM: Parser.{name} no longer calls {sink}(..)')
        bad = None
        for c in calls:
            args = [a for a in c.args] + [k.value for k in c.keywords if k.arg == 'text']
            if not any(isinstance(a, ast.Name) and a.id == text for a in args):
                bad = c
        n += 1
        ctx.check(rb is None and bad is None, rid, site, 'text reaches the lexer as given',
                  (f'`{text}` is rebound by `{norm(rb)[:70]}`' if rb is not None else f'`{norm(bad)[:80]}` is not given `{text}` itself')
                  + ': what is lexed differs from what the caller passed, so the tokens of the model no longer concatenate to the input '
                    '(characters removed before lexing never reach the store and are missing from the printed text)', f.where,
                  note=f'{text} -> {sink}(..)')
    # parser -> models
    calls = [c for c in ast.walk(pm.tree) if isinstance(c, ast.Call) and isinstance(c.func, ast.Attribute) and c.func.attr == 'from_raw_text']
    if len(calls) < 3:
        raise AnalysisError(f'TEXT-VERBATIM: only {len(calls)} from_raw_text calls in the parser (3 confirmed)')
    for c in calls:
        a = c.args[0] if c.args else None
        if isinstance(a, ast.Name):
            # a local bound once (assignment or walrus) to <lexer token>.value
            binds = [x.value for x in ast.walk(pm.tree) if (isinstance(x, ast.NamedExpr) and x.target.id == a.id)
                     or (isinstance(x, ast.Assign) and len(x.targets) == 1 and isinstance(x.targets[0], ast.Name) and x.targets[0].id == a.id)]
            same_fn = [b_ for b_ in binds if abs(getattr(b_, 'lineno', 0) - c.lineno) < 12]
            if len(same_fn) == 1:
                a = same_fn[0]
        ok = isinstance(a, ast.Attribute) and a.attr == 'value' and isinstance(a.value, (ast.Name, ast.Subscript))
        n += 1
        ctx.check(ok, rid, f'parser:{norm(c.func)[:60]}', 'lexer text handed over verbatim',
                  f'`{norm(c)[:90]}` does not pass the lexer token\'s .value as is', f'{pm.relpath}:{c.lineno}', note=norm(a)[:40] if a is not None else '')
    # models: from_raw_text and constructors
    tok_root = p.cls('RawTokenModel', 'models.base')
    token_base = p.cls('Token', 'token_store')
    classes = [tok_root] + tok_root.all_subclasses() + [token_base]
    seen_fn: set = set()
    for c in classes:
        for mname in ('from_raw_text', '__init__'):
            f = c.attrs.get(mname)
            if not isinstance(f, FuncInfo) or f in seen_fn:
                continue
            seen_fn.add(f)
            if len(f.params) < 2:
                continue
            rt = f.params[1]
            if mname == '__init__' and rt != 'raw_text':
                continue
            site = f'{_short(c.module)}:{c.name}.{mname}'
            rb = _rebinds(f.node, rt)
            sinks: list[tuple[ast.AST, bool]] = []
            for x in walk_no_nested(f.node):
                if isinstance(x, ast.Call):
                    fn_ = x.func
                    is_ctor = (isinstance(fn_, ast.Name) and fn_.id in ('cls', c.name)) or \
                        (isinstance(fn_, ast.Attribute) and fn_.attr in ('__init__', 'from_raw_text') and isinstance(fn_.value, ast.Call)
                         and norm(fn_.value.func) == 'super')
                    if is_ctor:
                        first = x.args[0] if x.args else next((k.value for k in x.keywords if k.arg == 'raw_text'), None)
                        sinks.append((x, isinstance(first, ast.Name) and first.id == rt))
                elif isinstance(x, ast.Assign) and any(isinstance(t, ast.Attribute) and t.attr in ('_raw_text', 'raw_text') and norm(t.value) == 'self'
                                                       for t in x.targets):
                    sinks.append((x, isinstance(x.value, ast.Name) and x.value.id == rt))
            if not sinks:
                raise AnalysisError(f'TEXT-VERBATIM: {site} neither stores raw_text nor passes it on')
            bad_s = next((s for s, ok_ in sinks if not ok_), None)
            n += 1
            ctx.check(rb is None and bad_s is None, rid, site, 'raw_text kept verbatim',
                      (f'`{rt}` is rebound by `{norm(rb)[:70]}`' if rb is not None else f'`{norm(bad_s)[:80]}` does not pass `{rt}` itself')
                      + ': the token stores a text that differs from the lexeme, so parse-then-print loses or changes characters', f.where,
                      note=f'{len(sinks)} hand-overs')
    if n < 12:
        raise AnalysisError(f'TEXT-VERBATIM: only {n} hand-over sites found')


# ====================================================================== CLAIM-DESCEND (C14)
def rule_claim_descend(ctx: RuleContext, p: Program, rid: str) -> None:
    ctx.rule(rid, 'the hand-written links of the auto_claim_comments chain (Repeated, required / optional / repeated field, the repeated '
                  'wrappers) descend unconditionally: every path from entry reaches the auto_claim_comments call of the child -- for a '
                  'list, of every item, in a loop without break / continue / filter -- the only admitted guard being `value is not None` '
                  'of an optional child; the wrapper with interleaving comments claims the standalone comments after the descent on every path')
    sites = [
        ('models.internal.repeated', 'Repeated'),
        ('models.internal.fields', 'required_field'),
        ('models.internal.fields', 'optional_field'),
        ('models.internal.fields', 'repeated_field'),
        ('models.internal.properties', 'RepeatedNodeWrapper'),
        ('models.internal.interleaving_comments', 'RepeatedNodeWithInterleavingCommentsWrapper'),
    ]

    def is_descent(e: ast.AST) -> bool:
        return isinstance(e, ast.Expr) and isinstance(e.value, ast.Call) and isinstance(e.value.func, ast.Attribute) \
            and e.value.func.attr == 'auto_claim_comments'

    def escapes(st: ast.stmt) -> bool:
        return any(isinstance(x, (ast.Return, ast.Raise, ast.Break, ast.Continue)) for x in ast.walk(st))

    def always(stmts: list[ast.stmt], params: list[str]) -> tuple[bool, str]:
        for st in stmts:
            if is_descent(st):
                return True, ''
            if isinstance(st, (ast.For, ast.AsyncFor)):
                inner, why = always(st.body, params + [norm(st.target)])
                if inner:
                    head = []
                    for b in st.body:
                        if is_descent(b):
                            break
                        head.append(b)
                    if any(escapes(b) for b in head) or st.orelse:
                        return False, f'the loop `for {norm(st.target)} in {norm(st.iter)[:40]}` can skip an item before its descent'
                    return True, ''
            if isinstance(st, ast.If):
                t = norm(st.test)
                a, _ = always(st.body, params)
                b, _ = always(st.orelse, params)
                if a and b:
                    return True, ''
                opt = [f'{q} is not None' for q in params]
                if a and not st.orelse and t in opt:
                    return True, ''        # nothing to visit when the optional child is absent
                if escapes(st):
                    return False, f'`if {t[:60]}` leaves before the children are visited'
                continue
            if escapes(st):
                return False, f'`{norm(st)[:60]}` leaves before the children are visited'
        return False, 'no path reaches an auto_claim_comments call of the children'

    n = 0
    for mod, cname in sites:
        c = p.cls(cname, mod)
        f = c.attrs.get('auto_claim_comments')
        if not isinstance(f, FuncInfo):
            raise AnalysisError(f'CLAIM-DESCEND: {cname}.auto_claim_comments vanished')
        body = stmts_no_doc(f.node.body)
        ok, why = always(body, f.params[1:])
        if ok and cname == 'RepeatedNodeWithInterleavingCommentsWrapper':
            tail = [norm(s) for s in body]
            ok = bool(tail) and tail[-1] == 'self.claim_interleaving_comments()' and not any(escapes(s) for s in body)
            why = 'claim_interleaving_comments() is not the unconditional last step'
        n += 1
        ctx.check(ok, rid, f'{mod}:{cname}.auto_claim_comments', 'descends on every path',
                  f'{why}: a child that is skipped never gets to claim the comment next to it (its leading / trailing candidate may lie '
                  f'outside the skipped node\'s own token range), the enclosing list then takes that comment as a standalone entry and the '
                  f'documented order -- leading of the model below, else trailing of the model above, else standalone -- is broken', f.where)
    if n < 6:
        raise AnalysisError('CLAIM-DESCEND: sites missing')


# ====================================================================== MEMO (C10 / C17 / C18)
_MEMO = ('functools.cache', 'functools.lru_cache', 'functools.cached_property', 'cache', 'lru_cache', 'cached_property')


def _memo_name(e: ast.AST) -> Optional[str]:
    if isinstance(e, ast.Call):
        # lru_cache(maxsize=..) as a decorator factory / cache(f) as a wrapper
        inner = _memo_name(e.func)
        return inner
    n = norm(e)
    return n if n in _MEMO else None


def rule_memo(ctx: RuleContext, p: Program, rid: str) -> None:
    ctx.rule(rid, 'memoisation (functools.cache / lru_cache / cached_property, as decorator or as wrapper call) anywhere in the package '
                  'outside the build-time generator: the memoised body may depend only on schema -- attributes of `self._field` (the field '
                  'descriptor handed to __init__ and never reassigned) -- or, for a module-level function, on its own arguments; anything '
                  'that reads the document (tokens, children, indentation, spacing) must be computed at use, because every such value '
                  'changes under edits')
    n = 0
    control = 0
    for m in p.modules.values():
        if '.modelgen' in m.name:
            continue
        parents: dict[int, ast.AST] = {}
        for node in ast.walk(m.tree):
            for ch in ast.iter_child_nodes(node):
                parents[id(ch)] = node
        for node in ast.walk(m.tree):
            body: Optional[ast.AST] = None
            how = ''
            owner_cls: Optional[ast.ClassDef] = None
            if isinstance(node, (ast.FunctionDef, ast.AsyncFunctionDef)):
                for d in node.decorator_list:
                    mn = _memo_name(d)
                    if mn:
                        body, how = node, f'@{mn} def {node.name}'
                par = parents.get(id(node))
                owner_cls = par if isinstance(par, ast.ClassDef) else None
            elif isinstance(node, ast.Call) and _memo_name(node.func) and node.args and not isinstance(parents.get(id(node)), ast.Call) \
                    and not any(node is d for fn in ast.walk(m.tree) if isinstance(fn, (ast.FunctionDef, ast.AsyncFunctionDef)) for d in fn.decorator_list):
                # cache(f) / lru_cache(..)(f); a bare lru_cache(maxsize=..) factory has no function argument
                if isinstance(node.func, ast.Call) or norm(node.func) in _MEMO and not node.keywords:
                    body, how = node.args[0], f'{norm(node.func)}({norm(node.args[0])[:50]})'
            if body is None:
                continue
            n += 1
            site = f'{_short(m)}:{how}'
            where = f'{m.relpath}:{node.lineno}'
            reads = sorted({norm(x) for x in ast.walk(body) if isinstance(x, ast.Attribute) and isinstance(x.value, ast.Name) and x.value.id == 'self'})
            ok = False
            why = ''
            if owner_cls is not None and isinstance(body, ast.FunctionDef):
                others = [r for r in reads if r != 'self._field']
                assigned_elsewhere = [norm(a) for fn in owner_cls.body if isinstance(fn, ast.FunctionDef) and fn.name != '__init__'
                                      for a in ast.walk(fn) if isinstance(a, (ast.Assign, ast.AugAssign))
                                      and any(norm(t) == 'self._field' for t in (a.targets if isinstance(a, ast.Assign) else [a.target]))]
                calls = [c for c in ast.walk(body) if isinstance(c, ast.Call)]
                ok = not others and not assigned_elsewhere and not calls and bool(reads)
                why = f'it reads {others or reads}' + (' and calls functions' if calls else '')
                if ok:
                    control += 1
            elif owner_cls is None and isinstance(body, ast.FunctionDef) and isinstance(parents.get(id(node)), ast.Module):
                params = {a.arg for a in [*body.args.posonlyargs, *body.args.args, *body.args.kwonlyargs]}
                free = {x.id for x in ast.walk(body) if isinstance(x, ast.Name) and isinstance(x.ctx, ast.Load)} - params
                mutable = [g for g in free if any(isinstance(st, ast.Assign) and any(isinstance(t, ast.Name) and t.id == g for t in st.targets)
                                                  and not isinstance(st.value, (ast.Constant, ast.Tuple, ast.Call)) for st in m.tree.body)]
                ok = not mutable and 'self' not in params
                why = f'it reads module state {mutable}'
            else:
                why = 'it wraps a closure / lambda / method object created per instance, whose captured state is the live document'
            ctx.check(ok, rid, site, 'depends on schema only',
                      f'{how} is memoised but {why}: the first answer is kept for the life of the object while the document changes under it '
                      f'(indentation, edge tokens, spacing, children all change under edits), so later reads and writes use stale data',
                      where, note=', '.join(reads)[:80])
    ctx.control(rid, 'the two confirmed schema-only memoised properties (RepeatedNodeWrapper._separators / _separators_before) are recognised',
                True, control >= 2)
    if control < 2:
        raise AnalysisError(f'MEMO: only {control} of the 2 confirmed schema-only memoised properties found')


# ====================================================================== MIXIN-BATCH (C19)
_BATCH = {
    'MutableSequence': {'extend': 'appends the values one by one'},
    'MutableMapping': {'update': 'assigns the pairs one by one'},
}
_DELEGATES = {'MutableSequence': {'__iadd__': 'extend'}}


def rule_mixin_batch(ctx: RuleContext, p: Program, rid: str) -> None:
    ctx.rule(rid, 'batch mutators that the public list / mapping views would inherit from collections.abc (MutableSequence.extend, '
                  'MutableMapping.update: loops over the single-element primitive; __iadd__ delegates to extend) -- a refusal at the k-th '
                  'element leaves the first k-1 applied, so each view class defines its own batch method (checked by ORD-REFUSE) instead of '
                  'inheriting the loop.  reverse() is not listed: each of its steps assigns an element that is still in the list, which '
                  '__setitem__(int) refuses before editing (ORD-REFUSE)')
    n = 0
    for m in p.modules.values():
        for c in m.classes:
            if c.name.startswith('_'):
                continue          # private helpers (_Universe) are not editing API
            abcs = set()
            for k in c.mro:
                for b in k.bases:
                    if isinstance(b, External):
                        for a in _BATCH:
                            if b.qualname.endswith(a):
                                abcs.add(a)
            for a in sorted(abcs):
                for meth, how in _BATCH[a].items():
                    owner = c.lookup_owner(meth)
                    n += 1
                    site = f'{_short(c.module)}:{c.name}.{meth}'
                    f = owner.attrs.get(meth) if owner else None
                    ctx.check(owner is not None, rid, site, f'own {meth}',
                              f'{c.name}.{meth} is the collections.abc.{a} mixin, which {how} through the view\'s single-element primitive: when '
                              f'a later element is refused (a node that still lives elsewhere: "Cannot reuse node") the earlier ones are '
                              f'already in the document, so the refused call has changed text and tree',
                              f.where if isinstance(f, FuncInfo) else f'{c.module.relpath}:{c.node.lineno}', note=f'defined in {owner.name}' if owner else '')
                for meth, target in _DELEGATES.get(a, {}).items():
                    owner = c.lookup_owner(meth)
                    if owner is not None:
                        continue      # an own __iadd__ is analysed by ORD-REFUSE like any other method
                    n += 1
                    ctx.check(c.lookup_owner(target) is not None, rid, f'{_short(c.module)}:{c.name}.{meth}', f'mixin {meth} -> own {target}',
                              f'{c.name}.{meth} is the mixin that calls self.{target}(), which is itself the mixin loop', f'{c.module.relpath}:{c.node.lineno}')
    if n < 12:
        raise AnalysisError(f'MIXIN-BATCH: only {n} (view class, batch method) pairs found')


# ====================================================================== SET-COVERS (C09 / C13)
def _expand(e: ast.AST, env: dict[str, ast.AST], depth: int = 0) -> str:
    """normalised access path of e with local single-assignment names replaced by their definitions"""
    if depth > 8:
        return norm(e)
    if isinstance(e, ast.Name) and e.id in env:
        return _expand(env[e.id], env, depth + 1)
    if isinstance(e, ast.Attribute):
        return f'{_expand(e.value, env, depth + 1)}.{e.attr}'
    if isinstance(e, ast.Subscript):
        return f'{_expand(e.value, env, depth + 1)}[{norm(e.slice)}]'
    return norm(e)


def _strip_field(name: str) -> str:
    return name.removeprefix('raw_').lstrip('_').removeprefix('raw_')


def rule_set_covers(ctx: RuleContext, p: Program, rid: str) -> None:
    ctx.rule(rid, 'hand-written `value` properties that read by delegation (`return self.<field>.value`): every write the setter performs '
                  'addresses what the getter reads as a whole -- it assigns `self.<field>` (replacing the tree) or `self.<field>.value` '
                  '(delegating) -- never a strict part of it (`self.<field>.<...>.value = v`), which leaves the rest of the tree contributing '
                  'to the value read back')
    n = 0
    for m in p.modules.values():
        if not m.name.startswith('autobean_refactor.models.') or '.generated' in m.name:
            continue
        for c in m.classes:
            prop = c.attrs.get('value')
            fget = getattr(prop, 'fget', None)
            fset = getattr(prop, 'fset', None)
            if fget is None or fset is None:
                # plain @property pairs are stored as FuncInfo with a setter companion
                try:
                    fget = p.method(c, 'value', inherited=False)
                    fset = p.method(c, 'value', setter=True, inherited=False)
                except AnalysisError:
                    continue
            rets = [r.value for r in walk_no_nested(fget.node) if isinstance(r, ast.Return) and r.value is not None]
            if len(rets) != 1:
                continue
            r = rets[0]
            if not (isinstance(r, ast.Attribute) and r.attr == 'value' and isinstance(r.value, ast.Attribute) and norm(r.value.value) == 'self'):
                continue
            field = _strip_field(r.value.attr)
            env: dict[str, ast.AST] = {}
            counts: dict[str, int] = {}
            for st in walk_no_nested(fset.node):
                if isinstance(st, ast.Assign) and len(st.targets) == 1 and isinstance(st.targets[0], ast.Name):
                    counts[st.targets[0].id] = counts.get(st.targets[0].id, 0) + 1
                    env[st.targets[0].id] = st.value
                elif isinstance(st, ast.NamedExpr):
                    counts[st.target.id] = counts.get(st.target.id, 0) + 1
                    env[st.target.id] = st.value
            env = {k: v for k, v in env.items() if counts.get(k) == 1}
            writes: list[tuple[str, ast.AST]] = []
            for st in walk_no_nested(fset.node):
                ts: list[ast.AST] = []
                if isinstance(st, ast.Assign):
                    ts = [t for t in st.targets if isinstance(t, (ast.Attribute, ast.Subscript))]
                elif isinstance(st, ast.AugAssign) and isinstance(st.target, (ast.Attribute, ast.Subscript)):
                    ts = [st.target]
                for t in ts:
                    writes.append((_expand(t, env), st))
            n += 1
            site = f'{_short(m)}:{c.name}.value'
            if not writes:
                raise AnalysisError(f'SET-COVERS: the setter of {site} writes nothing recognisable')
            bad = None
            for path, st in writes:
                parts = path.split('.')
                ok = parts[0] == 'self' and len(parts) >= 2 and _strip_field(parts[1]) == field and \
                    (len(parts) == 2 or (len(parts) == 3 and parts[2] == 'value'))
                if not ok:
                    bad = (path, st)
                    break
            ctx.check(bad is None, rid, site, f'writes cover self.{r.value.attr}.value',
                      f'the setter writes `{bad[0] if bad else ""}` (`{norm(bad[1])[:70] if bad else ""}`), a strict part of `self.{r.value.attr}` '
                      f'whose .value the getter returns: operators and operands around that part keep contributing, so after `x.value = v` '
                      f'reading x.value gives something else than v for expressions the shortcut does not fit', fset.where,
                      note=f'{len(writes)} writes')
    if n < 2:
        raise AnalysisError(f'SET-COVERS: only {n} delegating value properties found (NumberExpr, Tolerance confirmed)')


# ====================================================================== EQ-SHAPE (C20)
def _seq_kind(e: ast.AST, env: dict[str, str], cls_fields: set[str], depth: int = 0) -> str:
    """'tuple' | 'list' | '?' -- the container type an expression evaluates to"""
    if depth > 6:
        return '?'
    if isinstance(e, ast.Tuple):
        return 'tuple'
    if isinstance(e, (ast.List, ast.ListComp)):
        return 'list'
    if isinstance(e, ast.Call):
        f = norm(e.func)
        if f == 'tuple':
            return 'tuple'
        if f in ('list', 'sorted'):
            return 'list'
        if f in ('cast', 'typing.cast') and len(e.args) == 2:
            return _seq_kind(e.args[1], env, cls_fields, depth + 1)      # cast() converts nothing
        return '?'
    if isinstance(e, ast.Name):
        return env.get(e.id, '?')
    if isinstance(e, ast.Attribute) and (e.attr in cls_fields or '_' + e.attr in cls_fields):
        return 'tuple'                  # the invariant under proof (induction over writers): every writer of the field stores a tuple
    if isinstance(e, ast.Subscript) and isinstance(e.slice, ast.Slice):
        return _seq_kind(e.value, env, cls_fields, depth + 1)
    if isinstance(e, ast.BinOp) and isinstance(e.op, ast.Add):
        a, b = _seq_kind(e.left, env, cls_fields, depth + 1), _seq_kind(e.right, env, cls_fields, depth + 1)
        return a if a == b else '?'
    if isinstance(e, ast.IfExp):
        a, b = _seq_kind(e.body, env, cls_fields, depth + 1), _seq_kind(e.orelse, env, cls_fields, depth + 1)
        return a if a == b else '?'
    return '?'


def _kind_env(fn: ast.AST) -> dict[str, str]:
    env: dict[str, str] = {}
    a = fn.args  # type: ignore[attr-defined]
    for x in [*a.posonlyargs, *a.args, *a.kwonlyargs]:
        if x.annotation is not None:
            an = norm(x.annotation)
            if an.startswith(('tuple[', 'Tuple[')):
                env[x.arg] = 'tuple'
            elif an.startswith(('list[', 'List[')):
                env[x.arg] = 'list'
    if a.vararg is not None:
        env[a.vararg.arg] = 'tuple'
    counts: dict[str, int] = {}
    for st in walk_no_nested(fn):
        if isinstance(st, ast.Assign) and len(st.targets) == 1 and isinstance(st.targets[0], ast.Name):
            counts[st.targets[0].id] = counts.get(st.targets[0].id, 0) + 1
    for st in walk_no_nested(fn):
        if isinstance(st, ast.Assign) and len(st.targets) == 1 and isinstance(st.targets[0], ast.Name) and counts[st.targets[0].id] == 1 \
                and st.targets[0].id not in env:
            env[st.targets[0].id] = _seq_kind(st.value, env, set())
    return env


def rule_eq_shape(ctx: RuleContext, p: Program, rid: str) -> None:
    ctx.rule(rid, 'sequence-valued fields that a hand-written _eq compares with == (self._f == other._f) always hold the same container '
                  'type: every writer -- each constructor call site in the package (Cls(..), cls(..), type(self)(..)) for the parameter the '
                  'field is initialised from, and each assignment to the field -- stores a tuple (tuple display, tuple(..), a tuple-annotated '
                  'or *args name, a slice or concatenation of those, cast() of those); a list there makes the model unequal to its own '
                  'deep copy and to a fresh parse of its text, because [x] != (x,)')
    n_sites = 0
    n_cls = 0
    for m in p.modules.values():
        if not m.name.startswith('autobean_refactor.models') or '.generated' in m.name:
            continue
        for c in m.classes:
            eq = c.attrs.get('_eq')
            init = c.attrs.get('__init__')
            if not isinstance(eq, FuncInfo) or not isinstance(init, FuncInfo):
                continue
            compared = set()
            for x in ast.walk(eq.node):
                if isinstance(x, ast.Compare) and len(x.ops) == 1 and isinstance(x.ops[0], ast.Eq):
                    l, r = x.left, x.comparators[0]
                    if isinstance(l, ast.Attribute) and isinstance(r, ast.Attribute) and l.attr == r.attr and norm(l.value) == 'self':
                        compared.add(l.attr)
            # fields initialised from a tuple-annotated parameter
            ann = {a.arg: norm(a.annotation) for a in init.node.args.args if a.annotation is not None}
            field_param: dict[str, str] = {}
            for st in walk_no_nested(init.node):
                if isinstance(st, ast.Assign) and len(st.targets) == 1 and isinstance(st.targets[0], ast.Attribute) \
                        and norm(st.targets[0].value) == 'self' and st.targets[0].attr in compared and isinstance(st.value, ast.Name) \
                        and ann.get(st.value.id, '').startswith(('tuple[', 'Tuple[')):
                    field_param[st.targets[0].attr] = st.value.id
            if not field_param:
                continue
            n_cls += 1
            params = [a.arg for a in init.node.args.args][1:]
            fields = set(field_param)
            problems: list[tuple[str, str]] = []
            # call sites
            for m2 in p.modules.values():
                if m2.name.endswith('_test') or not m2.name.startswith('autobean_refactor'):
                    continue
                for fn in p.functions_in(m2):
                    env = None
                    for call in walk_no_nested(fn.node):
                        if not isinstance(call, ast.Call):
                            continue
                        f = norm(call.func)
                        same_cls = fn.cls is not None and c in fn.cls.mro
                        if not (f == c.name or f.endswith('.' + c.name) or (same_cls and f in ('cls', 'type(self)', 'self.__class__'))):
                            continue
                        if env is None:
                            env = _kind_env(fn.node)
                        bound = dict(zip(params, call.args))
                        bound.update({k.arg: k.value for k in call.keywords if k.arg})
                        for fld, prm in field_param.items():
                            if prm not in bound:
                                continue
                            n_sites += 1
                            k = _seq_kind(bound[prm], env, fields)
                            if k == 'list':
                                problems.append((f'{_short(m2)}:{fn.qualname}', f'`{norm(call)[:80]}` passes a list for `{prm}` (stored in {fld})'))
                            elif k == '?':
                                raise AnalysisError(f'EQ-SHAPE: cannot tell the container type of `{norm(bound[prm])[:60]}` in {fn.qualname}')
            # other writers of the field
            for fn in c.methods():
                if fn is init:
                    continue
                env = None
                for st in walk_no_nested(fn.node):
                    if isinstance(st, ast.Assign):
                        for t in st.targets:
                            if isinstance(t, ast.Attribute) and norm(t.value) == 'self' and t.attr in fields:
                                if env is None:
                                    env = _kind_env(fn.node)
                                n_sites += 1
                                k = _seq_kind(st.value, env, fields)
                                if k == 'list':
                                    problems.append((f'{_short(m)}:{fn.qualname}', f'`{norm(st)[:80]}` stores a list in {t.attr}'))
                                elif k == '?':
                                    raise AnalysisError(f'EQ-SHAPE: cannot tell the container type of `{norm(st.value)[:60]}` in {fn.qualname}')
            site = f'{_short(m)}:{c.name}._eq'
            if problems:
                for where_fn, msg in problems[:3]:
                    ctx.fail(rid, site, where_fn, f'{msg}: {c.name}._eq compares the field with ==, every other producer (parser, clone, '
                                                  f'_reattach) stores a tuple, and a list never equals a tuple -- the model stops being equal to its '
                                                  f'deep copy and to the parse of its own text', eq.where)
            else:
                ctx.ok(rid, site, f'{sorted(fields)}: every writer stores a tuple')
    if n_cls < 2 or n_sites < 12:
        raise AnalysisError(f'EQ-SHAPE: only {n_cls} classes / {n_sites} writer sites found (NumberAddExpr, NumberMulExpr confirmed)')


# ====================================================================== REPLACE-STORE (C05 / C11)
def rule_replace_store(ctx: RuleContext, p: Program, rid: str) -> None:
    ctx.rule(rid, 'every property setter that swaps a node in the token store with replace_node(old, new) then records the NEW node in the '
                  'model: the next `<field>.__set__(instance, X)` in the same block has X == new (all four sibling setters -- required, '
                  'optional, repeated, repeated with interleaving comments -- agree); a field left pointing at the removed node makes the '
                  'tree disagree with the store (its tokens are in no store: spans cannot be walked, deep copies fail)')
    n = 0
    for m in p.modules.values():
        if not m.name.startswith('autobean_refactor.models.internal'):
            continue
        for fn in p.functions_in(m):
            found: list[tuple[ast.Call, list[ast.stmt]]] = []

            def scan(stmts: list[ast.stmt], after: list[ast.stmt]) -> None:
                for i, st in enumerate(stmts):
                    rest = stmts[i + 1:] + after
                    if isinstance(st, ast.Expr) and isinstance(st.value, ast.Call) and norm(st.value.func).split('.')[-1] == 'replace_node' \
                            and len(st.value.args) == 2:
                        found.append((st.value, rest))
                    if isinstance(st, (ast.FunctionDef, ast.AsyncFunctionDef, ast.ClassDef)):
                        continue
                    for attr in ('body', 'orelse', 'finalbody'):
                        sub = getattr(st, attr, None)
                        if isinstance(sub, list) and sub and isinstance(sub[0], ast.stmt):
                            scan(sub, [] if isinstance(st, (ast.For, ast.While, ast.AsyncFor)) else rest)
                    for h in getattr(st, 'handlers', []) or []:
                        scan(h.body, rest)
            scan(fn.node.body, [])
            for call, rest in found:
                old, new = norm(call.args[0]), norm(call.args[1])
                store = None
                for nx in rest:
                    for c in ast.walk(nx):
                        if isinstance(c, ast.Call) and isinstance(c.func, ast.Attribute) and c.func.attr == '__set__' and len(c.args) == 2:
                            store = c
                            break
                    if store is not None:
                        break
                n += 1
                site = f'{_short(m)}:{fn.qualname}'
                if store is None:
                    ctx.fail(rid, site, f'replace_node({old}, {new})', f'after replace_node({old}, {new}) the field is never updated: it keeps '
                             f'pointing at the removed node', fn.where)
                    continue
                got = norm(store.args[1])
                ctx.check(got == new, rid, site, f'replace_node({old}, {new}) then store',
                          f'after replace_node({old}, {new}) the field is set to `{got}`, not to the node that was spliced in (`{new}`): the model '
                          f'keeps a node whose tokens are no longer in the store -- printing looks right (the cached wrapper is the new one) but '
                          f'walking or deep-copying the model fails', f'{m.relpath}:{store.lineno}', note=f'__set__(.., {got})')
    if n < 4:
        raise AnalysisError(f'REPLACE-STORE: only {n} replace_node call sites found (4 confirmed)')


# ====================================================================== CLAIM-FOUND (C14, added in round 5)
def rule_claim_found(ctx: RuleContext, p: Program, rid: str) -> None:
    ctx.rule(rid, 'the scans of _CommentClaimer agree on what "found" means: wherever a scan yields a comment it selected through '
                  '`id(x) in self._comments_to_claim`, it first takes that id out of the set (the set is what claim() reports as "not found" '
                  'afterwards); a scan that yields without discarding makes claim(<explicit list>) refuse comments it did reach, so '
                  'w.claim_interleaving_comments(w.unclaim_interleaving_comments()) cannot restore the attribution')
    cl = p.cls('_CommentClaimer', 'models.internal.interleaving_comments')
    claim = p.method(cl, 'claim', inherited=False)
    if not any(isinstance(x, ast.Raise) for x in ast.walk(claim.node)) or '_comments_to_claim' not in norm(claim.node):
        raise AnalysisError('CLAIM-FOUND: claim() no longer reports the comments left in _comments_to_claim')
    n = 0
    for fn in cl.methods():
        ys = [y for y in walk_no_nested(fn.node) if isinstance(y, ast.Expr) and isinstance(y.value, ast.Yield) and isinstance(y.value.value, ast.Name)]
        if not ys:
            continue
        # the blocks that hold the yields
        parents: dict[int, tuple[ast.AST, list[ast.stmt]]] = {}
        for node in ast.walk(fn.node):
            for attr in ('body', 'orelse', 'finalbody'):
                blk = getattr(node, attr, None)
                if isinstance(blk, list):
                    for st in blk:
                        parents[id(st)] = (node, blk)
        for y in ys:
            name = y.value.value.id  # type: ignore[union-attr]
            # is this yield selected through the set?  (an enclosing `if id(name) in ..._comments_to_claim`, or an earlier
            # `if id(name) not in ...: continue` in an enclosing block)
            selected = False
            node: ast.AST = y
            chain_blocks: list[tuple[list[ast.stmt], ast.AST]] = []
            while id(node) in parents:
                par, blk = parents[id(node)]
                chain_blocks.append((blk, node))
                if isinstance(par, ast.If) and f'id({name}) in self._comments_to_claim' in norm(par.test) and node in par.body:
                    selected = True
                node = par
            for blk, upto in chain_blocks:
                for st in blk:
                    if st is upto:
                        break
                    if isinstance(st, ast.If) and f'id({name}) not in self._comments_to_claim' in norm(st.test) \
                            and st.body and isinstance(st.body[-1], (ast.Continue, ast.Return, ast.Break)):
                        selected = True
            if not selected:
                continue
            n += 1
            discarded = False
            for blk, upto in chain_blocks:
                for st in blk:
                    if st is upto:
                        break
                    if any(isinstance(c, ast.Call) and norm(c.func) in ('self._comments_to_claim.discard', 'self._comments_to_claim.remove')
                           and c.args and norm(c.args[0]) == f'id({name})' for c in ast.walk(st)):
                        discarded = True
            ctx.check(discarded, rid, f'models.internal.interleaving_comments:{fn.qualname}', f'yield {name}',
                      f'{fn.qualname} yields `{name}`, which it selected through self._comments_to_claim, without discarding id({name}) from that set: '
                      f'claim() then reports the comment as "not found" although this scan reached it -- an explicit claim of a comment that lies '
                      f'outside the items (a footer after the last entry) is refused', fn.where, note=f'discard(id({name})) before the yield')
    if n < 2:
        raise AnalysisError(f'CLAIM-FOUND: only {n} selected yields found (_find_inner, _find_outer confirmed)')


# ====================================================================== DEC-EXACT (C09 / C12 / C13, added in round 5)
_ROUNDING_CALLS = {'abs', 'round', 'float'}
_ROUNDING_METHODS = {'normalize', 'quantize', 'to_integral', 'to_integral_value', 'to_integral_exact', 'create_decimal', 'plus', 'minus', 'sqrt',
                     'fma', 'remainder_near', 'scaleb', 'next_plus', 'next_minus'}
_EXACT_METHODS = {'copy_abs', 'copy_negate', 'copy_sign', 'replace'}


def _rounding_in(e: ast.AST, env: dict[str, ast.AST], depth: int = 0) -> Optional[str]:
    """the first operation in e (locals expanded) that rounds a Decimal to the context precision, if any"""
    if depth > 6:
        return None
    if isinstance(e, ast.Name) and e.id in env:
        return _rounding_in(env[e.id], env, depth + 1)
    if isinstance(e, ast.UnaryOp) and isinstance(e.op, (ast.USub, ast.UAdd)) and not isinstance(e.operand, ast.Constant):
        return f'unary {"-" if isinstance(e.op, ast.USub) else "+"} (`{norm(e)[:40]}`)'
    if isinstance(e, ast.BinOp) and isinstance(e.op, (ast.Add, ast.Sub, ast.Mult, ast.Div, ast.Mod, ast.Pow, ast.FloorDiv)):
        return f'arithmetic (`{norm(e)[:40]}`)'
    if isinstance(e, ast.Call):
        f = norm(e.func)
        if f in _ROUNDING_CALLS:
            return f'{f}() (`{norm(e)[:40]}`)'
        if isinstance(e.func, ast.Attribute):
            if e.func.attr in _ROUNDING_METHODS:
                return f'.{e.func.attr}() (`{norm(e)[:50]}`)'
            if e.func.attr in _EXACT_METHODS:
                return _rounding_in(e.func.value, env, depth + 1)
        if f in ('decimal.Decimal', 'Decimal', 'str', 'cast', 'typing.cast'):
            for a in e.args:
                r = _rounding_in(a, env, depth + 1)
                if r:
                    return r
        return None
    if isinstance(e, ast.IfExp):
        return _rounding_in(e.body, env, depth + 1) or _rounding_in(e.orelse, env, depth + 1)
    return None


def rule_dec_exact(ctx: RuleContext, p: Program, rid: str) -> None:
    ctx.rule(rid, 'a decimal travels exactly between caller, token and text: the value handed to Number.from_value / Number(...) / a '
                  '`.value =` assignment of a number token in the number models, and the value Number._parse_value returns for a lexeme, are '
                  'built from the given value / text only by exact operations (identity, copy_abs, copy_negate, Decimal(<text>)); abs(), '
                  'unary minus / plus, arithmetic, normalize, quantize, round and Context.create_decimal round to the precision of the decimal '
                  'context (28 digits by default), so a longer number would be stored or read back changed')
    n = 0
    # reader
    num = p.cls('Number', 'models.number')
    pv = p.method(num, '_parse_value', inherited=False)
    rets = [r.value for r in walk_no_nested(pv.node) if isinstance(r, ast.Return) and r.value is not None]
    env = {a.targets[0].id: a.value for a in walk_no_nested(pv.node) if isinstance(a, ast.Assign) and len(a.targets) == 1 and isinstance(a.targets[0], ast.Name)}
    for r in rets:
        n += 1
        bad = _rounding_in(r, env)
        exact_ctor = any(isinstance(c, ast.Call) and norm(c.func) in ('decimal.Decimal', 'Decimal') for c in ast.walk(r)) or \
            any(isinstance(c, ast.Call) and norm(c.func) in ('decimal.Decimal', 'Decimal') for v in env.values() for c in ast.walk(v))
        ctx.check(bad is None and exact_ctor, rid, 'models.number:Number._parse_value', 'exact construction from the lexeme',
                  f'Number._parse_value builds the value with {bad or "something other than decimal.Decimal(<text>)"}: a literal with more digits than the '
                  f'context precision gets a rounded value, and every expression value computed from it is wrong', pv.where, note=norm(r)[:60])
    # writers: every place of the number models that builds a Number token from a value
    for mname in ('models.number_expr', 'models.number', 'models.tolerance', 'models.amount'):
        try:
            m = p.module(mname)
        except AnalysisError:
            continue
        for fn in p.functions_in(m):
            env = {}
            counts: dict[str, int] = {}
            for a in walk_no_nested(fn.node):
                if isinstance(a, ast.Assign) and len(a.targets) == 1 and isinstance(a.targets[0], ast.Name):
                    counts[a.targets[0].id] = counts.get(a.targets[0].id, 0) + 1
                    env[a.targets[0].id] = a.value
            env = {k: v for k, v in env.items() if counts[k] == 1}
            for c in walk_no_nested(fn.node):
                arg = None
                if isinstance(c, ast.Call) and norm(c.func).split('.')[-2:] == ['Number', 'from_value'] and c.args:
                    arg = c.args[0]
                elif isinstance(c, ast.Call) and norm(c.func) in ('decimal.Decimal', 'Decimal') and c.args and fn.name == 'from_value':
                    arg = None
                if arg is None:
                    continue
                n += 1
                bad = _rounding_in(arg, env)
                ctx.check(bad is None, rid, f'{_short(m)}:{fn.qualname}', f'Number.from_value({norm(arg)[:40]})',
                          f'the number token is built from {bad}, which rounds to the precision of the decimal context: from_value(v).value != v for '
                          f'a v with more than 28 significant digits (use copy_abs / copy_negate)', f'{m.relpath}:{c.lineno}', note=norm(arg)[:50])
    # sign readers: a sign in front of a number is not an arithmetic operation on it -- what `posting.number = Decimal('-1.0...01')` wrote must
    # read back digit for digit, as the same number without the sign does
    for mname in ('models.number_unary_expr', 'models.number_paren_expr'):
        try:
            m = p.module(mname)
        except AnalysisError:
            continue
        for fn in p.functions_in(m):
            if fn.prop != 'value' or fn.kind != 'getter':
                continue
            for r in [x for x in walk_no_nested(fn.node) if isinstance(x, ast.Return) and x.value is not None]:
                n += 1
                v = r.value
                bad = None
                if isinstance(v, ast.UnaryOp) and isinstance(v.op, (ast.USub, ast.UAdd)):
                    bad = f'unary {"-" if isinstance(v.op, ast.USub) else "+"} on a Decimal'
                elif isinstance(v, ast.Call) and norm(v.func) == 'abs':
                    bad = 'abs() of a Decimal'
                elif isinstance(v, ast.BinOp) and isinstance(v.op, (ast.Sub, ast.Mult)) and any(isinstance(x, ast.Constant) for x in (v.left, v.right)):
                    bad = f'arithmetic with a constant (`{norm(v)[:40]}`)'
                ctx.check(bad is None, rid, f'{_short(m)}:{fn.qualname}', norm(v)[:60],
                          f'the value of a signed number is computed with {bad}, which rounds to the precision of the decimal context: a number written '
                          f'as -1.000000000000000000000000000001 (posting.number = Decimal(...) writes every digit) reads back rounded, although the same '
                          f'number without the sign reads back exactly (use copy_negate())', f'{m.relpath}:{r.lineno}', note=norm(v)[:60])
    if n < 4:
        raise AnalysisError(f'DEC-EXACT: only {n} sites found (Number._parse_value, _add_expr_from_value and the unary value getter confirmed)')


# ====================================================================== ID-CMP (C05 / C10 / C14 / C19 / C20, added in round 5)
_PLAIN_ATTRS = {'type', 'RULE', 'raw_text', 'key', 'index', 'stop', 'start', 'step', 'value', 'line', 'column', 'name', 'indent', 'indent_by',
                'filename', 'claimed', 'INLINE', 'DEFAULT', 'size', 'tokens', 'items', 'raw_indent_by', 'lineno', 'text'}
_PLAIN_CALLS = {'len', 'str', 'int', 'id', 'type', 'repr', 'bool', 'hash', 'abs', 'min', 'max', 'sum', 'tuple', 'list', 'sorted', 'set', 'frozenset',
                'ord', 'chr', 'float', 'round', 'isinstance', 'getattr'}
_EQ_IMPLS = {'__eq__', '_eq', '__ne__', 'remove', 'discard', 'index', 'count', '__contains__'}


def _plain_shaped(e: ast.AST, plain_names: set[str], depth: int = 0) -> bool:
    """can e be shown, from its shape alone, not to be a model object?"""
    if depth > 6:
        return False
    if isinstance(e, (ast.Constant, ast.JoinedStr, ast.Tuple, ast.List, ast.Dict, ast.Set, ast.Compare, ast.BoolOp, ast.ListComp, ast.DictComp,
                      ast.SetComp, ast.GeneratorExp)):
        return True
    if isinstance(e, ast.Name):
        return e.id in plain_names or e.id.isupper()
    if isinstance(e, ast.Attribute):
        if e.attr in _PLAIN_ATTRS or e.attr.isupper() or e.attr.lstrip('_').isupper():
            return True
        return False
    if isinstance(e, ast.Subscript):
        return _plain_shaped(e.value, plain_names, depth + 1) and not (isinstance(e.value, ast.Attribute) and e.value.attr in ('tokens', 'items'))
    if isinstance(e, ast.Call):
        f = norm(e.func)
        if f in _PLAIN_CALLS or f.split('.')[-1] in ('get', 'getvalue', 'read', 'find', 'rfind', 'count', 'strip', 'rstrip', 'lstrip', 'lower', 'upper',
                                                     'join', 'format', 'group', 'normpath', 'dirname', 'basename', 'abspath', 'total_seconds'):
            return True
        if f.split('.')[0] in ('zlib', 'hashlib', 'binascii', 'math', 'os', 'sys', 'time', 'struct', 'unicodedata') and '.' in f:
            return True          # a function of a standard module that deals in numbers, bytes and texts: what it returns is not a model
        return False
    if isinstance(e, (ast.BinOp, ast.UnaryOp)):
        return True
    if isinstance(e, ast.IfExp):
        return _plain_shaped(e.body, plain_names, depth + 1) and _plain_shaped(e.orelse, plain_names, depth + 1)
    return False


def rule_id_cmp(ctx: RuleContext, p: Program, rid: str) -> None:
    ctx.rule(rid, 'models compare by content (type, text, structure), so `==` / `!=` between two things that may be model objects never '
                  'decides whether they are THE SAME object: outside the equality implementations themselves (__eq__, _eq) and the '
                  'by-value list-protocol methods of the views (remove, discard, index, count, __contains__), every equality comparison '
                  'of the package has an operand that is plainly not a model (a literal, a text / key / index / type attribute, a length, '
                  'an annotated str / int / bool / enum name); "is the replacement the node itself", "have I reached the end token", "is '
                  'this the assigned node" are identity questions, and answering them with == conflates equal-looking siblings')
    plain_ann = {'str', 'int', 'bool', 'float', 'bytes', 'decimal.Decimal', 'Decimal', 'datetime.date', 'date', 'Optional[str]', 'Optional[int]',
                 'Optional[bool]', 'Optional[decimal.Decimal]', 'Optional[datetime.date]', 'Type[_U]', 'Type[_T]'}
    n = 0
    n_allowed = 0
    for m in p.modules.values():
        if '.generated' in m.name or '.modelgen' in m.name or not m.name.startswith('autobean_refactor'):
            continue
        for fn in p.functions_in(m):
            if fn.parent is not None:
                continue          # nested functions are covered through their parents (whole subtree walked)
            plain_names: set[str] = set()
            for sub in ast.walk(fn.node):
                if isinstance(sub, (ast.FunctionDef, ast.AsyncFunctionDef, ast.Lambda)):
                    a = sub.args
                    for x in [*a.posonlyargs, *a.args, *a.kwonlyargs]:
                        an = norm(x.annotation) if getattr(x, 'annotation', None) is not None else ''
                        if an in plain_ann or an.startswith(('Literal[', 'int |', 'str |')) and 'Model' not in an:
                            plain_names.add(x.arg)
                        if an.replace(' ', '') in ('tuple[int,int]', 'Tuple[int,int]', 'tuple[int,...]'):
                            plain_names.add(x.arg)          # its elements are plain too (see the unpacking case below)
            changed = True
            while changed:
                changed = False
                for a in ast.walk(fn.node):
                    tgt = None
                    if isinstance(a, ast.Assign) and len(a.targets) == 1 and isinstance(a.targets[0], ast.Name):
                        tgt, val = a.targets[0].id, a.value
                    elif isinstance(a, ast.AnnAssign) and isinstance(a.target, ast.Name) and a.value is not None:
                        tgt, val = a.target.id, a.value
                    elif isinstance(a, (ast.For, ast.comprehension)) and isinstance(a.iter, ast.Call) and norm(a.iter.func) in ('range', 'enumerate'):
                        t = a.target
                        nm = t.id if isinstance(t, ast.Name) else (t.elts[0].id if isinstance(t, ast.Tuple) and isinstance(t.elts[0], ast.Name) else None)
                        if nm and nm not in plain_names:
                            plain_names.add(nm)
                            changed = True
                        continue
                    if isinstance(a, ast.Assign) and len(a.targets) == 1 and isinstance(a.targets[0], ast.Tuple) and isinstance(a.value, ast.Name) \
                            and a.value.id in plain_names:
                        for t in a.targets[0].elts:
                            if isinstance(t, ast.Name) and t.id not in plain_names:
                                plain_names.add(t.id)
                                changed = True
                        continue
                    if tgt and tgt not in plain_names and _plain_shaped(val, plain_names):
                        # every binding of the name must be plain
                        binds = [b for b in ast.walk(fn.node) if isinstance(b, ast.Assign) and any(isinstance(t, ast.Name) and t.id == tgt for t in b.targets)]
                        if all(_plain_shaped(b.value, plain_names) for b in binds):
                            plain_names.add(tgt)
                            changed = True
            for c in ast.walk(fn.node):
                if not (isinstance(c, ast.Compare) and any(isinstance(o, (ast.Eq, ast.NotEq)) for o in c.ops)):
                    continue
                operands = [c.left, *c.comparators]
                pairs = [(operands[i], operands[i + 1]) for i, o in enumerate(c.ops) if isinstance(o, (ast.Eq, ast.NotEq))]
                for l, r in pairs:
                    if _plain_shaped(l, plain_names) or _plain_shaped(r, plain_names):
                        continue
                    n += 1
                    site = f'{_short(m)}:{fn.qualname}'
                    if fn.name in _EQ_IMPLS:
                        n_allowed += 1
                        ctx.ok(rid, site, f'`{norm(c)[:60]}`: by-value comparison is this method\'s contract', nontrivial=False)
                        continue
                    ctx.fail(rid, site, f'{norm(c)[:80]}',
                             f'`{norm(c)[:80]}` compares two values that may both be model objects with ==: models are equal whenever type, text and '
                             f'structure agree, so an equal-looking but distinct node (a sibling with the same text, a deep copy, a freshly built '
                             f'value) is taken for the node itself -- a replacement is skipped, a scan stops early, a refusal is bypassed; use `is`',
                             f'{m.relpath}:{c.lineno}')
    if n_allowed < 4:
        raise AnalysisError(f'ID-CMP: only {n_allowed} by-value comparisons found in the equality implementations (>= 4 confirmed)')


# ====================================================================== META-SEM (C09, added in round 5)
def rule_meta_sem(ctx: RuleContext, p: Program, rid: str) -> None:
    """finite-domain evaluation of the meta value property (get / set / update_value / from_value) over every (current raw kind, value kind)"""
    import datetime
    import decimal
    from . import possem
    from .tokenstore import TS
    ctx.rule(rid, 'optional_meta_value_property, interpreted with update_value and from_value over every pair (kind of the current raw value '
                  '-- absent or any member of MetaRawValue -- , kind of the assigned value -- None, str, date, Decimal, bool, or a model of any '
                  'preserved kind): after __set__(v), __get__ returns v (type-exactly: a str comes back as a str, not as the Account / '
                  'Currency / Tag token it was written into), an in-place update happens only where the getter converts that raw kind to '
                  'that plain type, and nothing is written otherwise')
    m = p.module('models.meta_value_internal')
    mv = p.module('models.meta_value')
    prop = p.cls('optional_meta_value_property', 'models.meta_value_internal')
    getter, setter = prop.attrs.get('__get__'), prop.attrs.get('__set__')
    if not isinstance(getter, FuncInfo) or not isinstance(setter, FuncInfo):
        raise AnalysisError('META-SEM: optional_meta_value_property.__get__/__set__ vanished')
    raw_union = next((st.value for st in mv.tree.body if isinstance(st, ast.Assign) and norm(st.targets[0]) == 'MetaRawValue'), None)
    if raw_union is None:
        raise AnalysisError('META-SEM: MetaRawValue vanished')
    raw_kinds: list[str] = []

    def flat(e: ast.AST) -> None:
        if isinstance(e, ast.BinOp) and isinstance(e.op, ast.BitOr):
            flat(e.left)
            flat(e.right)
        elif isinstance(e, ast.Subscript) and norm(e.value).endswith('Union'):
            for x in (e.slice.elts if isinstance(e.slice, ast.Tuple) else [e.slice]):
                flat(x)
        else:
            raw_kinds.append(norm(e).rsplit('.', 1)[-1])
    flat(raw_union)
    if len(raw_kinds) < 6:
        raise AnalysisError(f'META-SEM: MetaRawValue has only {raw_kinds}')
    def cls_of(name: str) -> ClassInfo:
        for mod in (mv, m):
            sy = p.resolve_expr(mod, ast.Name(id=name, ctx=ast.Load()))
            if isinstance(sy, ClassInfo):
                return sy
        return p.cls(name)

    # what each raw kind's .value holds (declared by RWValue[...] / SingleValueRawTokenModel[...] in its bases)
    value_type: dict[str, str] = {}
    for k in raw_kinds:
        c = cls_of(k)
        for b in [bb for kk in c.mro for bb in kk.node.bases]:
            if isinstance(b, ast.Subscript) and norm(b.value).rsplit('.', 1)[-1] in ('RWValue', 'SingleValueRawTokenModel', 'SimpleSingleValueRawTokenModel'):
                value_type.setdefault(k, norm(b.slice).rsplit('.', 1)[-1])
    ts = TS(p)
    class _Text(str):
        pass

    class _Amount(decimal.Decimal):
        pass
    # instances of subclasses are values of the plain types too (a str-mixin enum member, a tagged str, a datetime, a Decimal subclass)
    plain_values = {'str': 'text', 'date': datetime.date(2020, 1, 2), 'Decimal': decimal.Decimal(5), 'bool': True,
                    'str (an instance of a subclass)': _Text('tagged'), 'date (a datetime.datetime)': datetime.datetime(2020, 1, 2, 3, 4),
                    'Decimal (an instance of a subclass)': _Amount(7)}

    class Interp(possem.PosInterp):
        tag = 'META-SEM'

        def instance_of(self, v: Any, cls_expr: Any, env: dict) -> bool:          # type: ignore[override]
            name = norm(cls_expr).rsplit('.', 1)[-1]
            if isinstance(v, possem.Obj):
                try:
                    return cls_of(v.cls).is_subclass_of(cls_of(name))
                except AnalysisError:
                    return False
            py = {'str': str, 'date': datetime.date, 'Decimal': decimal.Decimal, 'bool': bool, 'int': int}
            if name in py:
                return isinstance(v, py[name]) and not (name == 'int' and isinstance(v, bool))
            return False

        def expr(self, e: Any, env: dict) -> Any:                 # type: ignore[override]
            if isinstance(e, ast.Call):
                fname = norm(e.func)
                if isinstance(e.func, ast.Attribute) and e.func.attr in ('__get__', '__set__'):
                    b = self.expr(e.func.value, env)
                    if isinstance(b, possem.Obj) and b.cls == 'InnerProp':
                        args = [self.expr(a, env) for a in e.args]
                        if e.func.attr == '__get__':
                            return b.f['slot']
                        b.f['slot'] = args[1]
                        b.f['sets'] = b.f.get('sets', 0) + 1
                        return None
                if isinstance(e.func, ast.Attribute) and e.func.attr == 'from_value':
                    kind = e.func.value.id if isinstance(e.func.value, ast.Name) and e.func.value.id in raw_kinds and e.func.value.id not in env else None
                    if kind is None:
                        cv = self.expr(e.func.value, env)
                        if isinstance(cv, possem.ClassRef) and cv.name in raw_kinds:
                            kind = cv.name
                    if kind is not None:
                        args = [self.expr(a, env) for a in e.args]
                        return possem.Obj(kind, {'value': args[0], 'fresh': True}, f'fresh {kind}')
                if fname == 'isinstance' and len(e.args) == 2:
                    v = self.expr(e.args[0], env)
                    alts: list = []

                    def fl(x: ast.AST) -> None:
                        if isinstance(x, ast.BinOp) and isinstance(x.op, ast.BitOr):
                            fl(x.left)
                            fl(x.right)
                        elif isinstance(x, ast.Tuple):
                            for y in x.elts:
                                fl(y)
                        elif isinstance(x, ast.Name) and x.id not in env and (const_ := next(
                                (st.value for st in m.tree.body if isinstance(st, (ast.Assign, ast.AnnAssign)) and st.value is not None
                                 and norm(st.targets[0] if isinstance(st, ast.Assign) else st.target) == x.id
                                 and isinstance(st.value, (ast.Tuple, ast.BinOp))), None)) is not None:
                            fl(const_)          # a module-level tuple / union of classes
                        else:
                            alts.append(x)
                    fl(e.args[1])

                    def one(a: ast.AST) -> bool:
                        if isinstance(a, (ast.Name, ast.Attribute)) and not (isinstance(a, ast.Name) and a.id in env):
                            return self.instance_of(v, a, env)
                        t = self.expr(a, env)               # a computed class: type(x), or a class taken from a table
                        if isinstance(t, possem.Builtin):
                            t = ('type', t.name)
                        if isinstance(t, possem.ClassRef):
                            t = ('type', t.name)
                        if isinstance(t, tuple) and t[:1] == ('type',):
                            if isinstance(v, possem.Obj):
                                try:
                                    return cls_of(v.cls).is_subclass_of(cls_of(t[1]))
                                except AnalysisError:
                                    return v.cls == t[1]
                            py = {'str': str, 'date': datetime.date, 'Decimal': decimal.Decimal, 'bool': bool, 'int': int}
                            return t[1] in py and isinstance(v, py[t[1]])
                        raise self.err(a, 'isinstance against a computed class')
                    return any(one(a) for a in alts)
                if fname == 'type' and len(e.args) == 1:
                    v = self.expr(e.args[0], env)
                    return ('type', v.cls) if isinstance(v, possem.Obj) else ('type', type(v).__name__)
            if isinstance(e, ast.Name) and e.id not in env:
                fn_ = next((f for f in p.functions_in(m) if f.qualname == e.id), None)
                if fn_ is not None:
                    return fn_
                if e.id in raw_kinds:
                    return possem.ClassRef(e.id)
                tbl = next((st.value for st in m.tree.body if isinstance(st, (ast.Assign, ast.AnnAssign)) and st.value is not None
                            and norm(st.targets[0] if isinstance(st, ast.Assign) else st.target) == e.id and isinstance(st.value, ast.Dict)), None)
                if tbl is not None:
                    # a module-level table keyed by classes: keys are compared as python compares classes (by identity, so type(v) of an
                    # instance of a subclass finds nothing)
                    out_: dict = {}
                    for k_, v_ in zip(tbl.keys, tbl.values):
                        kk = self.expr(k_, env)
                        if isinstance(kk, possem.Builtin):
                            kk = ('type', kk.name)
                        elif isinstance(kk, possem.ClassRef):
                            kk = ('type', kk.name)
                        out_[kk] = self.expr(v_, env)
                    return out_
            if isinstance(e, ast.Attribute) and norm(e) in ('datetime.date', 'decimal.Decimal', 'datetime.datetime'):
                return ('type', e.attr)
            if isinstance(e, ast.Attribute) and e.attr == 'from_value' and isinstance(e.value, ast.Name) and e.value.id in raw_kinds and e.value.id not in env:
                return possem._PyFn(lambda v_, k_=e.value.id: possem.Obj(k_, {'value': v_, 'fresh': True}, f'fresh {k_}'))
            return super().expr(e, env)

        def compare(self, op: Any, a: Any, b: Any, node: Any) -> bool:          # type: ignore[override]
            if isinstance(op, (ast.Is, ast.IsNot)) and isinstance(a, tuple) and isinstance(b, tuple) and a[:1] == ('type',) and b[:1] == ('type',):
                return (a == b) == isinstance(op, ast.Is)
            return super().compare(op, a, b, node)

    n = 0
    problems: list[str] = []
    for cur_kind in [None] + raw_kinds:
        assigned: list[tuple[str, Any]] = [('None', None)] + list(plain_values.items())
        for mk in raw_kinds:
            if value_type.get(mk) in ('str', 'date', 'Decimal', 'bool') and mk in ('EscapedString', 'Date', 'NumberExpr', 'Bool'):
                continue          # a model of a converted kind reads back as its plain value (documented); not part of this rule
            assigned.append((mk, None))
        for vkind, v in assigned:
            cur = None
            if cur_kind is not None:
                old = {'str': 'old', 'date': datetime.date(1999, 1, 1), 'Decimal': decimal.Decimal(1), 'bool': False}.get(value_type.get(cur_kind, ''), 'old')
                cur = possem.Obj(cur_kind, {'value': old, 'fresh': False}, f'current {cur_kind}')
            if v is None and vkind != 'None':
                v = possem.Obj(vkind, {'value': 'w', 'fresh': False}, f'assigned {vkind}')
            inner = possem.Obj('InnerProp', {'slot': cur}, 'inner')
            me = possem.Obj('optional_meta_value_property', {'inner_property': inner}, 'prop')
            owner = possem.Obj('Owner', {}, 'instance')
            n += 1
            where_ = f'current value {cur_kind or "absent"}, assigned {vkind}'
            try:
                Interp(ts, [], module=m).call_function(setter, [me, owner, v], {})
                got = Interp(ts, [], module=m).call_function(getter, [me, owner, None], {})
            except possem.Raised as ex:
                problems.append(f'{where_}: raises {ex}')
                continue
            same = got is v if isinstance(v, possem.Obj) or v is None else (type(got) is type(v) and got == v)
            if inner.f['slot'] is not None and not isinstance(inner.f['slot'], possem.Obj):
                problems.append(f'{where_}: the plain value {v!r} is stored as if it were a raw model (from_value did not wrap it: the dispatch does not '
                                f'recognise an instance of a subclass), so the assignment fails when the slot is filled')
                continue
            if not same:
                shown = f'{got.cls} token holding {got.f.get("value")!r}' if isinstance(got, possem.Obj) else repr(got)
                problems.append(f'{where_}: reads back {shown}' + (' -- the plain value was written into a token of a kind that reads back as the token '
                                                                    'itself, and whose text it may not even fit' if isinstance(got, possem.Obj) and not isinstance(v, possem.Obj) else ''))
    if n < 60:
        raise AnalysisError(f'META-SEM: only {n} (current, assigned) pairs evaluated')
    ctx.check(not problems, rid, 'models.meta_value_internal:optional_meta_value_property', 'set then get, type-exact',
              (problems[0] if problems else '') + (f' (and {len(problems) - 1} more pairs)' if len(problems) > 1 else ''), setter.where,
              note=f'{n} (current kind, assigned kind) pairs')


# ====================================================================== LATE-BIND (C15, added in round 5)
def _late_bind_findings(tree: ast.AST) -> list[tuple[ast.AST, ast.AST, set[str], bool, bool]]:
    """(inner lazy expression, outer comprehension, captured loop variables, outer materialised?, inner consumed in place?)"""
    parents: dict[int, ast.AST] = {}
    for node in ast.walk(tree):
        for ch in ast.iter_child_nodes(node):
            parents[id(ch)] = node
    out = []
    for outer in ast.walk(tree):
        if not isinstance(outer, (ast.ListComp, ast.SetComp, ast.GeneratorExp, ast.DictComp)):
            continue
        bound = {x.id for g in outer.generators for x in ast.walk(g.target) if isinstance(x, ast.Name)}
        elts = [outer.key, outer.value] if isinstance(outer, ast.DictComp) else [outer.elt]
        for elt in elts:
            for inner in ast.walk(elt):
                if isinstance(inner, ast.GeneratorExp):
                    reads = {x.id for part in [inner.elt, *[i for g in inner.generators for i in g.ifs], *[g.iter for g in inner.generators[1:]]]
                             for x in ast.walk(part) if isinstance(x, ast.Name)}
                elif isinstance(inner, ast.Lambda):
                    own = {a.arg for a in [*inner.args.posonlyargs, *inner.args.args, *inner.args.kwonlyargs]}
                    reads = {x.id for x in ast.walk(inner.body) if isinstance(x, ast.Name)} - own
                else:
                    continue
                captured = reads & bound
                if not captured:
                    continue
                par = parents.get(id(outer))
                materialised = isinstance(outer, (ast.ListComp, ast.SetComp, ast.DictComp)) or isinstance(par, ast.Starred) or (
                    isinstance(par, ast.Call) and norm(par.func) in ('list', 'tuple', 'sorted', 'set', 'frozenset', 'dict') and outer in par.args)
                ipar = parents.get(id(inner))
                consumed = isinstance(ipar, ast.Call) and inner in ipar.args and (
                    norm(ipar.func) in ('list', 'tuple', 'sorted', 'set', 'frozenset', 'sum', 'any', 'all', 'max', 'min', 'dict', 'next')
                    or (isinstance(ipar.func, ast.Attribute) and ipar.func.attr == 'join'))
                out.append((inner, outer, captured, materialised, consumed))
    return out


_LATE_BIND_CONTROL = """
def bad(tags, links):
    return chain(*((kind.make(v) for v in vs) for kind, vs in ((A, tags), (B, links))))
def good(tags, links):
    return chain(*([kind.make(v) for v in vs] for kind, vs in ((A, tags), (B, links))))
def fine(rows):
    return [sum(x * k for x in row) for k, row in rows]
"""


def rule_late_bind(ctx: RuleContext, p: Program, rid: str) -> None:
    ctx.rule(rid, 'no lazily evaluated expression (an inner generator expression or a lambda) built inside a comprehension reads that '
                  'comprehension\'s loop variable after the comprehension has moved on: an inner generator / lambda that mentions the outer '
                  'variable outside its own first iterable is a closure over the variable, not over its value, so when the outer '
                  'comprehension is materialised first (a list / set comprehension, a generator that is star-unpacked or handed to list / '
                  'tuple / sorted) every inner one sees the LAST value -- e.g. every tag is built with the class meant for links')
    ctl = _late_bind_findings(ast.parse(_LATE_BIND_CONTROL))
    flagged = [(norm(i)[:30], mat and not con) for i, _, _, mat, con in ctl]
    ctx.control(rid, 'the embedded example (a star-unpacked generator of generators reading the outer variable) is flagged, its list-building twin '
                     'and an inner generator consumed by sum() are not', True,
                sum(1 for _, bad in flagged if bad) == 1 and len(flagged) == 2)
    n = 0
    for m in p.modules.values():
        if not m.name.startswith('autobean_refactor') or '.modelgen' in m.name:
            continue
        for inner, outer, captured, materialised, consumed in _late_bind_findings(m.tree):
            n += 1
            ctx.check(not (materialised and not consumed), rid, f'{_short(m)}:line {inner.lineno}', f'{type(inner).__name__} reads {sorted(captured)}',
                      f'`{norm(inner)[:70]}` is evaluated lazily but reads {sorted(captured)}, the loop variable(s) of the enclosing '
                      f'`{norm(outer)[:60]}...`, which is materialised before the inner expression runs: every instance sees the last value of '
                      f'{sorted(captured)} (bind it as a default argument, or build a list inside the element)', f'{m.relpath}:{inner.lineno}',
                      note=f'outer {"materialised" if materialised else "lazy"}, inner {"consumed in place" if consumed else "left lazy"}')
    ctx.stats['late_bind_candidates'] = n


# ====================================================================== CLAIM-SEM (C14 / C01, added in round 5)
def rule_claim_sem(ctx: RuleContext, p: Program, rid: str, max_len: int = 3) -> None:
    """finite-domain evaluation of _claim_comment over every neighbourhood of up to 4 abstract tokens on the side it looks at"""
    import itertools
    from . import possem
    from .tokenstore import TS
    ctx.rule(rid, f'_claim_comment (with _take_ignored), interpreted against a mock store over every neighbourhood of up to {max_len} tokens next to the '
                  'model\'s edge (placeholder, line break, block comment claimed / unclaimed and indented like or unlike the edge token, other), in '
                  'both directions and with both values of ignore_if_already_claimed: it returns -- and flags as claimed -- exactly the '
                  'unclaimed comment that follows [placeholders, one line break, placeholders]; whatever else it finds it claims nothing; an '
                  'already claimed comment there is skipped or refused according to the flag; the tokens it splices are a permutation in which '
                  'only placeholders move; no property of the comment or of the edge token other than these decides')
    m = p.module('models.internal.surrounding_comments')
    fn = next((f for f in p.functions_in(m) if f.qualname == '_claim_comment'), None)
    if fn is None:
        raise AnalysisError('CLAIM-SEM: _claim_comment vanished')
    ts = TS(p)
    class_of = {'Placeholder': p.cls('Placeholder', 'models.internal.placeholder'), 'Newline': p.cls('Newline'), 'BlockComment': p.cls('BlockComment', 'models.block_comment'),
                'Account': p.cls('Account'), 'Indent': p.cls('Indent')}

    class Interp(possem.PosInterp):
        tag = 'CLAIM-SEM'

        def __init__(self, doc: list) -> None:
            super().__init__(ts, [], module=m)
            self.doc = doc
            self.splices = 0

        def idx(self, t: Any) -> int:
            for i, x in enumerate(self.doc):
                if x is t:
                    return i
            raise possem.Raised('ValueError: token is not in the store')

        def store_call(self, name: str, args: list, node: Any) -> Any:
            d = self.doc
            if name in ('get_prev', 'get_next'):
                i = self.idx(args[0])
                j = i - 1 if name == 'get_prev' else i + 1
                return d[j] if 0 <= j < len(d) else None
            if name == 'splice':
                self.splices += 1
                new = list(args[0])
                i = 0 if args[1] is None else self.idx(args[1])
                j = i if len(args) < 3 or args[2] is None else self.idx(args[2]) + 1
                if j < i:
                    raise possem.Raised('splice over a reversed range')
                d[i:j] = new
                return None
            raise self.err(node, f'store method {name}')

        def instance_of(self, v: Any, cls_expr: Any, env: dict) -> bool:          # type: ignore[override]
            if not isinstance(v, possem.Obj) or v.cls not in class_of:
                return False
            target = p.resolve_expr(m, cls_expr)
            if not isinstance(target, ClassInfo):
                raise self.err(cls_expr, 'isinstance against an unknown class')
            return class_of[v.cls].is_subclass_of(target)

        def method(self, cls: str, name: str) -> Any:            # type: ignore[override]
            # methods and properties of the token classes themselves (a helper the claim code calls on a token is interpreted, not guessed)
            if cls in class_of:
                f_ = class_of[cls].lookup(name)
                if isinstance(f_, FuncInfo):
                    return f_
                if type(f_).__name__ == 'CustomProp' and getattr(f_, 'fget', None) is not None:
                    return f_.fget
            return super().method(cls, name)

        def expr(self, e: Any, env: dict) -> Any:                 # type: ignore[override]
            if isinstance(e, ast.Attribute):
                b = e.value
                bv = self.expr(b, env) if not (isinstance(b, ast.Name) and b.id not in env) else None
                if isinstance(bv, possem.Obj) and bv.cls == 'Store':
                    name = e.attr
                    return lambda *a: self.store_call(name, list(a), e)
            if isinstance(e, ast.Name) and e.id not in env:
                f_ = next((f for f in p.functions_in(m) if f.qualname == e.id), None)
                if f_ is not None:
                    return f_
            if isinstance(e, ast.Call):
                if isinstance(e.func, ast.Name) and e.func.id == 'isinstance' and e.func.id not in env and len(e.args) == 2:
                    v = self.expr(e.args[0], env)
                    alts: list = []

                    def fl(x: ast.AST) -> None:
                        if isinstance(x, ast.BinOp) and isinstance(x.op, ast.BitOr):
                            fl(x.left)
                            fl(x.right)
                        elif isinstance(x, ast.Tuple):
                            for y in x.elts:
                                fl(y)
                        else:
                            alts.append(x)
                    fl(e.args[1])
                    return any(self.instance_of(v, a_, env) for a_ in alts)
                if isinstance(e.func, ast.Attribute) and e.func.attr in ('startswith', 'endswith') and len(e.args) == 1:
                    s_ = self.expr(e.func.value, env)
                    a_ = self.expr(e.args[0], env)
                    if isinstance(s_, str) and isinstance(a_, str):
                        return getattr(s_, e.func.attr)(a_)
                f = self.expr(e.func, env) if not (isinstance(e.func, ast.Name) and e.func.id not in env) else None
                if callable(f) and not isinstance(f, (FuncInfo, possem.Builtin, possem.Bound, possem.ClassRef, possem._Lambda)):
                    return f(*[self.expr(a, env) for a in e.args])
            return super().expr(e, env)

        def stmt(self, st: Any, env: dict) -> None:           # type: ignore[override]
            if isinstance(st, ast.Raise):
                raise possem.Raised(norm(st.exc)[:60] if st.exc is not None else 'raise')
            super().stmt(st, env)

    def mk(ch: str, i: int, edge_indented: bool = True) -> Any:
        if ch == 'P':
            return possem.Obj('Placeholder', {'raw_text': '', 'RULE': 'PLACEHOLDER'}, f'{i}:placeholder')
        if ch in 'NM':
            return possem.Obj('Newline', {'raw_text': '\n' if ch == 'N' else '\r\n', 'RULE': 'NEWLINE'}, f'{i}:newline' + ('' if ch == 'N' else ' (CR LF)'))
        if ch in 'cCdD':
            return possem.Obj('BlockComment', {'raw_text': '; x', 'RULE': 'BLOCK_COMMENT', 'claimed': ch in 'CD',
                                               'indent': ('    ' if ch in 'cC' else '  ') if edge_indented else ('' if ch in 'cC' else '  '),
                                               'value': 'x'}, f'{i}:{"claimed " if ch in "CD" else ""}comment{" (indented less than the edge)" if ch in "dD" else ""}')
        return possem.Obj('Account', {'raw_text': 'x', 'RULE': 'ACCOUNT'}, f'{i}:other')

    n = 0
    problem = ''
    problem_class = ''
    alphabet = 'PNMcCdO'          # M: a line break written CR LF -- one line break like any other
    for k in range(0, max_len + 1):
        for seq in itertools.product(alphabet, repeat=k):
            for backwards in (False, True):
                for ignore in (False, True):
                    for edge_kind in ('Indent', 'Account'):
                        if problem:
                            break
                        side = [mk(ch, i, edge_kind == 'Indent') for i, ch in enumerate(seq)]
                        start = possem.Obj(edge_kind, {'raw_text': '    ' if edge_kind == 'Indent' else 'x', 'RULE': 'INDENT' if edge_kind == 'Indent' else 'ACCOUNT'}, 'edge')
                        doc = (list(reversed(side)) + [start]) if backwards else ([start] + side)
                        before = list(doc)
                        it = Interp(doc)
                        store = possem.Obj('Store', {}, 'store')
                        n += 1
                        # reference: placeholders* newline placeholders* comment
                        j = 0
                        while j < len(seq) and seq[j] == 'P':
                            j += 1
                        want: Any = None
                        refuse = False
                        other_class = False
                        if j < len(seq) and seq[j] in 'NM':
                            j += 1
                            while j < len(seq) and seq[j] == 'P':
                                j += 1
                            if j < len(seq) and seq[j] in 'cCdD':
                                if edge_kind == 'Account' and seq[j] in 'dD':
                                    other_class = True          # an indented comment next to a model that is not indented: judged separately
                                elif seq[j] in 'cd':
                                    want = side[j]
                                elif not ignore:
                                    refuse = True
                        shown = ' '.join({'P': 'placeholder', 'N': 'newline', 'M': 'newline(CR LF)', 'c': 'comment', 'C': 'claimed-comment', 'd': 'comment(less indented)', 'O': 'other'}[c] for c in seq) or '(nothing)'
                        where_ = f'{"before" if backwards else "after"} a{"n indent" if edge_kind == "Indent" else " plain"} edge token, neighbours [{shown}], ignore_if_already_claimed={ignore}'
                        try:
                            extra_kw: dict = {}
                            a_ = fn.node.args
                            for q_ in [*a_.args[3:], *a_.kwonlyargs]:
                                if q_.arg in ('backwards', 'ignore_if_already_claimed'):
                                    continue
                                ann_ = norm(q_.annotation) if q_.annotation is not None else ''
                                # a further argument the call sites supply: a stand-in of its annotated kind
                                if 'RawTokenModel' in ann_ and any(k in ann_ for k in ('tuple', 'Sequence', 'list', 'Iterable')):
                                    extra_kw[q_.arg] = (possem.Obj('Newline', {'raw_text': '\n', 'claimed': False}, 'sep:new separator token'),)
                                elif ann_.startswith('Optional['):
                                    extra_kw[q_.arg] = None
                                elif ann_ == 'bool':
                                    extra_kw[q_.arg] = False
                                elif ann_ == 'str':
                                    extra_kw[q_.arg] = '\n'
                            got = it.call_function(fn, [None, store, start], {'backwards': backwards, 'ignore_if_already_claimed': ignore, **extra_kw})
                            raised = False
                        except possem.Raised:
                            got, raised = None, True
                        if other_class:
                            if (got is not None or raised) and not problem_class:
                                problem_class = (f'{where_}: the comment is indented, the model is not, yet the comment is '
                                                 f'{"claimed" if got is not None else "looked at (the call raises)"} -- the documented order attributes a comment to '
                                                 f'the model directly below / above only within the same indentation class')
                            continue
                        if raised != refuse:
                            problem = f'{where_}: {"raises" if raised else "does not raise"}'
                        elif got is not want:
                            problem = f'{where_}: returns {getattr(got, "label", got)!r}, the adjacent unclaimed comment is {getattr(want, "label", want)!r}'
                        elif want is not None and not want.f['claimed']:
                            problem = f'{where_}: the returned comment is not flagged as claimed'
                        elif sorted(id(x) for x in doc) != sorted(id(x) for x in before) or \
                                [id(x) for x in doc if x.cls != 'Placeholder'] != [id(x) for x in before if x.cls != 'Placeholder']:
                            problem = f'{where_}: the store afterwards is not the same tokens with only placeholders moved'
                        elif want is None and (it.splices or any(x.f.get('claimed') != (x.label.split(":")[1].startswith("claimed")) for x in side if x.cls == 'BlockComment')):
                            problem = f'{where_}: nothing is claimed, yet the store or a claimed flag changed'
    if n < 1500 and not problem:
        raise AnalysisError(f'CLAIM-SEM: only {n} neighbourhoods evaluated')
    ctx.check(not problem_class, rid, 'models.internal.surrounding_comments:_claim_comment', 'indentation class',
              f'{problem_class} (docs/special/comments.md: "immediately before a model with the same indentation"); e.g. at file level '
              f'`open ..` / blank line / `  ; note` / `close ..`: the indented note becomes the leading comment of the unindented close', fn.where,
              note='an indented comment is not attributed to a model that is not indented')
    ctx.check(not problem, rid, 'models.internal.surrounding_comments:_claim_comment', 'claims exactly the adjacent unclaimed comment',
              f'{problem}: the attribution order (leading comment of the model below, else trailing comment of the model above, else standalone) rests on '
              f'this function claiming the adjacent comment whenever there is one; a model parsed on its own also needs the claim to include the '
              f'comment in its span', fn.where, note=f'{n} neighbourhoods')


# ====================================================================== FIND-SEM (C14, added after twins round 3)
def rule_find_sem(ctx: RuleContext, p: Program, rid: str, max_len: int = 4) -> None:
    """finite-domain evaluation of _CommentClaimer._find_outer"""
    import itertools
    from . import possem
    from .tokenstore import TS
    ctx.rule(rid, f'_CommentClaimer._find_outer, interpreted over every run of up to {max_len} abstract tokens beyond the edge of the repeated field '
                  f'(blank, zero-width mark, unclaimed comment selected / not selected for claiming, claimed comment, other token), with the model '
                  f'limit at every position: it yields exactly the selected unclaimed comments it meets while it only steps over blanks, zero-width '
                  f'tokens and unselected unclaimed comments, and stops at the first claimed comment, at the first other token, and once it has '
                  f'stepped past the model limit; every yielded comment leaves the not-found set')
    cl = p.cls('_CommentClaimer', 'models.internal.interleaving_comments')
    fo = p.method(cl, '_find_outer', inherited=False)
    m = p.module('models.internal.interleaving_comments')
    ts = TS(p)
    class_of = {'Newline': p.cls('Newline'), 'Whitespace': p.cls('Whitespace'), 'BlockComment': p.cls('BlockComment', 'models.block_comment'),
                'Account': p.cls('Account'), 'Eol': p.cls('Eol')}

    class Interp(possem.PosInterp):
        tag = 'FIND-SEM'

        def instance_of(self, v: Any, cls_expr: Any, env: dict) -> bool:          # type: ignore[override]
            if not isinstance(v, possem.Obj) or v.cls not in class_of:
                return False
            target = p.resolve_expr(m, cls_expr)
            if not isinstance(target, ClassInfo):
                raise self.err(cls_expr, 'isinstance against an unknown class')
            return class_of[v.cls].is_subclass_of(target)

        def expr(self, e: Any, env: dict) -> Any:                 # type: ignore[override]
            if isinstance(e, ast.Call) and isinstance(e.func, ast.Name) and e.func.id == 'isinstance' and e.func.id not in env and len(e.args) == 2:
                v = self.expr(e.args[0], env)
                alts: list = []

                def fl(x: ast.AST) -> None:
                    if isinstance(x, ast.BinOp) and isinstance(x.op, ast.BitOr):
                        fl(x.left)
                        fl(x.right)
                    elif isinstance(x, ast.Tuple):
                        for y in x.elts:
                            fl(y)
                    else:
                        alts.append(x)
                fl(e.args[1])
                return any(self.instance_of(v, a_, env) for a_ in alts)
            if isinstance(e, ast.Call):
                f = self.expr(e.func, env) if not (isinstance(e.func, ast.Name) and e.func.id not in env) else None
                if callable(f) and not isinstance(f, (FuncInfo, possem.Builtin, possem.Bound, possem.ClassRef, possem._Lambda)):
                    return f(*[self.expr(a, env) for a in e.args])
            return super().expr(e, env)

    kinds = {'b': ('Whitespace', ' '), 'n': ('Newline', '\r\n'), 'z': ('Eol', ''), 'c': ('BlockComment', '; x'), 'u': ('BlockComment', '; y'), 'C': ('BlockComment', '; z'), 'o': ('Account', 'x')}
    n = 0
    problem = ''
    for k in range(0, max_len + 1):
        for seq in itertools.product('bnzcuCo', repeat=k):
            for limit_at in range(-1, k):       # -1: the start token itself is the limit; otherwise the token at that position
                start = possem.Obj('Eol', {'raw_text': ''}, 'start')
                toks = [possem.Obj(kinds[ch][0], {'raw_text': kinds[ch][1], 'claimed': ch == 'C'}, f'{i}:{ch}') for i, ch in enumerate(seq)]
                chain = [start] + toks
                nxt = {id(t): (chain[i + 1] if i + 1 < len(chain) else None) for i, t in enumerate(chain)}
                selected = [id(t) for t, ch in zip(toks, seq) if ch == 'c']
                me = possem.Obj('_CommentClaimer', {'_comments_to_claim': list(selected)}, 'claimer')
                limit = start if limit_at < 0 else toks[limit_at]
                n += 1
                # reference
                want: list = []
                prev = start
                for t, ch in zip(toks, seq):
                    if prev is limit:
                        break
                    if ch in 'bnz':
                        pass
                    elif ch in 'cu':
                        if ch == 'c':
                            want.append(t)
                    else:
                        break
                    prev = t
                it = Interp(ts, [], module=m)
                try:
                    got = it.call_function(fo, [me, start, (lambda t: nxt[id(t)])], {'limit': limit})
                except possem.Raised as ex:
                    problem = problem or f'tokens {"".join(seq) or "-"}: raises {ex}'
                    continue
                if [id(x) for x in (got or [])] != [id(x) for x in want] and not problem:
                    legend = 'b blank, n CRLF line break, z zero-width, c unclaimed comment to claim, u unclaimed comment not asked for, C claimed comment, o other'
                    problem = (f'tokens {"".join(seq) or "-"} beyond the edge ({legend}), model limit {"at the edge" if limit_at < 0 else "at token " + str(limit_at)}: '
                               f'yields {[x.label for x in (got or [])]}, expected {[x.label for x in want]}')
                elif not problem and any(id(x) in me.f['_comments_to_claim'] for x in want):
                    problem = f'tokens {"".join(seq)}: a yielded comment stays in the not-found set'
    if n < 1000 and not problem:
        raise AnalysisError(f'FIND-SEM: only {n} runs evaluated')
    ctx.check(not problem, rid, 'models.internal.interleaving_comments:_CommentClaimer._find_outer', 'outward scan', problem, fo.where, note=f'{n} runs')
    # ---- the inward scan (round 10): between the field's first token and its last item
    fi = cl.lookup('_find_inner')
    if not isinstance(fi, FuncInfo):
        raise AnalysisError('FIND-SEM: _CommentClaimer._find_inner not found')
    n_in = 0
    problem_in = ''
    gap_kinds = 'bzcuC'
    runs = [''] + [a for a in gap_kinds] + [a + b for a in gap_kinds for b in gap_kinds]
    for n_items, universe in [(k_, u_) for k_ in range(0, 3) for u_ in (False, True)]:
        # universe: claim whatever is found (the parser's call: every comment is asked for, so only the claimed flag tells an owned comment apart)
        for gaps in itertools.product(runs if n_items < 2 else [r for r in runs if len(r) < 2 or r in ('cc', 'cC', 'Cc', 'uc', 'cb', 'bc')], repeat=n_items):
            ph = possem.Obj('Eol', {'raw_text': ''}, 'placeholder')
            chain = [ph]
            items = []
            want = []
            selected = []
            for i, run in enumerate(gaps):
                for j, ch in enumerate(run):
                    t = possem.Obj(kinds[ch][0], {'raw_text': kinds[ch][1], 'claimed': ch == 'C'}, f'gap{i}.{j}:{ch}')
                    chain.append(t)
                    if ch == 'c' or (universe and ch in 'uC'):
                        selected.append(id(t))
                    if ch == 'c' or (universe and ch == 'u'):
                        want.append(t)
                a, b = possem.Obj('Account', {'raw_text': 'x'}, f'item{i}.first'), possem.Obj('Account', {'raw_text': 'y'}, f'item{i}.last')
                chain += [a, b]
                it_ = possem.Obj('Item', {'first_token': a, 'last_token': b}, f'item{i}')
                items.append(it_)
                want.append(it_)
            tail = possem.Obj('BlockComment', {'raw_text': '; after', 'claimed': False}, 'comment behind the last item')
            chain.append(tail)
            selected.append(id(tail))
            nxt = {id(t): (chain[i + 1] if i + 1 < len(chain) else None) for i, t in enumerate(chain)}
            store = possem.Obj('Store', {'get_next': (lambda t, nxt=nxt: nxt[id(t)])}, 'store')
            rep = possem.Obj('Repeated', {'token_store': store, 'items': list(items), 'first_token': ph, 'placeholder': ph}, 'repeated')
            me = possem.Obj('_CommentClaimer', {'_comments_to_claim': list(selected), '_repeated': rep}, 'claimer')
            n_in += 1
            try:
                got = Interp(ts, [], module=m).call_function(fi, [me], {})
                got = list(got or [])
            except possem.Raised as ex:
                problem_in = problem_in or f'{n_items} item(s), gaps {gaps}: raises {ex}'
                continue
            if [id(x) for x in got] != [id(x) for x in want] and not problem_in:
                legend = 'b blank, z zero-width, c unclaimed comment to claim, u unclaimed comment not asked for, C claimed comment'
                problem_in = (f'{n_items} item(s) with the tokens {list(gaps)} in front of them ({legend}){", every comment asked for" if universe else ""}: yields {[x.label for x in got]}, expected '
                              f'{[x.label for x in want]} -- every selected unclaimed comment in front of an item, then the item, in document order')
            elif not problem_in and any(id(x) in me.f['_comments_to_claim'] for x in want if x.cls == 'BlockComment'):
                problem_in = f'{n_items} item(s), gaps {gaps}: a yielded comment stays in the not-found set'
            elif not problem_in and id(tail) not in me.f['_comments_to_claim']:
                problem_in = f'{n_items} item(s), gaps {gaps}: the comment behind the last item is taken by the inward scan (it belongs to the outward one)'
    if n_in < 150 and not problem_in:
        raise AnalysisError(f'FIND-SEM: only {n_in} inward runs evaluated')
    ctx.check(not problem_in, rid, 'models.internal.interleaving_comments:_CommentClaimer._find_inner', 'inward scan', problem_in, fi.where, note=f'{n_in} runs')


# ====================================================================== DESC-STATE (C10 / C11 / C18, added in round 7)
def rule_desc_state(ctx: RuleContext, p: Program, rid: str) -> None:
    ctx.rule(rid, 'a descriptor (a class with __get__ that is instantiated as a class attribute of the models) is ONE object per model class, shared '
                  'by every model of that class -- originals and their deep copies, every posting of a ledger.  None of its methods other than '
                  '__init__ / __set_name__ assigns an attribute of the descriptor itself (and no nested function or lambda it defines does): what '
                  'belongs to one model is kept on the model (or in a closure created per model), or the most recently used model leaks into the '
                  'others')
    n = 0
    for m in p.modules.values():
        if m.name.endswith('_test') or 'modelgen' in m.name:
            continue
        for c in m.classes:
            if not any('__get__' in k.attrs for k in c.mro if k.module.name.startswith('autobean_refactor')):
                continue
            # what runs per model: the protocol methods, everything they reach through `self.<method>(...)`, and the functions / lambdas
            # nested in any method (closures handed out, e.g. from __init__, and called per model later)
            reach = {'__get__', '__set__', '__delete__'}
            grew = True
            while grew:
                grew = False
                for nm in [*reach, '__init__']:          # a bound method that __init__ hands on as a callback is called per model later
                    f0 = c.lookup(nm)
                    if not isinstance(f0, FuncInfo) or not f0.params:
                        continue
                    for x in ast.walk(f0.node):
                        if isinstance(x, ast.Attribute) and isinstance(x.value, ast.Name) and x.value.id == f0.params[0] and x.attr not in reach \
                                and isinstance(c.lookup(x.attr), FuncInfo):
                            reach.add(x.attr)
                            grew = True
            for fn in [f for f in c.attrs.values() if isinstance(f, FuncInfo)]:
                if fn.name == '__set_name__' or fn.kind in ('staticmethod', 'classmethod') or not fn.params:
                    continue
                n += 1
                me = fn.params[0]
                bad = []
                if fn.name in reach and fn.name != '__init__':
                    scope: list[ast.AST] = [fn.node]
                else:
                    # definition-time methods (__init__, decorator-style registration): only the closures they create run per model
                    scope = [x for x in ast.walk(fn.node) if isinstance(x, (ast.Lambda, ast.FunctionDef)) and x is not fn.node]
                for a in [y for sc in scope for y in ast.walk(sc)]:
                    tgts = a.targets if isinstance(a, ast.Assign) else [a.target] if isinstance(a, (ast.AugAssign, ast.AnnAssign)) else []
                    for t in tgts:
                        for x in ast.walk(t):
                            if isinstance(x, ast.Attribute) and isinstance(x.value, ast.Name) and x.value.id == me and isinstance(x.ctx, ast.Store):
                                bad.append(norm(a)[:80])
                    if isinstance(a, ast.Call) and norm(a.func) == 'setattr' and a.args and norm(a.args[0]) == me:
                        bad.append(norm(a)[:80])
                ctx.check(not bad, rid, f'{_short(m)}:{fn.qualname}', 'no write to the shared descriptor',
                          f'{fn.qualname} writes the descriptor object itself (`{bad[0] if bad else ""}`): the descriptor is shared by every instance of the '
                          f'model class, so what one model stored there is read back for another (a deep copy and its original, two postings)',
                          fn.where, note='descriptor attributes are written by __init__ only', nontrivial=False)
    if n < 40:
        raise AnalysisError(f'DESC-STATE: only {n} descriptor methods found')


# ====================================================================== ITER-ONCE (C03 / C05 / C10 / C14, added in round 7)
_CONSUMERS = {'list', 'tuple', 'set', 'frozenset', 'sorted', 'sum', 'any', 'all', 'max', 'min', 'enumerate', 'zip', 'map', 'filter', 'dict', 'iter',
              'next', 'reversed', 'itertools.chain', 'len', 'collections.deque', 'deque', 'itertools.islice', 'itertools.groupby'}


def rule_iter_once(ctx: RuleContext, p: Program, rid: str) -> None:
    from ..walker import Walker
    ctx.rule(rid, 'a parameter declared Iterable / Iterator may be a one-shot iterator (a generator expression, map(), filter(), iter()): on no '
                  'path through the function is it used again after a use that can consume it (a for loop, a comprehension, list() / set() / '
                  'sorted() / any() / ..., `in`, *-unpacking, extend / update, or being handed to another function), unless it was first '
                  'rebound to a materialised copy (`xs = list(xs)`).  The second use sees an empty sequence: tokens are inserted but the item '
                  'list stays empty, a pre-check passes and the real loop does nothing')
    n = 0
    for m in p.modules.values():
        if m.name.endswith('_test') or 'modelgen' in m.name or 'meta_models' in m.name:
            continue
        for fn in p.functions_in(m):
            if fn.kind == 'overload':
                continue
            a = fn.node.args
            lazy = {x.arg for x in [*a.posonlyargs, *a.args, *a.kwonlyargs] if x.annotation is not None
                    and any(k in norm(x.annotation) for k in ('Iterable', 'Iterator')) and 'Callable' not in norm(x.annotation)}
            if not lazy:
                continue
            n += 1
            parents: dict[int, ast.AST] = {}
            for nd in ast.walk(fn.node):
                for ch in ast.iter_child_nodes(nd):
                    parents[id(ch)] = nd

            def use_kind(nm: ast.Name) -> str:
                par = parents.get(id(nm))
                if isinstance(par, ast.Compare) and all(isinstance(o, (ast.Is, ast.IsNot)) for o in par.ops):
                    return 'identity'
                if isinstance(par, ast.Call) and norm(par.func) == 'isinstance' and par.args and par.args[0] is nm:
                    return 'identity'
                if isinstance(par, ast.Attribute) and par.attr not in ('__iter__', '__next__'):
                    return 'identity'      # a method / attribute of the object itself: not an iteration
                return 'consume'       # iteration, membership, unpacking, or escape to other code: all may exhaust a one-shot iterator

            bad: list[str] = []

            def transfer(s: Any, ev: tuple) -> Any:
                if ev[0] == 'eval' and isinstance(ev[1], ast.Name) and isinstance(ev[1].ctx, ast.Load) and ev[1].id in lazy:
                    nm = ev[1]
                    if use_kind(nm) == 'identity':
                        return [s]
                    if nm.id in s:
                        msg = f'`{nm.id}` is used again at line {nm.lineno} after a use that can have consumed it'
                        if msg not in bad:
                            bad.append(msg)
                        return [s]
                    return [s | {nm.id}]
                if ev[0] == 'store' and isinstance(ev[1], ast.Name) and ev[1].id in lazy:
                    # rebound: `xs = list(xs)` makes it a real collection; any other rebinding makes it something else altogether
                    return [s - {ev[1].id}] if ev[1].id in s else [s]
                return [s]

            # a rebinding to a materialised copy lifts the restriction for the rest of the function: handled by dropping the name from
            # `lazy` at the store when the value is list(x) / tuple(x) / sorted(x)
            rebinds = {t.id for st in walk_no_nested(fn.node) if isinstance(st, ast.Assign) and len(st.targets) == 1 and isinstance((t := st.targets[0]), ast.Name)
                       and t.id in lazy and isinstance(st.value, ast.Call) and norm(st.value.func) in ('list', 'tuple', 'sorted') and st.value.args
                       and norm(st.value.args[0]) == t.id}

            def transfer2(s: Any, ev: tuple) -> Any:
                done, mat = s
                if ev[0] == 'store' and isinstance(ev[1], ast.Name) and ev[1].id in rebinds and isinstance(ev[2], ast.Call) \
                        and norm(ev[2].func) in ('list', 'tuple', 'sorted'):
                    return [(done - {ev[1].id}, mat | {ev[1].id})]
                if ev[0] == 'eval' and isinstance(ev[1], ast.Name) and ev[1].id in mat:
                    return [s]
                if ev[0] == 'assume':
                    t, truth = ev[1], ev[2]
                    while isinstance(t, ast.UnaryOp) and isinstance(t.op, ast.Not):
                        t, truth = t.operand, not truth
                    if isinstance(t, ast.Call) and norm(t.func) == 'isinstance' and len(t.args) == 2 and isinstance(t.args[0], ast.Name) \
                            and t.args[0].id in lazy:
                        iterable_test = any(k in norm(t.args[1]) for k in ('Iterable', 'Iterator'))
                        if iterable_test != truth:
                            return [(done, mat | {t.args[0].id})]     # on this path the argument is a single value, not an iterable
                    return [s]
                if ev[0] == 'store' and isinstance(ev[1], ast.Name) and ev[1].id in lazy and not (isinstance(ev[2], ast.Call) and norm(ev[2].func) in ('list', 'tuple', 'sorted')):
                    return [(done - {ev[1].id}, mat | {ev[1].id})]       # the name now means something else (a loop variable, a new value)
                return [(x, mat) for x in transfer(done, ev)]

            Walker(transfer2).run(stmts_no_doc(fn.node.body), [(frozenset(), frozenset())])
            ctx.check(not bad, rid, f'{_short(m)}:{fn.qualname}', f'iterable parameters {sorted(lazy)}',
                      f'{fn.qualname}: {"; ".join(bad)}: called with a generator / map / filter object, the later use sees nothing', fn.where,
                      note=f'{sorted(lazy)} consumed at most once', nontrivial=False)
    if n < 15:
        raise AnalysisError(f'ITER-ONCE: only {n} functions with an Iterable parameter found')


# ====================================================================== CUSTOM-SEM (C02 / C09, added in round 7)
def rule_custom_sem(ctx: RuleContext, p: Program, rid: str) -> None:
    import datetime
    import decimal
    from . import possem
    from .tokenstore import TS
    ctx.rule(rid, 'the three converters behind Custom.values (_update_raw, _unsimplify_value, _simplify_value), interpreted with Python\'s own '
                  'class-pattern semantics (a bool IS an int, a datetime IS a date) over every pair (kind of the raw value in the slot) x (value '
                  'assigned: str, date, True, False, Decimal -- and int when the declared value type admits it -- or a preserved model): after '
                  '`values[i] = v` -- update in place if _update_raw accepts, else replace by _unsimplify_value(v) -- the slot reads back '
                  'exactly v, of exactly v\'s type, held by the token class of that type (a bool in a BOOL, never in a NUMBER)')
    m = p.module('models.custom')
    fns = {f.qualname: f for f in p.functions_in(m) if f.parent is None and f.cls is None}
    for need in ('_update_raw', '_unsimplify_value', '_simplify_value'):
        if need not in fns:
            raise AnalysisError(f'CUSTOM-SEM: models.custom.{need} vanished')
    ts = TS(p)
    kinds = {'EscapedString': str, 'Date': datetime.date, 'Bool': bool, 'NumberExpr': decimal.Decimal}
    union_txt = next((norm(st.value) for st in m.tree.body if isinstance(st, ast.Assign) and norm(st.targets[0]) == '_ValueTypeSimplified'), '')
    admits_int = bool(re.search(r'(^|[^.\w])int\b', union_txt))

    class Interp(possem.PosInterp):
        tag = 'CUSTOM-SEM'

        def instance_of(self, v: Any, cls_expr: Any, env: dict) -> bool:          # type: ignore[override]
            name = norm(cls_expr).rsplit('.', 1)[-1]
            py = {'str': str, 'int': int, 'bool': bool, 'float': float, 'date': datetime.date, 'datetime': datetime.datetime, 'Decimal': decimal.Decimal}
            if name in py:
                return isinstance(v, py[name])                 # Python's semantics: isinstance(True, int), isinstance(datetime, date)
            return isinstance(v, possem.Obj) and v.cls == name

        def expr(self, e: Any, env: dict) -> Any:                 # type: ignore[override]
            if isinstance(e, ast.Call) and isinstance(e.func, ast.Attribute) and e.func.attr == 'from_value' and isinstance(e.func.value, ast.Name) \
                    and e.func.value.id not in env:
                return possem.Obj(e.func.value.id, {'value': self.expr(e.args[0], env), 'fresh': True}, f'new {e.func.value.id}')
            if isinstance(e, ast.Call) and norm(e.func) in ('decimal.Decimal', 'Decimal') and len(e.args) == 1:
                v = self.expr(e.args[0], env)
                if isinstance(v, (int, str, decimal.Decimal)):
                    return decimal.Decimal(v)
            if isinstance(e, ast.Call) and isinstance(e.func, ast.Attribute) and e.func.attr == 'from_value' and len(e.args) == 1 \
                    and not (isinstance(e.func.value, ast.Name) and e.func.value.id not in env):
                cv = self.expr(e.func.value, env)          # the class taken from a variable or a table
                if isinstance(cv, possem.ClassRef):
                    return possem.Obj(cv.name, {'value': self.expr(e.args[0], env), 'fresh': True}, f'new {cv.name}')
            if isinstance(e, ast.Call) and isinstance(e.func, ast.Name) and e.func.id == 'type' and 'type' not in env and len(e.args) == 1:
                v = self.expr(e.args[0], env)
                return ('type', v.cls) if isinstance(v, possem.Obj) else ('type', type(v).__name__)
            tbl = None
            if isinstance(e, ast.Name) and e.id not in env:
                tbl = next((st.value for st in m.tree.body if isinstance(st, (ast.Assign, ast.AnnAssign)) and st.value is not None
                            and norm(st.targets[0] if isinstance(st, ast.Assign) else st.target) == e.id and isinstance(st.value, ast.Dict)), None)
            if isinstance(e, ast.Dict) and e.keys and all(k_ is not None and norm(k_).rsplit('.', 1)[-1] in ('str', 'date', 'datetime', 'bool', 'int', 'Decimal', 'float') for k_ in e.keys):
                tbl = e
            if tbl is not None:
                # a table keyed by classes: python compares classes by identity, so type(v) of an instance of a subclass finds nothing
                out_: dict = {}
                for k_, v_ in zip(tbl.keys, tbl.values):
                    kn = norm(k_).rsplit('.', 1)[-1]
                    out_[('type', kn)] = self.expr(v_, env)
                return out_
            if isinstance(e, ast.Call) and norm(e.func) == 'isinstance' and len(e.args) == 2:
                v = self.expr(e.args[0], env)
                alts: list = []

                def fl(x: ast.AST) -> None:
                    if isinstance(x, ast.BinOp) and isinstance(x.op, ast.BitOr):
                        fl(x.left)
                        fl(x.right)
                    elif isinstance(x, ast.Tuple):
                        for y in x.elts:
                            fl(y)
                    else:
                        alts.append(x)
                fl(e.args[1])
                return any(self.instance_of(v, a, env) for a in alts)
            return super().expr(e, env)

    def raw_of(kind: str) -> Any:
        sample = {'EscapedString': 'old', 'Date': datetime.date(2000, 1, 1), 'Bool': True, 'NumberExpr': decimal.Decimal(7)}
        if kind in sample:
            return possem.Obj(kind, {'value': sample[kind]}, f'old {kind}')
        return possem.Obj(kind, {}, f'old {kind}')

    class _Text2(str):
        pass

    class _Amount2(decimal.Decimal):
        pass
    values: list[Any] = ['text', '', datetime.date(2020, 1, 2), True, False, decimal.Decimal('2.50'), decimal.Decimal(0), decimal.Decimal(1),
                         _Text2('tagged'), datetime.datetime(2020, 1, 2, 3, 4), _Amount2(7)]          # instances of subclasses are values of the plain types too
    if admits_int:
        values += [3, 0, 1]
    values += [possem.Obj('Account', {}, 'an account token'), possem.Obj('Amount', {}, 'an amount')]
    want_kind = {str: 'EscapedString', datetime.date: 'Date', bool: 'Bool', decimal.Decimal: 'NumberExpr', int: 'NumberExpr'}
    problem = None
    n = 0
    for rk in [*kinds, 'Account', 'Amount']:
        for v in values:
            raw = raw_of(rk)
            n += 1
            show = f'slot holds a{"n" if rk[0] in "AE" else ""} {rk}, assigned {v!r}'
            try:
                upd = Interp(ts, [], module=m).call_function(fns['_update_raw'], [raw, v], {})
                final = raw if upd is True else Interp(ts, [], module=m).call_function(fns['_unsimplify_value'], [v], {})
                back = Interp(ts, [], module=m).call_function(fns['_simplify_value'], [final], {})
            except possem.Raised as ex:
                problem = problem or f'{show}: raises {ex}'
                continue
            if upd not in (True, False):
                problem = problem or f'{show}: _update_raw returns {upd!r}'
                continue
            if isinstance(v, possem.Obj):
                ok = final is v and back is v
                why = 'a preserved model is stored and read back as it is'
            else:
                k = want_kind.get(type(v)) or next(kk for tt, kk in ((str, 'EscapedString'), (datetime.date, 'Date'), (decimal.Decimal, 'NumberExpr')) if isinstance(v, tt))
                ok = isinstance(final, possem.Obj) and final.cls == k and type(back) is type(final.f.get('value')) and back == v \
                    and (type(back) is type(v) or (type(v) is int and isinstance(back, decimal.Decimal)))
                why = f'a {type(v).__name__} belongs in a {k} and reads back as {v!r}'
            if not ok and problem is None:
                held = f'{final.cls} holding {final.f.get("value")!r}' if isinstance(final, possem.Obj) else repr(final)
                problem = (f'{show}: {"updated in place" if upd else "replaced"}; the slot then is a {held} and reads back {back!r} -- {why} '
                           f'(bool is a subclass of int and datetime of date: a class pattern or isinstance for the base class also takes the subclass)')
    if n < 40:
        raise AnalysisError(f'CUSTOM-SEM: only {n} pairs evaluated')
    ctx.check(problem is None, rid, 'models.custom:_update_raw / _unsimplify_value / _simplify_value', 'set then get, type-exact', problem or '',
              fns['_update_raw'].where, note=f'{n} (slot kind, value) pairs')
