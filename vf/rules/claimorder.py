"""SPLICE-ORDER -- document order of the two end points handed to range operations in the comment-claim code.

TokenStore.iter(a, b) / splice(tokens, a, b) / remove(a, b) mean "from a through b" and silently do nothing sensible when
a lies after b (iter yields an empty or truncated run).  The claim code computes both end points by walking from an anchor
with get_prev / get_next, so their order is visible in the shape of the code: a value obtained from X by get_next steps
lies after X, by get_prev steps before X; lists produced by walking are ordered nearest-first (until reversed).  The
functions are evaluated once per value of their boolean direction flag (`backwards`), with the flag folded.

Obligations
  O1  at every range call (directly, or through a helper whose parameters reach one): first end point <= second, provable
      from the derivation chains;
  O2  in _CommentClaimer.claim, the backwards shift (comments in front of the field) ranges up to and including the field's
      own first token -- its zero-width placeholder -- which must end up in front of the comments the field now owns;
      the forwards shift starts right after the field's last token (so that placeholders of following fields are moved
      behind the comments).
"""
from __future__ import annotations

import ast
from typing import Any, Optional

from ..model import AnalysisError, FuncInfo, Program, norm, stmts_no_doc
from ..report import RuleContext

RANGE_CALLS = {'iter': (0, 1), 'splice': (1, 2), 'remove': (0, 1)}


class Pos:
    """a token position: a root, or derived from `parent` by one-or-more (`strict`) / zero-or-more steps in direction `d`"""
    def __init__(self, label: str, parent: Optional['Pos'] = None, d: int = 0, strict: bool = True, single: bool = False) -> None:
        self.label, self.parent, self.d, self.strict, self.single = label, parent, d, strict, single

    def __repr__(self) -> str:
        return self.label


class Walked:
    """list of tokens found by walking from `start` in direction d; nearest first unless reversed"""
    def __init__(self, start: Pos, d: int, label: str) -> None:
        self.start, self.d, self.label, self.reversed = start, d, label, False
        self.near = Pos(f'nearest of {label}', start, d, True)
        self.far = Pos(f'farthest of {label}', self.near, d, False)


def le(a: Pos, b: Pos) -> bool:
    """a <= b in document order, provable from the derivations?"""
    if a is b:
        return True
    # b reachable from a through forward moves only
    x: Optional[Pos] = b
    while x is not None and x.parent is not None and x.d > 0:
        x = x.parent
        if x is a:
            return True
    # a reachable from b through backward moves only
    x = a
    while x is not None and x.parent is not None and x.d < 0:
        x = x.parent
        if x is b:
            return True
    # one single step from S is <= (>=) everything derived from S in that direction
    if a.single and a.parent is not None and a.d > 0:
        x = b
        while x is not None and x.parent is not None and x.d > 0:
            if x.parent is a.parent and x is not a:
                return True
            x = x.parent
    if b.single and b.parent is not None and b.d < 0:
        x = a
        while x is not None and x.parent is not None and x.d < 0:
            if x.parent is b.parent and x is not b:
                return True
            x = x.parent
    return False


class OrderEval:
    def __init__(self, p: Program, funcs: dict[str, FuncInfo], report: Any) -> None:
        self.p = p
        self.funcs = funcs            # helpers that may be inlined, by bare name
        self.report = report          # report(fn, call, a, b, ok, context)
        self.roots: dict[str, Pos] = {}
        self.depth = 0

    def root(self, label: str) -> Pos:
        if label not in self.roots:
            self.roots[label] = Pos(label)
        return self.roots[label]

    def run(self, fn: FuncInfo, env: dict[str, Any], ctx_label: str) -> None:
        self.block(fn, stmts_no_doc(fn.node.body), env, ctx_label)

    def block(self, fn: FuncInfo, body: list[ast.stmt], env: dict[str, Any], ctx_label: str) -> None:
        for st in body:
            if isinstance(st, ast.If):
                t = self.const(st.test, env)
                if t is True:
                    self.block(fn, st.body, env, ctx_label)
                elif t is False:
                    self.block(fn, st.orelse, env, ctx_label)
                else:
                    e1, e2 = dict(env), dict(env)
                    self.block(fn, st.body, e1, ctx_label)
                    self.block(fn, st.orelse, e2, ctx_label)
                    for k in set(e1) | set(e2):
                        if e1.get(k) is e2.get(k):
                            env[k] = e1.get(k)
                        elif k in e1 and k in e2:
                            env[k] = None
                        else:
                            env[k] = e1.get(k, e2.get(k))      # bound on one side only (early-return idiom on the other)
                continue
            if isinstance(st, (ast.For, ast.While)):
                self.block(fn, st.body, dict(env), ctx_label)
                continue
            if isinstance(st, ast.Assign) and len(st.targets) == 1 and isinstance(st.targets[0], ast.Name):
                env[st.targets[0].id] = self.ev(fn, st.value, env, ctx_label)
                continue
            for x in ast.walk(st):
                if isinstance(x, ast.Call):
                    self.call(fn, x, env, ctx_label, value_needed=False)

    def const(self, e: ast.AST, env: dict[str, Any]) -> Optional[bool]:
        if isinstance(e, ast.Name) and isinstance(env.get(e.id), bool):
            return env[e.id]
        if isinstance(e, ast.UnaryOp) and isinstance(e.op, ast.Not):
            v = self.const(e.operand, env)
            return None if v is None else not v
        return None

    def ev(self, fn: FuncInfo, e: ast.AST, env: dict[str, Any], ctx_label: str) -> Any:
        if isinstance(e, ast.Name):
            return env.get(e.id)
        if isinstance(e, ast.Attribute):
            txt = norm(e)
            if txt.endswith(('.first_token', '.last_token')):
                return self.root(txt)
            if txt.endswith(('.get_prev', '.get_next')):
                return ('succ', -1 if txt.endswith('get_prev') else 1)
            return None
        if isinstance(e, ast.IfExp):
            t = self.const(e.test, env)
            if t is not None:
                return self.ev(fn, e.body if t else e.orelse, env, ctx_label)
            return None
        if isinstance(e, ast.Subscript) and isinstance(e.slice, (ast.Constant, ast.UnaryOp)):
            base = self.ev(fn, e.value, env, ctx_label)
            idx = norm(e.slice)
            if isinstance(base, Walked) and idx in ('0', '-1'):
                first = idx == '0'
                return base.near if first != base.reversed else base.far
            return None
        if isinstance(e, ast.Call):
            return self.call(fn, e, env, ctx_label, value_needed=True)
        return None

    def call(self, fn: FuncInfo, c: ast.Call, env: dict[str, Any], ctx_label: str, value_needed: bool) -> Any:
        f = c.func
        args = [self.ev(fn, a, env, ctx_label) for a in c.args]
        # successor application: store.get_prev(x) / succ(x)
        fv = self.ev(fn, f, env, ctx_label) if isinstance(f, (ast.Name, ast.Attribute)) else None
        if isinstance(fv, tuple) and fv and fv[0] == 'succ' and len(args) == 1:
            if isinstance(args[0], Pos):
                return Pos(f'{"get_next" if fv[1] > 0 else "get_prev"}({args[0].label})', args[0], fv[1], True, single=True)
            return None
        if isinstance(f, ast.Attribute) and f.attr == 'reverse' and isinstance(self.ev(fn, f.value, env, ctx_label), Walked):
            self.ev(fn, f.value, env, ctx_label).reversed ^= True
            return None
        if isinstance(f, ast.Name) and f.id == 'list' and len(c.args) == 1:
            return args[0]
        # range operations
        if isinstance(f, ast.Attribute) and f.attr in RANGE_CALLS and 'token_store' in norm(f.value):
            ia, ib = RANGE_CALLS[f.attr]
            if len(args) > ib:
                self.report(fn, c, args[ia], args[ib], ctx_label)
            return None
        # helpers
        name = f.id if isinstance(f, ast.Name) else (f.attr if isinstance(f, ast.Attribute) and norm(f.value) in ('self', 'cls') else None)
        if name == '_take_ignored' and len(args) >= 2:
            tok, succ = args[0], args[1]
            if isinstance(tok, Pos) and isinstance(succ, tuple):
                return Pos(f'_take_ignored({tok.label})', tok, succ[1], False)
            return None
        if name == '_find_outer' and len(args) >= 2:
            start, succ = args[0], args[1]
            if isinstance(start, Pos) and isinstance(succ, tuple):
                return Walked(start, succ[1], f'_find_outer({start.label}, {"get_next" if succ[1] > 0 else "get_prev"})')
            return None
        if name in self.funcs and self.depth < 3:
            callee = self.funcs[name]
            params = callee.params[1:] if callee.cls is not None and callee.kind == 'method' else callee.params
            cenv: dict[str, Any] = {}
            for pn, av in zip(params, args):
                cenv[pn] = av
            for k in c.keywords:
                if k.arg:
                    kv = k.value
                    cenv[k.arg] = kv.value if isinstance(kv, ast.Constant) and isinstance(kv.value, bool) else self.ev(fn, kv, env, ctx_label)
            self.depth += 1
            try:
                self.run(callee, cenv, f'{ctx_label} > {callee.qualname}({", ".join(f"{k}={v}" for k, v in cenv.items() if isinstance(v, bool))})')
            finally:
                self.depth -= 1
            return None
        return None


def rule_splice_order(ctx: RuleContext, p: Program, rid: str) -> None:
    ctx.rule(rid, 'in the comment-claim code every range handed to TokenStore.iter / splice / remove runs forwards: the first end point '
                  'is derived from the second by get_prev steps or the second from the first by get_next steps (evaluated per value of '
                  'the direction flag); and in _CommentClaimer.claim the backwards shift ends at the field\'s own first token (its '
                  'placeholder) while the forwards shift starts right after its last token')
    ic = p.module('models.internal.interleaving_comments')
    sc = p.module('models.internal.surrounding_comments')
    n = 0
    seen: set[str] = set()

    def report(fn: FuncInfo, c: ast.Call, a: Any, b: Any, label: str) -> None:
        nonlocal n
        n += 1
        site = f'{fn.module.name.split(".", 1)[1]}:{fn.qualname}'
        key = f'{label}: {norm(c)[:70]}'
        if key in seen:
            return
        seen.add(key)
        if not isinstance(a, Pos) or not isinstance(b, Pos):
            raise AnalysisError(f'SPLICE-ORDER: cannot derive the end points of `{norm(c)[:70]}` in {site} [{label}]')
        ok = le(a, b)
        ctx.check(ok, rid, site, f'{label}: {a.label} .. {b.label}',
                  f'[{label}] `{norm(c)[:80]}` is given the range {a.label} .. {b.label}, whose first end point lies at or after the second '
                  f'(the first is reached from the anchor by going {"back" if a.d < 0 else "forward"}, the second lies further in the same '
                  f'direction): the range is empty, nothing is moved, and the field keeps its placeholder on the wrong side of the comments it '
                  f'now owns -- its first token then lies after its first item', f'{fn.module.relpath}:{c.lineno}',
                  note=f'{a.label} <= {b.label}')

    for m in (ic, sc):
        funcs = {f.name: f for f in p.functions_in(m) if f.kind != 'overload' and f.parent is None}
        ev = OrderEval(p, funcs, report)
        for f in funcs.values():
            flags = [a.arg for a in f.node.args.kwonlyargs + f.node.args.args
                     if a.annotation is not None and norm(a.annotation) == 'bool' and a.arg == 'backwards']
            if f.name in ('_shift_ignored',):
                continue            # judged at its call sites (its parameters are the end points)
            if flags:
                for val in (True, False):
                    env: dict[str, Any] = {flags[0]: val}
                    for prm in f.params:
                        if prm not in env and prm in ('start',):
                            env[prm] = ev.root(prm)
                    ev.run(f, env, f'{f.qualname}(backwards={val})')
            elif f.name == 'claim' or any(isinstance(x, ast.Call) and isinstance(x.func, ast.Attribute) and x.func.attr in RANGE_CALLS
                                          and 'token_store' in norm(x.func.value) for x in ast.walk(f.node)):
                ev.run(f, {}, f.qualname)
    if n < 4:
        raise AnalysisError(f'SPLICE-ORDER: only {n} range calls evaluated in the claim code (>= 4 confirmed by hand)')
    # O2: the ranges of _CommentClaimer.claim
    claim = next((f for f in p.functions_in(ic) if f.qualname == '_CommentClaimer.claim'), None)
    if claim is None:
        raise AnalysisError('SPLICE-ORDER: _CommentClaimer.claim vanished')
    calls = [c for c in ast.walk(claim.node) if isinstance(c, ast.Call) and norm(c.func) == '_shift_ignored']
    if len(calls) != 2:
        raise AnalysisError(f'SPLICE-ORDER: {len(calls)} _shift_ignored calls in claim (2 confirmed by hand)')
    env2: dict[str, Any] = {}
    ev2 = OrderEval(p, {}, lambda *a: None)
    ev2.block(claim, [s for s in stmts_no_doc(claim.node.body)], env2, 'claim')
    for c in calls:
        back = next((k.value.value for k in c.keywords if k.arg == 'backwards' and isinstance(k.value, ast.Constant)), None)
        a_txt, b_txt = norm(c.args[1]), norm(c.args[2])
        site = 'models.internal.interleaving_comments:_CommentClaimer.claim'
        # ... and the other end is the FARTHEST comment the field takes over on that side: everything in between changes sides
        far_end = ev2.ev(claim, c.args[1] if back else c.args[2], env2, 'claim')
        if not isinstance(far_end, Pos):
            raise AnalysisError(f'SPLICE-ORDER: cannot derive the far end of `{norm(c)[:70]}`')
        ctx.check(far_end.label.startswith('farthest of'), rid, site_far := 'models.internal.interleaving_comments:_CommentClaimer.claim',
                  f'{"backwards" if back else "forwards"} shift reaches the farthest claimed comment',
                  f'the {"backwards" if back else "forwards"} shift `{norm(c)[:90]}` ranges to the {far_end.label}, not to the farthest comment found on that '
                  f'side: with two or more comments claimed there, the placeholder{"" if back else "s of the following fields"} end{"s" if back else ""} up '
                  f'between them, so the field\'s span {"starts inside" if back else "overlaps the next field\'s first token"}',
                  f'{ic.relpath}:{c.lineno}', note=far_end.label)
        if back is True:
            ok = b_txt == 'self._repeated.first_token'
            ctx.check(ok, rid, site, 'backwards shift ends at own placeholder',
                      f'the backwards shift `{norm(c)[:90]}` does not end at self._repeated.first_token: the field\'s own placeholder is not '
                      f'moved in front of the comments claimed before it', f'{ic.relpath}:{c.lineno}', note=b_txt)
        elif back is False:
            a_val = None
            for st in ast.walk(claim.node):
                if isinstance(st, ast.Assign) and len(st.targets) == 1 and norm(st.targets[0]) == a_txt and st.lineno < c.lineno:
                    a_val = norm(st.value)
            ok = (a_val or a_txt).endswith('get_next(self._repeated.last_token)')
            ctx.check(ok, rid, site, 'forwards shift starts right after own last token',
                      f'the forwards shift `{norm(c)[:90]}` does not start at get_next(self._repeated.last_token): placeholders of following '
                      f'fields between the field and the comments are not moved behind them', f'{ic.relpath}:{c.lineno}', note=a_val or a_txt)
        else:
            raise AnalysisError('SPLICE-ORDER: _shift_ignored called without a constant backwards flag')
