"""C09 -- a value written through a property is the value read back, siblings unaffected (structural clauses)."""
from __future__ import annotations

import ast
import copy
import itertools
from typing import Any, Optional

from ..minieval import MiniEval, Refused
from ..model import AnalysisError, CustomProp, DescriptorDecl, FuncInfo, Program, norm, self_attr, stmts_no_doc, walk_no_nested
from ..report import RuleContext

EXPLANATION = (
    'Static analysis: finite-domain abstract evaluation of the dependent property groups plus AST agreement rules. FSM-COST: '
    'the three getters and three setters of CostSpec (number_per, number_total, currency) are interpreted from their ASTs over an '
    'abstract cost (unit/total x presence of compound amount with per/total slots, amount, lone number, lone currency; symbolic '
    'values, deep copies keep identity); starting from every form the grammar can parse, every state reachable under all '
    'assignment sequences is explored to closure, and after each accepted `X := v` the getters must return the record-of-three-'
    'optionals with X replaced by v; a refusal is accepted only where the record would hold both numbers without a currency. '
    'FSM-PAYEE: the same for (payee, narration) with the payee-implies-narration rule. SLOT-AGREE: every value-level property '
    'class reads and writes through the same inner property (update assigns .value, create stores inner_type.from_value(value), '
    'clear stores None), and every generated value property wraps the raw property of the same field. It does NOT decide '
    'survival through print and re-parse, or value domains.')


# ------------------------------------------------------------------ FSM-COST
SLOTS = ('per', 'total', 'cur')


class CostModel:
    def __init__(self, state: dict[str, Any]) -> None:
        self.s = state

    def get_attr(self, obj: Any, attr: str) -> Any:
        s = self.s
        if obj == ('SELF',):
            if attr == 'raw_compound_amount_comp':
                return ('COMPOUND',) if s['compound'] is not None else None
            if attr == 'raw_amount_comp':
                return ('AMOUNT',) if s['amount'] is not None else None
            if attr == 'raw_number_comp':
                return s['number']
            if attr == 'raw_currency_comp':
                return s['currency']
            if attr == 'raw_cost':
                return ('COST', s['kind'])
        if obj == ('COMPOUND',) and s['compound'] is not None:
            key = {'raw_number_per': 'per', 'raw_number_total': 'total', 'raw_currency': 'cur'}.get(attr)
            if key:
                return s['compound'][key]
        if obj == ('AMOUNT',) and s['amount'] is not None:
            key = {'raw_number': 'num', 'raw_currency': 'cur'}.get(attr)
            if key:
                return s['amount'][key]
        raise AnalysisError(f'FSM-COST: attribute {attr} of {obj} is not modelled')

    def set_attr(self, obj: Any, attr: str, v: Any) -> None:
        s = self.s
        if obj == ('SELF',):
            if attr == 'raw_compound_amount_comp':
                if v is None:
                    s['compound'] = None
                elif isinstance(v, tuple) and v[0] == 'COMPOUNDOBJ':
                    s['compound'] = {'per': v[1], 'total': v[2], 'cur': v[3]}
                else:
                    raise AnalysisError(f'FSM-COST: compound amount slot assigned {v}')
                return
            if attr == 'raw_amount_comp':
                if v is None:
                    s['amount'] = None
                elif isinstance(v, tuple) and v[0] == 'AMOUNTOBJ':
                    s['amount'] = {'num': v[1], 'cur': v[2]}
                else:
                    raise AnalysisError(f'FSM-COST: amount slot assigned {v}')
                return
            if attr == 'raw_number_comp':
                s['number'] = v
                return
            if attr == 'raw_currency_comp':
                s['currency'] = v
                return
        if obj == ('COMPOUND',) and s['compound'] is not None:
            key = {'raw_number_per': 'per', 'raw_number_total': 'total', 'raw_currency': 'cur'}.get(attr)
            if key:
                if key == 'cur' and v is None:
                    raise AnalysisError('FSM-COST: required currency of a compound amount set to None')
                s['compound'][key] = v
                return
        if obj == ('AMOUNT',) and s['amount'] is not None:
            key = {'raw_number': 'num', 'raw_currency': 'cur'}.get(attr)
            if key:
                if v is None:
                    raise Refused(f'the required {key} of an amount is set to None (fails at run time)')
                s['amount'][key] = v
                return
        raise AnalysisError(f'FSM-COST: assignment to {attr} of {obj} is not modelled')

    def call(self, name: str, args: list, kwargs: dict) -> Any:
        if name == 'copy.deepcopy':
            return args[0]
        if name == 'Amount.from_children':
            if args[0] is None or args[1] is None:
                raise Refused('Amount.from_children is handed None for a required part (fails at run time)')
            return ('AMOUNTOBJ', args[0], args[1])
        if name == 'CompoundAmount.from_children':
            return ('COMPOUNDOBJ', args[0], args[1], args[2])
        if name == '._into_unit_cost':
            self.s['kind'] = 'unit'
            return None
        if name == '._into_total_cost':
            self.s['kind'] = 'total'
            return None
        raise AnalysisError(f'FSM-COST: call {name} is not modelled')

    def isinstance_(self, v: Any, cls: str) -> bool:
        if isinstance(v, tuple) and v and v[0] == 'COST':
            return {'UnitCost': 'unit', 'TotalCost': 'total'}.get(cls) == v[1]
        if isinstance(v, tuple) and v and v[0] == 'v':
            return cls in ('NumberExpr', 'Currency')
        if v is None:
            return False
        raise AnalysisError(f'FSM-COST: isinstance({v}, {cls}) is not modelled')


def _shape(s: dict[str, Any]) -> tuple:
    c = s['compound']
    a = s['amount']
    return (s['kind'], None if c is None else (c['per'] is not None, c['total'] is not None), a is not None,
            s['number'] is not None, s['currency'] is not None)


def _label(s: dict[str, Any]) -> dict[str, Any]:
    """give every present value a unique symbol named after its place"""
    t = copy.deepcopy(s)
    if t['compound'] is not None:
        for k in ('per', 'total', 'cur'):
            if t['compound'][k] is not None:
                t['compound'][k] = ('v', f'compound.{k}')
    if t['amount'] is not None:
        t['amount'] = {'num': ('v', 'amount.num'), 'cur': ('v', 'amount.cur')}
    if t['number'] is not None:
        t['number'] = ('v', 'number')
    if t['currency'] is not None:
        t['currency'] = ('v', 'currency')
    return t


def _show(s: dict[str, Any]) -> str:
    parts = []
    if s['compound'] is not None:
        c = s['compound']
        parts.append(f'{"P" if c["per"] else ""} # {"T" if c["total"] else ""} CUR')
    if s['amount'] is not None:
        parts.append('N CUR')
    if s['number'] is not None:
        parts.append('N')
    if s['currency'] is not None:
        parts.append('CUR')
    l, r = ('{', '}') if s['kind'] == 'unit' else ('{{', '}}')
    return l + ', '.join(parts) + r


def rule_fsm_cost(ctx: RuleContext, p: Program, rid: str) -> None:
    ctx.rule(rid, 'CostSpec number_per / number_total / currency behave as a record of three optionals over every reachable '
                  'abstract cost: after an accepted X := v the getters return the old record with X replaced by v; refusals only '
                  'where the record would hold both numbers and no currency')
    cs = p.cls('CostSpec', 'models.cost_spec')
    props = {}
    for slot, name in (('per', 'raw_number_per'), ('total', 'raw_number_total'), ('cur', 'raw_currency')):
        sym = cs.lookup(name)
        if not isinstance(sym, CustomProp) or sym.fget is None or sym.fset is None:
            raise AnalysisError(f'FSM-COST: CostSpec.{name} is not a custom property with getter and setter')
        props[slot] = sym

    def record(s: dict[str, Any]) -> tuple:
        out = []
        for slot in SLOTS:
            m = CostModel(copy.deepcopy(s))
            ev = MiniEval(f'CostSpec.{props[slot].name} getter', m.get_attr, m.set_attr, m.call, m.isinstance_)
            out.append(ev.run(stmts_no_doc(props[slot].fget.node.body), {'self': ('SELF',)}))
        return tuple(out)

    init: list[dict[str, Any]] = []
    for kind in ('unit', 'total'):
        base = {'kind': kind, 'compound': None, 'amount': None, 'number': None, 'currency': None}
        init.append(dict(base))
        init.append({**base, 'number': 1})
        init.append({**base, 'currency': 1})
        init.append({**base, 'amount': {'num': 1, 'cur': 1}})
        for per, total in itertools.product([None, 1], repeat=2):
            init.append({**base, 'compound': {'per': per, 'total': total, 'cur': 1}})
    seen: dict[tuple, dict[str, Any]] = {}
    origin: dict[tuple, str] = {}
    todo = []
    for s in init:
        k = _shape(s)
        if k not in seen:
            seen[k] = s
            origin[k] = 'parsed form'
            todo.append(s)
    transitions = 0
    bad: dict[tuple[str, str], str] = {}
    while todo:
        s0 = todo.pop(0)
        s = _label(s0)
        rec = record(s)
        for slot in SLOTS:
            for v in (None, ('v', 'NEW')):
                transitions += 1
                want = tuple(v if x == slot else r for x, r in zip(SLOTS, rec))
                m = CostModel(copy.deepcopy(s))
                ev = MiniEval(f'CostSpec.{props[slot].name} setter', m.get_attr, m.set_attr, m.call, m.isinstance_)
                fset = props[slot].fset
                vparam = fset.params[1]
                trace = f'{_show(s)} [{origin[_shape(s0)]}]: {slot} := {"None" if v is None else "v"}'
                try:
                    ev.run(stmts_no_doc(fset.node.body), {'self': ('SELF',), vparam: v})
                except Refused as r:
                    legal = want[0] is not None and want[1] is not None and want[2] is None
                    if not legal:
                        bad.setdefault((props[slot].name, f'refuses on {_show(s)} with {slot} := {"None" if v is None else "v"}'),
                                       f'{trace}: refused ({r.what}) although the record {want} is legal')
                    continue
                got = record(m.s)
                if got != want:
                    bad.setdefault((props[slot].name, f'{_show(s)} {slot}:={"None" if v is None else "v"} -> {_show(m.s)}'),
                                   f'{trace} gives {_show(m.s)}: reads back (per, total, currency) = {got}, the record model requires {want}')
                k = _shape(m.s)
                if k not in seen:
                    seen[k] = m.s
                    origin[k] = f'{_show(s)} {slot}:={"None" if v is None else "v"}'
                    todo.append(m.s)
    for (name, key), msg in sorted(bad.items()):
        ctx.fail(rid, f'models.cost_spec:CostSpec.{name}[set]', key, msg, cs.where)
    for k, s in seen.items():
        if not any(_show(_label(s)) in key for _, key in bad):
            ctx.ok(rid, f'state {_show(_label(s))} ({origin[k]})', '6 assignments agree with the record model')
    ctx.stats['fsm_cost'] = {'states': len(seen), 'transitions': transitions, 'initial_forms': len(init)}
    if len(seen) < 14:
        raise AnalysisError(f'FSM-COST: only {len(seen)} abstract states explored')


# ------------------------------------------------------------------ FSM-PAYEE
def rule_fsm_payee(ctx: RuleContext, p: Program, rid: str) -> None:
    ctx.rule(rid, 'Transaction payee / narration behave as a record of two optionals with the rule "a payee implies a narration" '
                  '(empty string supplied) from every one of the 4 presence states, for both setters and None / value')
    tr = p.cls('Transaction', 'models.transaction')
    py, na = tr.lookup('raw_payee'), tr.lookup('raw_narration')
    if not (isinstance(py, CustomProp) and isinstance(na, CustomProp) and py.fset and na.fset and py.fget and na.fget):
        raise AnalysisError('FSM-PAYEE: Transaction.raw_payee / raw_narration are not custom properties with setters')
    props = {'raw_payee': py, 'raw_narration': na}

    class M:
        def __init__(self, s: dict[str, Any]) -> None:
            self.s = s
            self.depth = 0

        def get_attr(self, obj: Any, attr: str) -> Any:
            if obj == ('SELF',):
                if attr in ('raw_string1', 'raw_string2'):
                    return self.s[attr]
                if attr in props:
                    ev = MiniEval(f'Transaction.{attr} getter', self.get_attr, self.set_attr, self.call, self.isinstance_)
                    return ev.run(stmts_no_doc(props[attr].fget.node.body), {'self': ('SELF',)})
                if 'raw_' + attr in props:
                    # the value-level view of the same slot (present / absent is all this domain distinguishes; an empty string is
                    # VALUE-TRUTH's business)
                    return self.get_attr(obj, 'raw_' + attr)
            raise AnalysisError(f'FSM-PAYEE: attribute {attr} is not modelled')

        def set_attr(self, obj: Any, attr: str, v: Any) -> None:
            if obj == ('SELF',):
                if attr in ('raw_string1', 'raw_string2'):
                    self.s[attr] = v
                    return
                if attr in props:
                    self.depth += 1
                    if self.depth > 4:
                        raise AnalysisError('FSM-PAYEE: setters recurse')
                    f = props[attr].fset
                    ev = MiniEval(f'Transaction.{attr} setter', self.get_attr, self.set_attr, self.call, self.isinstance_)
                    ev.run(stmts_no_doc(f.node.body), {'self': ('SELF',), f.params[1]: v})
                    self.depth -= 1
                    return
            raise AnalysisError(f'FSM-PAYEE: assignment to {attr} is not modelled')

        def call(self, name: str, args: list, kwargs: dict) -> Any:
            if name == 'EscapedString.from_value' and args and args[0] == ('const', ''):
                return ('v', 'EMPTY')
            raise AnalysisError(f'FSM-PAYEE: call {name} is not modelled')

        def isinstance_(self, v: Any, cls: str) -> bool:
            raise AnalysisError('FSM-PAYEE: isinstance is not modelled')

    n = 0
    for hp, hn in itertools.product([False, True], [False, True, 'empty']):
        # narration: absent, some text, or the empty string (which the payee setter itself supplies as a stand-in -- and which a user
        # may equally have written: it is a value like any other and survives the payee being cleared)
        s0 = {'raw_string1': ('v', 'P') if hp else None, 'raw_string2': (('v', 'EMPTY') if hn == 'empty' else ('v', 'N')) if hn else None, 'raw_string0': None}
        if hp and not hn:
            continue          # not a parseable / reachable state: a lone string is the narration
        for which in ('raw_payee', 'raw_narration'):
            for v in (None, ('v', 'NEW')):
                n += 1
                m = M(copy.deepcopy(s0))
                try:
                    m.set_attr(('SELF',), which, v)
                except Refused as r:
                    ctx.fail(rid, f'models.transaction:Transaction.{which}[set]', f'{s0} {which}:={v}', f'unexpected refusal {r.what}', tr.where)
                    continue
                got = (m.get_attr(('SELF',), 'raw_payee'), m.get_attr(('SELF',), 'raw_narration'))
                old = (s0['raw_string1'], s0['raw_string2'])
                if which == 'raw_payee':
                    want = (v, old[1] if (old[1] is not None or v is None) else ('v', 'EMPTY'))
                else:
                    want = (old[0], v if v is not None else (('v', 'EMPTY') if old[0] is not None else None))
                ctx.check(got == want, rid, f'models.transaction:Transaction.{which}[set]',
                          f'payee={"set" if hp else "-"} narration={"empty string" if hn == "empty" else "set" if hn else "-"}; {which}:={"None" if v is None else "v"}',
                          f'from (payee, narration) = {old}, {which} := {v} reads back {got}; the record model with payee-implies-narration '
                          f'requires {want}', tr.where, note=f'{old} -> {got}')
    if n < 12:
        raise AnalysisError('FSM-PAYEE: too few transitions')


# ------------------------------------------------------------------ SLOT-AGREE
def rule_slot_agree(ctx: RuleContext, p: Program, rid: str) -> None:
    ctx.rule(rid, 'value-level property classes (optional string / indented string / decimal / date, required value), their _get and '
                  '__set__ interpreted over every combination of (child present / absent) x (value None / a value / a falsy value) against '
                  'mock inner property, inner type and indent property: after __set__(v) the getter returns v, an absent child is created '
                  'with inner_type.from_value(v) (with the owner\'s indent where the class has one), None clears the slot, an existing '
                  'child is updated through .value or replaced by a fresh one, and nothing else is written; generated value properties '
                  'wrap the raw property of the same field with the field\'s own type')
    vp = p.module('models.internal.value_properties')
    n = _slot_sem(ctx, p, rid)
    # generated classes: X = <value property>(raw_X, Type) -- the raw property of the same name, type = the field's type
    m = 0
    for cl in p.classes:
        if 'generated' not in cl.module.name:
            continue
        for d in cl.attrs.values():
            if not isinstance(d, DescriptorDecl) or d.kind.module is not vp or not d.kind.name.endswith('_property') \
                    or d.kind.name.startswith('repeated'):
                continue
            a0 = d.arg(0)
            m += 1
            ok = isinstance(a0, ast.Name) and a0.id == f'raw_{d.name}'
            why = '' if ok else f'{d.name} wraps {norm(a0) if a0 is not None else None}, not raw_{d.name}'
            if ok and len(d.call.args) >= 2:
                raw = cl.lookup(a0.id)  # type: ignore[union-attr]
                fld = raw.arg(0) if isinstance(raw, DescriptorDecl) else None
                fdecl = cl.lookup(fld.id) if isinstance(fld, ast.Name) else cl.lookup(fld.attr) if isinstance(fld, ast.Attribute) else None
                if isinstance(fdecl, DescriptorDecl) and fdecl.type_args is not None and norm(fdecl.type_args) != norm(d.call.args[1]):
                    ok = False
                    why = f'{d.name} creates {norm(d.call.args[1])} but the field holds {norm(fdecl.type_args)}'
            ctx.check(ok, rid, f'{cl.module.name.split(".", 1)[1]}:{cl.name}.{d.name}', norm(d.call)[:90], why, cl.where,
                      note=norm(d.call)[:90], nontrivial=False)
    if n < 5 or m < 100:
        raise AnalysisError(f'SLOT-AGREE: {n} property classes / {m} generated value properties (5 / >= 100 expected)')


def _slot_sem(ctx: RuleContext, p: Program, rid: str) -> int:
    from . import possem
    from .tokenstore import TS
    ts = TS(p)
    m = p.module('models.internal.value_properties')
    classes = [c for c in m.classes if isinstance(c.attrs.get('_get'), FuncInfo) and isinstance(c.attrs.get('__set__'), FuncInfo)
               and c.name.endswith('_property') and not c.name.startswith('repeated')
               and any(isinstance(x, ast.Attribute) and x.attr == '_inner_property' for x in ast.walk(c.attrs['__set__'].node))]
    if len(classes) < 5:
        raise AnalysisError(f'SLOT-AGREE: only {len(classes)} value property classes found (5 confirmed)')

    class Interp(possem.PosInterp):
        tag = 'SLOT-AGREE'

        def __init__(self) -> None:
            super().__init__(ts, [], module=m)
            self.events: list = []

        def expr(self, e: Any, env: dict) -> Any:                 # type: ignore[override]
            if isinstance(e, ast.Call) and isinstance(e.func, ast.Attribute):
                f = e.func
                if f.attr in ('__get__', '__set__', 'from_value'):
                    base_v = self.expr(f.value, env)
                    if isinstance(base_v, possem.Obj) and base_v.cls in ('InnerProp', 'IndentProp', 'InnerType'):
                        args = [self.expr(a, env) for a in e.args]
                        kw = {k.arg: self.expr(k.value, env) for k in e.keywords}
                        if base_v.cls == 'InnerProp' and f.attr == '__get__':
                            self.events.append(('get', args[0]))
                            return base_v.f['slot']
                        if base_v.cls == 'InnerProp' and f.attr == '__set__':
                            self.events.append(('set', args[0], args[1]))
                            base_v.f['slot'] = args[1]
                            return None
                        if base_v.cls == 'IndentProp' and f.attr == '__get__':
                            return possem.Obj('IndentTok', {'value': 'INDENT'}, 'indent')
                        if base_v.cls == 'InnerType' and f.attr == 'from_value':
                            if args[0] is None:
                                raise possem.Raised('from_value(None)')
                            return possem.Obj('Child', {'value': args[0], 'indent': kw.get('indent'), 'fresh': True}, 'fresh child')
                        raise self.err(e, 'call on a mock')
            return super().expr(e, env)

    n = 0
    inplace: dict[str, Any] = {}
    for c in classes:
        g, st = c.attrs['_get'], c.attrs['__set__']
        init = c.attrs.get('__init__')
        params = init.params[1:] if isinstance(init, FuncInfo) else []
        optional = 'Optional' in norm(st.node.args.args[2].annotation or ast.Constant(value=''))
        indented = any('indent' in q for q in params)
        values = ['V', ''] if 'str' in c.name or 'string' in c.name else [5, 0]
        problem = ''
        cases = 0
        replaced: list[str] = []
        for has_child in ((False, True) if optional else (True,)):
            for val in ([None] if optional else []) + values:
                it = Interp()
                child = possem.Obj('Child', {'value': 'OLD', 'indent': 'OLDINDENT', 'fresh': False}, 'old child') if has_child else None
                inner = possem.Obj('InnerProp', {'slot': child}, 'inner')
                me = possem.Obj(c.name, {}, 'prop')
                for q in params:
                    me.f['_' + q] = inner if q == 'inner_property' else possem.Obj('InnerType', {}, 'type') if q == 'inner_type' \
                        else possem.Obj('IndentProp', {}, 'indentprop') if 'indent' in q else None
                owner = possem.Obj('Owner', {}, 'instance')
                where_ = f'child {"present" if has_child else "absent"}, value {val!r}'
                cases += 1
                try:
                    it.call_function(st, [me, owner, val], {})
                    it2 = Interp()
                    got = it2.call_function(g, [me, owner], {})
                except possem.Raised as ex:
                    problem = problem or f'{where_}: raises {ex}'
                    continue
                slot = inner.f['slot']
                if got != val:
                    problem = problem or f'{where_}: after __set__ the getter returns {got!r}'
                    continue
                if any(ev[0] in ('get', 'set') and ev[1] is not owner for ev in it.events):
                    problem = problem or f'{where_}: the inner property is read / written on something else than the instance'
                if val is None:
                    if slot is not None:
                        problem = problem or f'{where_}: the slot is not cleared'
                elif not has_child:
                    if not (isinstance(slot, possem.Obj) and slot.f.get('fresh') and slot.f.get('value') == val):
                        problem = problem or f'{where_}: the slot does not hold a child made by inner_type.from_value(value)'
                    elif indented and slot.f.get('indent') != 'INDENT':
                        problem = problem or f'{where_}: the new child is not given the owner\'s indent'
                else:
                    if slot is child:
                        if child.f['value'] != val:
                            problem = problem or f'{where_}: the existing child keeps its old value'
                    elif not (isinstance(slot, possem.Obj) and slot.f.get('fresh') and slot.f.get('value') == val):
                        problem = problem or f'{where_}: the slot holds neither the updated child nor a fresh one'
                    else:
                        replaced.append(where_)
                if has_child and slot is not child and child.f['value'] != 'OLD':
                    problem = problem or f'{where_}: the replaced child was modified as well'
        # an assigned value that EQUALS the current one is still written: equal values are not equal texts (Decimal('5.00') == Decimal('5'),
        # a date written with '/' equals the one written with '-'), and the caller asked for the new spelling
        import decimal as _dec
        old_v, new_v = _dec.Decimal('5'), _dec.Decimal('5.00')
        it = Interp()
        child = possem.Obj('Child', {'value': old_v, 'indent': 'OLDINDENT', 'fresh': False}, 'old child')
        inner = possem.Obj('InnerProp', {'slot': child}, 'inner')
        me = possem.Obj(c.name, {}, 'prop')
        for q in params:
            me.f['_' + q] = inner if q == 'inner_property' else possem.Obj('InnerType', {}, 'type') if q == 'inner_type' \
                else possem.Obj('IndentProp', {}, 'indentprop') if 'indent' in q else None
        cases += 1
        try:
            it.call_function(st, [me, possem.Obj('Owner', {}, 'instance'), new_v], {})
            slot = inner.f['slot']
            written = (slot is child and child.f['value'] is new_v) or (isinstance(slot, possem.Obj) and slot is not child and slot.f.get('value') is new_v)
            if not written:
                problem = problem or ('child present, assigned value equal to the current one (Decimal 5.00 over 5): nothing is written, so the text '
                                      'keeps the old spelling although the caller assigned the new one')
        except possem.Raised as ex:
            problem = problem or f'child present, equal value assigned: raises {ex}'
        n += 1
        ctx.check(not problem, rid, f'models.internal.value_properties:{c.name}', 'set then get', f'{c.name}: {problem}: a value written through '
                  f'the property is not the value read back (or lands in the wrong node)', c.where, note=f'{cases} (child, value) cases')
        inplace[c.name] = (not replaced, replaced, c)
    # sibling agreement: the value properties update the token that is there (`current.value = value`); one that builds a new token instead
    # detaches the parsed one -- a reference the caller holds (x.raw_date, file.tokens) silently stops being part of the document
    keeps = [k for k, v in inplace.items() if v[0]]
    for k, (ok_, where_list, cls_) in inplace.items():
        if not ok_ and len(keeps) >= 2:
            ctx.fail(rid, f'models.internal.value_properties:{k}: in-place update', 'replaces the token that is there',
                     f'{k}.__set__ ({where_list[0]}) puts a NEW token into the slot instead of assigning the value to the token that is there, '
                     f'as {sorted(keeps)} do: the parsed token is taken out of the document, so the document no longer consists of the same '
                     f'tokens and later edits through a reference to it are lost', cls_.where)
    return n


def single_ret(f: FuncInfo) -> Optional[str]:
    r = [norm(x.value) for x in walk_no_nested(f.node) if isinstance(x, ast.Return)]
    return r[0] if len(r) == 1 else None


def run(ctx: RuleContext, p: Program) -> None:
    ctx.try_rule(rule_fsm_cost, p, 'FSM-COST')
    ctx.try_rule(rule_fsm_payee, p, 'FSM-PAYEE')
    ctx.try_rule(rule_slot_agree, p, 'SLOT-AGREE')
    from . import presence
    ctx.try_rule(presence.rule_presence_truth, p, 'PRESENCE-TRUTH')
    from . import round4
    ctx.try_rule(round4.rule_set_covers, p, 'SET-COVERS')
    ctx.try_rule(round4.rule_dec_exact, p, 'DEC-EXACT')
    ctx.try_rule(round4.rule_meta_sem, p, 'META-SEM')
    from . import grammar_rules
    ctx.try_rule(grammar_rules.rule_term_domain, p, 'TERM-DOMAIN')
    from . import round4 as _r4c
    ctx.try_rule(_r4c.rule_custom_sem, p, 'CUSTOM-SEM')
    from . import nodesem as _ns
    ctx.try_rule(_ns.rule_unord_sem, p, 'UNORD-SEM')
    from . import c12 as _c12
        # a text assigned to a token-valued property survives print and re-parse: format/parse of the text-valued token classes agree
    ctx.try_rule(_c12.rule_tok_rt, p, _c12.grammar(p), 'TOK-RT')
    ctx.try_rule(_c12.rule_num_rt, p, _c12.grammar(p), 'NUM-RT')
    ctx.try_rule(_c12.rule_esc_rt, p, _c12.grammar(p), 'ESC-RT')
    from . import costsem as _cs
    ctx.try_rule(_cs.rule_cost_sem, p, 'COST-SEM')
    from . import descsem as _dsx
    ctx.try_rule(_dsx.rule_txn_sem, p, 'TXN-SEM')
    from . import viewlive as _vl
    ctx.try_rule(_vl.rule_store_edge, p, 'STORE-EDGE')
    ctx.not_decided += ['survival of values through print and re-parse', 'value domains of each token type (C12)',
                        'other dependent groups (none documented)']
    ctx.assumptions += ['primitive models of FSM-COST: unordered_node_property get/set means present/absent component of that type; '
                        'Amount / CompoundAmount.from_children build a component from their arguments; _into_unit_cost/_into_total_cost '
                        'only switch the brace kind (anchored by C03/C05/C15 rules)', 'copy.deepcopy preserves the value']
