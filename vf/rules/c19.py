"""C19 -- a refused operation leaves the document exactly as it was (ordering of refusal and mutation points)."""
from __future__ import annotations

from typing import Any

from ..absint import EffectInterp, join_point
from ..model import AnalysisError, Program
from ..report import RuleContext
from . import effects

EXPLANATION = (
    'Static ordering analysis with an effect / ownership abstract interpreter over the repository\'s own code (no execution): '
    'every public mutating entry point -- every descriptor __set__ as instantiated on every model class, custom property '
    'setters, token setters, public methods of models (claim/unclaim, spacing, operators, conversions) and every method of '
    'every view object handed out by repeated properties -- is interpreted over abstract values that carry ownership (Fresh / '
    'Borrowed), with calls inlined through context-free memoised summaries and descriptor objects resolved from the class '
    'bodies. ORD-REFUSE: on no path may a refusal point (detach() or from_children() of a Borrowed node, an explicit raise of '
    'ValueError/KeyError/IndexError/TypeError, a caller-supplied index into a model list, _parse_value of caller text) follow a '
    'mutation point (store structure, token text, tree shape or claim flag of a Borrowed object). Loop bodies are unrolled twice, '
    'so a batch that applies item k and refuses item k+1 is found. TS-GATE: the store gate of _splice refuses (before any mutation) every token that already has a handle unless it belongs to this store and lies in the replaced range, so a node that lives elsewhere can never be spliced in without going through detach(). It does NOT decide which exception type is raised, and '
    'collections.abc mixin methods (reverse, __iadd__, update ...) are covered only through the primitives they call.')

REFUSALS = ('detach() / from_children() of a Borrowed node (node already lives elsewhere); explicit raise of ValueError, KeyError, '
            'IndexError, TypeError; items[i] / pop(i) / range(n)[i] with a caller-supplied index; from_raw_text/_parse_value of caller '
            'text. Excluded with reason: NotImplementedError and assert (programming errors), "Token already in a store" / "not in '
            'a store" inside TokenStore (arguments are detached or fresh by PAIR-DETACH / SEP-PROV)')


def run(ctx: RuleContext, p: Program) -> None:
    ctx.rule('ORD-REFUSE', 'on no path of a public mutating entry point does a refusal point follow a mutation of Borrowed '
                           'document state; refusal points: ' + REFUSALS)
    it = EffectInterp(p)
    ents = effects.enumerate_entries(p, it, ctx.tier)
    groups = ('set', 'call', 'wrapper_call')
    n = 0
    mutating = 0
    for g in groups:
        for e in ents[g]:
            summ = e.run()
            n += 1
            has_mut = bool(summ.muts)
            has_ref = bool(summ.refs)
            mutating += int(has_mut)
            bad = [(m, r) for (m, r) in it.all_violations]   # collected globally below
            ctx.ok('ORD-REFUSE', f'entry {e.label}', f'{"mutates" if has_mut else "no mutation"}, '
                   f'{"may refuse" if has_ref else "never refuses"}', nontrivial=has_mut and has_ref)
    if n < 300 or mutating < 150:
        raise AnalysisError(f'ORD-REFUSE: only {n} entry points analysed ({mutating} mutating); >= 300 / 150 expected')
    seen: dict[tuple[str, str, str], tuple[str, Any, Any]] = {}
    for (m, r), why in it.all_violations.items():
        jp = join_point(m, r)
        seen.setdefault(jp, (why, m, r))
    # the entries analysed were recorded as ok above; each distinct ordering violation is one finding
    for (fn, mstmt, rstmt), (why, m, r) in sorted(seen.items()):
        path = [f'mutation: {f[0]}: {f[1]}' for f in m] + [f'refusal : {f[0]}: {f[1]}' for f in r] + [f'refusal reason: {why}']
        ctx.fail('ORD-REFUSE', fn, f'{mstmt}  -->  {rstmt}',
                 f'in {fn}, `{mstmt}` mutates the document and `{rstmt}` can still refuse afterwards ({why}): a refused call '
                 f'leaves the document changed', '', path)
    from . import tokenstore as T
    ctx.try_rule(T.rule_ts_gate, T.TS(p), 'TS-GATE')
    st = it.stats
    ctx.stats['effect_interpreter'] = {
        'entries': n, 'mutating_entries': mutating, 'skipped_same_signature_in_quick': ents.get('_skipped_same_signature', 0),
        'functions_interpreted': len(st['functions_interpreted']), 'calls': st['calls'], 'memo_hits': st['memo_hits'],
        'unresolved_calls': st['unresolved_calls'], 'unresolved_sites': dict(list(st['unresolved_sites'].items())[:20]),
        'recursion_cuts': st['recursion_cuts'], 'distinct_violations': len(seen)}
    if st['unresolved_calls'] > 60:
        raise AnalysisError(f'ORD-REFUSE: {st["unresolved_calls"]} unresolved calls ({list(st["unresolved_sites"].items())[:5]}); '
                            f'the verdict would depend on guesses')
    ctx.not_decided += ['the type of the exception raised', 'collections.abc mixin methods not defined in the repository',
                        'refusals inside lark / the standard library']
    ctx.assumptions += ['primitive models: TokenStore mutators never refuse on detached/fresh arguments; detach() of a Fresh node '
                        'never refuses; generated from_children detaches every argument (COVER-FROMCHILDREN, C15); reattach/clone '
                        'do not change the document', 'annotations are truthful (the repository is mypy-clean)',
                        'one representative dirty state per environment is kept (the first mutation is named in reports)']
