"""C19 -- a refused operation leaves the document exactly as it was (ordering of refusal and mutation points)."""
from __future__ import annotations

from typing import Any

from ..absint import EffectInterp, join_point
from ..model import AnalysisError, Program
from ..report import RuleContext
from . import effects

EXPLANATION = (
    'Static ordering analysis with an effect / ownership abstract interpreter over the repository\'s own code (no execution): '
    'every public mutating entry point -- every descriptor __set__ as instantiated on every model class, custom property '
    'setters, token setters, public methods of models (claim/unclaim, spacing, operators, conversions) and every method of '
    'every view object handed out by repeated properties -- is interpreted over abstract values that carry ownership (Fresh / '
    'Borrowed), with calls inlined through context-free memoised summaries and descriptor objects resolved from the class '
    'bodies. ORD-REFUSE: on no path may a refusal point (detach() or from_children() of a Borrowed node, an explicit raise of '
    'ValueError/KeyError/IndexError/TypeError, a caller-supplied index into a model list, _parse_value of caller text) follow a '
    'mutation point (store structure, token text, tree shape or claim flag of a Borrowed object). Loop bodies are unrolled twice, '
    'so a batch that applies item k and refuses item k+1 is found. TS-GATE: the store gate of _splice refuses (before any mutation) every token that already has a handle unless it belongs to this store and lies in the replaced range, so a node that lives elsewhere can never be spliced in without going through detach(). It does NOT decide which exception type is raised, and '
    'collections.abc mixin methods (reverse, __iadd__, update ...) are covered only through the primitives they call.')

REFUSALS = ('detach() / from_children() of a Borrowed node (node already lives elsewhere); explicit raise of ValueError, KeyError, '
            'IndexError, TypeError; items[i] / pop(i) / range(n)[i] with a caller-supplied index; from_raw_text/_parse_value of caller '
            'text. Excluded with reason: NotImplementedError and assert (programming errors), "Token already in a store" / "not in '
            'a store" inside TokenStore (arguments are detached or fresh by PAIR-DETACH / SEP-PROV)')


def rule_detach_gate(ctx: RuleContext, p: Program, rid: str) -> None:
    import ast
    from ..model import norm, stmts_no_doc, walk_no_nested
    ctx.rule(rid, 'RawModel.detach() is the gate that refuses a node living in a larger document: it raises unless the node\'s first '
                  'and last token *are* (identity, not equality: tokens compare equal by text) the first and last token of its store; '
                  'only then does it remove every token of that store and return them; RawTokenModel.detach defers to it whenever '
                  'the token has a store')
    rm = p.cls('RawModel', 'models.base')
    f = p.method(rm, 'detach', inherited=False)
    raises = [i for i in walk_no_nested(f.node) if isinstance(i, ast.If) and any(isinstance(x, ast.Raise) for x in i.body)]
    problems = []
    if len(raises) != 1:
        problems.append('expected exactly one refusal')
    else:
        t = raises[0].test
        disj = t.values if isinstance(t, ast.BoolOp) and isinstance(t.op, ast.Or) else None
        if disj is None or len(disj) != 2:
            problems.append(f'refusal test `{norm(t)[:120]}` is not `<first differs> or <last differs>`')
        else:
            got = set()
            for d in disj:
                if isinstance(d, ast.Compare) and len(d.ops) == 1 and isinstance(d.ops[0], ast.IsNot):
                    got.add(frozenset((norm(d.left), norm(d.comparators[0]))))
                else:
                    problems.append(f'`{norm(d)}` is not an identity (`is not`) comparison: equal-looking tokens (all placeholders are \'\') would pass the gate')
            want = {frozenset(('self.first_token', 'self.token_store.get_first()')), frozenset(('self.last_token', 'self.token_store.get_last()'))}
            if not problems and got != want:
                problems.append(f'gate compares {sorted(map(sorted, got))}, expected first_token/get_first() and last_token/get_last()')
        # nothing is removed before the refusal
        body = stmts_no_doc(f.node.body)
        idx = body.index(raises[0]) if raises[0] in body else -1
        before = [norm(s) for s in body[:idx] for x in ast.walk(s) if isinstance(x, ast.Call) and isinstance(x.func, ast.Attribute)
                  and x.func.attr in ('remove', 'splice', 'insert_after', 'insert_before', 'replace')]
        if before:
            problems.append(f'the store is modified before the refusal: {before[:2]}')
    rem = [c for c in walk_no_nested(f.node) if isinstance(c, ast.Call) and isinstance(c.func, ast.Attribute) and c.func.attr == 'remove']
    tl = [a for a in walk_no_nested(f.node) if isinstance(a, ast.Assign) and norm(a.value) == 'list(self.token_store)']
    if len(rem) != 1 or len(tl) != 1 or [norm(a) for a in rem[0].args] != [f'{norm(tl[0].targets[0])}[0]', f'{norm(tl[0].targets[0])}[-1]']:
        problems.append('does not remove and return the whole content of the store')
    ctx.check(not problems, rid, 'models.base:RawModel.detach', '; '.join(problems) or 'ok', '; '.join(problems), f.where,
              note='raise unless first/last token are (identity) the store\'s first/last; then remove all')
    tm = p.cls('RawTokenModel', 'models.base')
    g = p.method(tm, 'detach', inherited=False)
    body = [norm(s) for s in stmts_no_doc(g.node.body)]
    ok = len(body) == 2 and body[0].startswith('if not self.store_handle:') and 'return [self]' in body[0] and body[1] == 'return super().detach()'
    ctx.check(ok, rid, 'models.base:RawTokenModel.detach', f'{body}', f'RawTokenModel.detach is {body}; expected [self] for a free token, else the RawModel gate', g.where)


    # overrides of the gate: ORD-REFUSE treats detach() of a borrowed node as one refusal point, so whatever a subclass does *before* handing
    # on to the gate happens although the call is refused
    n_over = 0
    for c in p.classes:
        if c in (rm, tm) or c.module.name.endswith('_test') or not c.module.name.startswith('autobean_refactor'):
            continue
        o = c.attrs.get('detach')
        if o is None or not hasattr(o, 'node'):
            continue
        if not any(k in (rm, tm) for k in c.mro):
            continue
        n_over += 1
        body = stmts_no_doc(o.node.body)
        gate_at = next((i for i, st in enumerate(body) if any(isinstance(x, ast.Call) and isinstance(x.func, ast.Attribute) and x.func.attr == 'detach'
                                                              and isinstance(x.func.value, ast.Call) and norm(x.func.value.func) == 'super' for x in ast.walk(st))), None)
        writes = []
        for i, st in enumerate(body):
            if gate_at is not None and i >= gate_at:
                break
            for x in ast.walk(st):
                tg = x.targets if isinstance(x, ast.Assign) else [x.target] if isinstance(x, (ast.AugAssign, ast.AnnAssign)) else []
                for t in tg:
                    bt = t
                    while isinstance(bt, ast.Subscript):
                        bt = bt.value
                    if isinstance(bt, ast.Attribute):
                        writes.append(norm(x)[:60])
                if isinstance(x, ast.Call) and isinstance(x.func, ast.Attribute) and not (isinstance(x.func.value, ast.Call) and norm(x.func.value.func) == 'super') \
                        and x.func.attr in ('remove', 'splice', 'insert_after', 'insert_before', 'replace', 'append', 'extend', 'pop', 'clear', 'update', 'add', 'discard',
                                            '_update_raw_text', '_notify', '_notify_splice'):
                    writes.append(norm(x)[:60])
        ok = gate_at is not None and not writes
        ctx.check(ok, rid, f'{c.module.name.split(".", 1)[1]}:{c.name}.detach', 'override of the gate',
                  (f'{c.name}.detach overrides the gate and ' + ('never reaches RawModel.detach (super().detach())' if gate_at is None else
                   f'changes state before the gate decides (`{(writes or [""])[0]}`): when detach() refuses -- the node lives inside a larger document -- the change has '
                   f'already happened, so a refused assignment / insert leaves the document\'s own node altered')), o.where,
                  note='no state is written before super().detach()')
    ctx.stats['detach_overrides'] = n_over


def run(ctx: RuleContext, p: Program) -> None:
    ctx.rule('ORD-REFUSE', 'on no path of a public mutating entry point does a refusal point follow a mutation of Borrowed '
                           'document state; refusal points: ' + REFUSALS)
    it = EffectInterp(p)
    ents = effects.enumerate_entries(p, it, ctx.tier)
    groups = ('set', 'call', 'wrapper_call')
    n = 0
    mutating = 0
    for g in groups:
        for e in ents[g]:
            summ = e.run()
            n += 1
            has_mut = bool(summ.muts)
            has_ref = bool(summ.refs)
            mutating += int(has_mut)
            bad = [(m, r) for (m, r) in it.all_violations]   # collected globally below
            ctx.ok('ORD-REFUSE', f'entry {e.label}', f'{"mutates" if has_mut else "no mutation"}, '
                   f'{"may refuse" if has_ref else "never refuses"}', nontrivial=has_mut and has_ref)
    if n < 300 or mutating < 150:
        raise AnalysisError(f'ORD-REFUSE: only {n} entry points analysed ({mutating} mutating); >= 300 / 150 expected')
    seen: dict[tuple[str, str, str], tuple[str, Any, Any]] = {}
    for (m, r), why in it.all_violations.items():
        jp = join_point(m, r)
        seen.setdefault(jp, (why, m, r))
    # the entries analysed were recorded as ok above; each distinct ordering violation is one finding
    for (fn, mstmt, rstmt), (why, m, r) in sorted(seen.items()):
        path = [f'mutation: {f[0]}: {f[1]}' for f in m] + [f'refusal : {f[0]}: {f[1]}' for f in r] + [f'refusal reason: {why}']
        ctx.fail('ORD-REFUSE', fn, f'{mstmt}  -->  {rstmt}',
                 f'in {fn}, `{mstmt}` mutates the document and `{rstmt}` can still refuse afterwards ({why}): a refused call '
                 f'leaves the document changed', '', path)
    from . import tokenstore as T
    ctx.try_rule(T.rule_ts_gate, T.TS(p), 'TS-GATE')
    ctx.try_rule(rule_detach_gate, p, 'DETACH-GATE')
    from . import round4
    ctx.try_rule(round4.rule_mixin_batch, p, 'MIXIN-BATCH')
    ctx.try_rule(round4.rule_id_cmp, p, 'ID-CMP')
    from . import c10
    ctx.try_rule(c10.rule_drop_refuse, p, 'DROP-REFUSE')
    from . import nodesem
    # the list protocol at token level: a refused call leaves store and items as they were; `w[i] = w[i]` (what `w[i] *= 2` ends with) is accepted
    ctx.try_rule(nodesem.rule_node_sem, p, 'NODE-SEM', 3 if ctx.tier == 'quick' else 4)
    st = it.stats
    ctx.stats['effect_interpreter'] = {
        'entries': n, 'mutating_entries': mutating, 'skipped_same_signature_in_quick': ents.get('_skipped_same_signature', 0),
        'functions_interpreted': len(st['functions_interpreted']), 'calls': st['calls'], 'memo_hits': st['memo_hits'],
        'unresolved_calls': st['unresolved_calls'], 'unresolved_sites': dict(list(st['unresolved_sites'].items())[:20]),
        'recursion_cuts': st['recursion_cuts'], 'distinct_violations': len(seen)}
    if st['unresolved_calls'] > 60:
        raise AnalysisError(f'ORD-REFUSE: {st["unresolved_calls"]} unresolved calls ({list(st["unresolved_sites"].items())[:5]}); '
                            f'the verdict would depend on guesses')
    ctx.not_decided += ['the type of the exception raised', 'collections.abc mixin methods not defined in the repository',
                        'refusals inside lark / the standard library']
    ctx.assumptions += ['primitive models: TokenStore mutators never refuse on detached/fresh arguments; detach() of a Fresh node '
                        'never refuses; generated from_children detaches every argument (COVER-FROMCHILDREN, C15); reattach/clone '
                        'do not change the document', 'annotations are truthful (the repository is mypy-clean)',
                        'one representative dirty state per environment is kept (the first mutation is named in reports)']
