"""C15 -- constructed models are well-formed (structural clauses)."""
from __future__ import annotations

from typing import Any

import ast

from ..fieldmodel import build_tree_classes, single_return_expr
from ..model import AnalysisError, FuncInfo, Program, dotted, norm, walk_no_nested
from ..report import RuleContext
from . import gen

EXPLANATION = (
    'Static analysis (AST coverage / sibling agreement over all 34 classes with declared fields and their hand-written '
    'peers). Decides: COVER-INIT (constructor stores every declared field), COVER-FROMCHILDREN (from_children detaches every '
    'field once in field order into one token list, builds one store, reattaches every field and passes every field to the '
    'constructor at its own position; non-public tokens from from_default), FC-ITER (the separator/field sequence laid out by '
    'from_children equals the one yielded by iter_children_formatted), FV-COVER (from_value forwards every parameter by keyword '
    'under its own name), CTOR-DOM (Custom.from_children routes values through _disambiguate_values, Transaction.from_children '
    'applies payee-implies-narration, both before delegating), GRAM-FIELDS (the constructor order equals the child order of the '
    'grammar rule, which is what from_parsed_children relies on). It does NOT decide that the printed text parses and compares equal.')


def rule_ctor_dom(ctx: RuleContext, p: Program, rid: str) -> None:
    ctx.rule(rid, 'hand-written from_children overrides normalise their arguments before delegating to the generated one: '
                  'Custom routes `values` through _disambiguate_values; Transaction supplies an empty narration when a payee is given')
    cu = p.cls('Custom', 'models.custom')
    f = p.method(cu, 'from_children', inherited=False)
    e = single_return_expr(f)
    ok = isinstance(e, ast.Call) and norm(e.func) == 'super().from_children'
    routed = ok and any(isinstance(a, ast.Call) and norm(a.func) == '_disambiguate_values' and norm(a.args[0]) == 'values'
                        for a in [*e.args, *[k.value for k in e.keywords]])  # type: ignore[union-attr]
    ctx.check(bool(routed), rid, 'models.custom:Custom.from_children', 'values -> _disambiguate_values',
              'Custom.from_children does not pass `values` through _disambiguate_values (a number followed by a signed number '
              'would print as one expression)', f.where, note='values routed through _disambiguate_values')
    tr = p.cls('Transaction', 'models.transaction')
    f2 = p.method(tr, 'from_children', inherited=False)
    body = [s for s in f2.node.body if not (isinstance(s, ast.Expr) and isinstance(s.value, ast.Constant))]
    guard = None
    for s in body:
        if isinstance(s, ast.If):
            guard = s
            break
    ok2 = False
    if guard is not None:
        t = norm(guard.test)
        sets = [x for x in guard.body if isinstance(x, ast.Assign) and norm(x.targets[0]) == 'narration'
                and isinstance(x.value, ast.Call) and norm(x.value.func).endswith('EscapedString.from_value')]
        ok2 = 'payee is not None' in t and 'narration is None' in t and bool(sets) and body.index(guard) < len(body) - 1
    ret = [n for n in walk_no_nested(f2.node) if isinstance(n, ast.Return)]
    delegates = len(ret) == 1 and isinstance(ret[0].value, ast.Call) and norm(ret[0].value.func) == 'super().from_children'
    if delegates:
        args = [norm(a) for a in ret[0].value.args]  # type: ignore[union-attr]
        # string0 is None, string1 = payee, string2 = narration
        ok2 = ok2 and args[2:5] == ['None', 'payee', 'narration']
    ctx.check(ok2 and delegates, rid, 'models.transaction:Transaction.from_children', 'payee implies narration',
              'Transaction.from_children does not supply an empty narration for a lone payee before delegating with '
              '(None, payee, narration) (a lone string would be read back as the narration)', f2.where,
              note='narration defaulted when payee given; delegates (None, payee, narration)')


def rule_disambig(ctx: RuleContext, p: Program, rid: str) -> None:
    ctx.rule(rid, 'juxtaposed custom values: UNARY_OP and ADD_OP share their literals in the grammar, so a value that starts with a '
                  'sign is absorbed by *any* preceding number expression (whatever its last token); _disambiguate_values must wrap '
                  'every value whose number starts with a unary operator whenever the previous value is a NumberExpr -- the guard on '
                  'the previous value may not be narrowed -- and must look inside Amount as well as NumberExpr')
    from .. import rx
    from .c12 import grammar
    g = grammar(p)
    un, ad = g.literal_alternatives('UNARY_OP'), g.literal_alternatives('ADD_OP')
    collide = bool(un and ad and set(un) & set(ad))
    f = p.func('models.custom', '_disambiguate_values')
    if not collide:
        ctx.ok(rid, 'grammar: UNARY_OP / ADD_OP', 'no shared literal: juxtaposition is unambiguous', nontrivial=False)
        return
    problem, cases = _disambig_sem(p, f)
    ctx.check(not problem, rid, 'models.custom:_disambiguate_values', problem or 'ok',
              f'_disambiguate_values, interpreted over every sequence of up to 3 custom values (string, signed / unsigned number expression, '
              f'amount with a signed / unsigned number): {problem}', f.where,
              note=f'UNARY_OP {un} collide with ADD_OP {ad}; {cases} value sequences: wraps exactly the signed numbers that follow a number expression')


def _disambig_sem(p: Program, f: Any) -> tuple[str, int]:
    import itertools
    from . import possem
    from .tokenstore import TS
    ts = TS(p)
    m = p.module('models.custom')

    def cls_of(name: str) -> Any:
        sy = p.resolve_expr(m, ast.Name(id=name, ctx=ast.Load()))
        if sy is not None and hasattr(sy, 'is_subclass_of'):
            return sy
        cands = [c for mod in p.modules.values() if mod.name.startswith('autobean_refactor.models.') and '.generated' not in mod.name
                 for c in mod.classes if c.name == name]
        if not cands:
            cands = [c for mod in p.modules.values() if mod.name.startswith('autobean_refactor.models.') for c in mod.classes if c.name == name]
        return cands[0] if len(cands) == 1 else None

    class Interp(possem.PosInterp):
        tag = 'DISAMBIG'

        def __init__(self) -> None:
            super().__init__(ts, [], module=m)
            self.wrapped: list = []

        def instance_of(self, v: Any, cls_expr: Any, env: dict) -> bool:          # type: ignore[override]
            if not isinstance(v, possem.Obj):
                return False
            target = p.resolve_expr(m, cls_expr)
            mine = cls_of(v.cls)
            if target is None or mine is None or not hasattr(mine, 'is_subclass_of'):
                raise self.err(cls_expr, 'isinstance against an unknown class')
            return mine.is_subclass_of(target)

        def expr(self, e: Any, env: dict) -> Any:                 # type: ignore[override]
            if isinstance(e, ast.Call) and isinstance(e.func, ast.Name) and e.func.id == 'isinstance' and e.func.id not in env and len(e.args) == 2:
                v = self.expr(e.args[0], env)
                alts: list = []

                def fl(x: ast.AST) -> None:
                    if isinstance(x, ast.BinOp) and isinstance(x.op, ast.BitOr):
                        fl(x.left)
                        fl(x.right)
                    elif isinstance(x, ast.Tuple):
                        for y in x.elts:
                            fl(y)
                    else:
                        alts.append(x)
                fl(e.args[1])
                return any(self.instance_of(v, a_, env) for a_ in alts)
            if isinstance(e, ast.Call) and isinstance(e.func, ast.Attribute) and e.func.attr == 'wrap_with_parenthesis':
                v = self.expr(e.func.value, env)
                self.wrapped.append(v)
                if isinstance(v, possem.Obj) and v.cls == 'NumberExpr':
                    v.f['raw_number_add_expr'] = mk_add(False)       # now starts with a parenthesis
                    v.f['first_token'] = possem.Obj('LeftParen', {'raw_text': '('}, '(')
                    v.f['last_token'] = possem.Obj('RightParen', {'raw_text': ')'}, ')')
                return None
            return super().expr(e, env)

    def mk_add(signed: bool) -> Any:
        atom = possem.Obj('NumberUnaryExpr' if signed else 'Number', {}, 'atom')
        mul = possem.Obj('NumberMulExpr', {'raw_operands': (atom,)}, 'mul')
        return possem.Obj('NumberAddExpr', {'raw_operands': (mul,)}, 'add')

    def mk(kind: str, i: int) -> Any:
        def ends(signed: bool) -> dict:
            return {'first_token': possem.Obj('UnaryOp' if signed else 'Number', {'raw_text': '-' if signed else '1'}, 'first'),
                    'last_token': possem.Obj('Number', {'raw_text': '1'}, 'last')}
        if kind in ('N+', 'N-'):
            return possem.Obj('NumberExpr', {'raw_number_add_expr': mk_add(kind == 'N-'), **ends(kind == 'N-')}, f'v{i}:{kind}')
        if kind in ('A+', 'A-'):
            num = possem.Obj('NumberExpr', {'raw_number_add_expr': mk_add(kind == 'A-'), **ends(kind == 'A-')}, f'v{i}:number of {kind}')
            return possem.Obj('Amount', {'raw_number': num}, f'v{i}:{kind}')
        return possem.Obj('EscapedString', {}, f'v{i}:S')

    cases = 0
    kinds = ['S', 'N+', 'N-', 'A+', 'A-']
    for k in range(0, 4):
        for seq in itertools.product(kinds, repeat=k):
            vals = [mk(kd, i) for i, kd in enumerate(seq)]
            it = Interp()
            cases += 1
            try:
                out = it.call_function(f, [list(vals)], {})
            except possem.Raised as ex:
                return f'values {list(seq)}: raises {ex}', cases
            if not isinstance(out, list) or [id(x) for x in out] != [id(x) for x in vals]:
                return f'values {list(seq)}: does not yield every value exactly once, in order', cases
            want = []
            for i, kd in enumerate(seq):
                if i and seq[i - 1] in ('N+', 'N-') and kd in ('N-', 'A-'):
                    want.append(vals[i] if kd == 'N-' else vals[i].f['raw_number'])
            if [id(x) for x in it.wrapped] != [id(x) for x in want]:
                got = [getattr(x, 'label', x) for x in it.wrapped]
                return (f'values {list(seq)} (S string, N number expression, A amount; - = its number starts with a sign): wraps {got}, but exactly the signed '
                        f'numbers that directly follow a number expression must be parenthesised ({[x.label for x in want]}) -- a sign after a number '
                        f'expression is lexed as a binary operator and the two values fuse'), cases
    return '', cases


def run(ctx: RuleContext, p: Program) -> None:
    tcs = build_tree_classes(p)
    ctx.try_rule(gen.rule_cover_init, p, tcs, 'COVER-INIT')
    ctx.try_rule(gen.rule_cover_fromchildren, p, tcs, 'COVER-FROMCHILDREN')
    ctx.try_rule(gen.rule_fc_iter, p, tcs, 'FC-ITER')
    ctx.try_rule(gen.rule_fv_cover, p, tcs, 'FV-COVER')
    for r in ('COVER-INIT', 'COVER-FROMCHILDREN', 'FC-ITER'):
        ctx.require_min(r, 34)
    ctx.require_min('FV-COVER', 20)
    ctx.try_rule(rule_ctor_dom, p, 'CTOR-DOM')
    ctx.try_rule(rule_disambig, p, 'DISAMBIG')
    from . import grammar_rules
    ctx.try_rule(grammar_rules.rule_gram_fields, p, tcs, 'GRAM-FIELDS')
    from . import bcline
    ctx.try_rule(bcline.rule_bc_line, p, 'BC-LINE')
    ctx.try_rule(rule_fv_path, p, 'FV-PATH')
    ctx.try_rule(grammar_rules.rule_gram_opt, p, tcs, 'GRAM-OPT')
    from . import round4
    ctx.try_rule(round4.rule_late_bind, p, 'LATE-BIND')
    from . import c12
    ctx.try_rule(c12.rule_str_boundary, p, c12.grammar(p), 'STR-BOUNDARY', 7 if ctx.tier == 'quick' else 9)
    ctx.try_rule(c12.rule_fmt_lang, p, c12.grammar(p), 'FMT-LANG')
    ctx.try_rule(c12.rule_num_rt, p, c12.grammar(p), 'NUM-RT')
    ctx.try_rule(rule_fv_arg, p, 'FV-ARG')
    ctx.try_rule(grammar_rules.rule_inline_eol, p, 'INLINE-EOL')
    ctx.try_rule(grammar_rules.rule_lex_prio, p, 'LEX-PRIO')
    ctx.try_rule(grammar_rules.rule_term_domain, p, 'TERM-DOMAIN')
    from . import opsem
    # NumberExpr.from_value and the hand-written from_children of the chain classes build trees that have a store, span it and read as their text
    ctx.try_rule(opsem.rule_op_sem, p, 'OP-SEM')
    # the meta value constructor path (MetaItem.from_value, meta[key] = v): every plain value, instances of subclasses included, is wrapped
    ctx.try_rule(round4.rule_meta_sem, p, 'META-SEM')
    # Custom.from_value converts its values with the same helper as assignments through Custom.values
    ctx.try_rule(round4.rule_custom_sem, p, 'CUSTOM-SEM')
    from . import presence as _presence
    # the parse-side hooks decide by presence, not by truthiness: an empty narration is a narration
    ctx.try_rule(_presence.rule_presence_truth, p, 'PRESENCE-TRUTH')
    ctx.try_rule(rule_sep_lex, p, 'SEP-LEX')
    from . import descsem as _dsx
    ctx.try_rule(_dsx.rule_txn_sem, p, 'TXN-SEM')
    ctx.not_decided += ['that the printed text of a constructed model parses (runtime / lexer)',
                        'that the parsed result has equal fields and values (runtime)']
    ctx.assumptions += ['detach()/reattach() semantics as decided under C05', 'separator tokens are deep-copied (SEP-PROV under C03/C11)']


# ====================================================================== FV-PATH (added after seeded round 3)
def rule_fv_path(ctx: RuleContext, p: Program, rid: str) -> None:
    """every argument of a hand-written constructor is looked at on every path that returns a model"""
    import ast
    from ..model import AnalysisError, norm, stmts_no_doc
    from ..walker import Walker
    ctx.rule(rid, 'in every hand-written from_value / from_children (classes outside models/generated), each parameter is read at least once '
                  'on every path that reaches a return: a path that never looks at an argument builds the same model whatever was passed '
                  'for it, so a part the caller asked for is silently missing from the constructed text')
    n = 0
    for m in p.modules.values():
        if '.models' not in m.name or '.generated' in m.name or '.internal' in m.name or m.name.endswith('_test'):
            continue
        for fn in p.functions_in(m):
            if fn.kind != 'classmethod' or fn.name not in ('from_value', 'from_children') or fn.cls is None:
                continue
            a = fn.node.args
            params = [x.arg for x in [*a.posonlyargs, *a.args, *a.kwonlyargs]][1:]
            if not params:
                continue
            body = stmts_no_doc(fn.node.body)
            if len(body) == 1 and isinstance(body[0], ast.Return):
                # single expression: every parameter must occur in it
                used = {x.id for x in ast.walk(body[0]) if isinstance(x, ast.Name)}
                missing = [q for q in params if q not in used]
                n += 1
                ctx.check(not missing, rid, f'{m.name.split(".", 1)[1]}:{fn.qualname}', 'all parameters used',
                          f'{fn.qualname} never reads {missing}', fn.where, note=f'{len(params)} parameters')
                continue
            bad: list[tuple[int, list[str]]] = []

            def transfer(state: Any, ev: tuple) -> Any:
                seen, facts = state
                if ev[0] == 'eval' and isinstance(ev[1], ast.Name) and ev[1].id in params:
                    return [(seen | {ev[1].id}, facts)]
                if ev[0] == 'assume':
                    t, truth = ev[1], ev[2]
                    if isinstance(t, ast.UnaryOp) and isinstance(t.op, ast.Not):
                        t, truth = t.operand, not truth
                    if isinstance(t, ast.Compare) and len(t.ops) == 1 and isinstance(t.ops[0], (ast.Is, ast.IsNot)) and isinstance(t.left, ast.Name) \
                            and t.left.id in params and isinstance(t.comparators[0], ast.Constant) and t.comparators[0].value is None:
                        is_none = truth if isinstance(t.ops[0], ast.Is) else not truth
                        if (t.left.id, not is_none) in facts:
                            return []                       # contradicts an earlier test of the same argument: infeasible path
                        return [(seen, facts | {(t.left.id, is_none)})]
                if ev[0] == 'store' and isinstance(ev[1], ast.Name) and ev[1].id in params:
                    return [(seen, frozenset(f for f in facts if f[0] != ev[1].id))]
                if ev[0] == 'return':
                    missing = [q for q in params if q not in seen]
                    if missing:
                        bad.append((getattr(ev[1], 'lineno', fn.node.lineno), missing))
                return [(seen, facts)]
            Walker(transfer).run(body, [(frozenset(), frozenset())])
            n += 1
            site = f'{m.name.split(".", 1)[1]}:{fn.qualname}'
            if bad:
                line, missing = sorted(bad)[0]
                ctx.fail(rid, site, f'return without reading {sorted(set(missing))}',
                         f'{fn.qualname} can return (line {line}) on a path that never reads {sorted(set(missing))}: whatever the caller passes for '
                         f'{"them" if len(set(missing)) > 1 else "it"} is dropped there, so the constructed model prints without that part and does '
                         f'not parse back to what was asked for', f'{m.relpath}:{line}')
            else:
                ctx.ok(rid, site, f'{len(params)} parameters read on every returning path')
    if n < 8:
        raise AnalysisError(f'FV-PATH: only {n} hand-written constructors found')


# ====================================================================== FV-ARG (added after seeded round 6)
def rule_fv_arg(ctx: RuleContext, p: Program, rid: str) -> None:
    """in a from_value that forwards to from_children / the constructor, the part called k is built from the argument called k"""
    import ast
    from ..model import AnalysisError, norm, walk_no_nested
    ctx.rule(rid, 'in every from_value (hand-written and generated), each keyword `k=<expr>` of the forwarding call (from_children / cls(...)) '
                  'whose name is also a parameter of from_value takes its DATA from that parameter: the value part of <expr> (conditional tests '
                  'set aside, single-assignment locals expanded) reads `k`.  A slot filled from another argument (trailing_comment built from '
                  'leading_comment) constructs a model whose fields are not the arguments')
    n = 0
    for m in p.modules.values():
        if '.models' not in m.name or '.internal' in m.name or m.name.endswith('_test'):
            continue
        for fn in p.functions_in(m):
            if fn.kind != 'classmethod' or fn.name != 'from_value' or fn.cls is None:
                continue
            a = fn.node.args
            params = {x.arg for x in [*a.posonlyargs, *a.args, *a.kwonlyargs][1:]}
            assigns: dict[str, list[ast.AST]] = {}
            for st in walk_no_nested(fn.node):
                if isinstance(st, ast.Assign) and len(st.targets) == 1 and isinstance(st.targets[0], ast.Name):
                    assigns.setdefault(st.targets[0].id, []).append(st.value)
                elif isinstance(st, (ast.AugAssign, ast.AnnAssign, ast.NamedExpr)) and isinstance(st.target, ast.Name):
                    assigns.setdefault(st.target.id, []).append(st.value if st.value is not None else st.target)
                elif isinstance(st, (ast.For, ast.comprehension)):
                    for t in ast.walk(st.target):
                        if isinstance(t, ast.Name):
                            assigns.setdefault(t.id, []).append(st.iter)

            def data_names(e: ast.AST, depth: int = 0) -> set[str]:
                """parameters the VALUE of e is computed from"""
                if isinstance(e, ast.IfExp):
                    return data_names(e.body, depth) | data_names(e.orelse, depth)
                if isinstance(e, ast.BoolOp):
                    return set().union(*[data_names(v, depth) for v in e.values])
                out: set[str] = set()
                for x in ast.walk(e):
                    if isinstance(x, ast.Name) and isinstance(x.ctx, ast.Load):
                        if x.id in params and x.id not in assigns:
                            out.add(x.id)
                        elif x.id in assigns and depth < 4:
                            if x.id in params:
                                out.add(x.id)
                            for v in assigns[x.id]:
                                out |= data_names(v, depth + 1)
                return out

            for call in walk_no_nested(fn.node):
                if not (isinstance(call, ast.Call) and (norm(call.func) in ('cls.from_children', 'cls', f'{fn.cls.name}.from_children', fn.cls.name)
                                                        or norm(call.func).endswith('.from_children') and norm(call.func).split('.')[0] in ('cls', 'super()'))):
                    continue
                for k in call.keywords:
                    if k.arg is None or k.arg not in params:
                        continue
                    n += 1
                    got = data_names(k.value)
                    ctx.check(k.arg in got, rid, f'{m.name.split(".", 1)[1]}:{fn.qualname}', f'{k.arg}=',
                              f'{fn.qualname} passes `{k.arg}={norm(k.value)[:90]}`: the value is built from {sorted(got) or "no argument"}, not from '
                              f'the argument `{k.arg}` -- the constructed model\'s {k.arg} is not what the caller passed (and a None there raises)',
                              f'{m.relpath}:{k.value.lineno}', note=f'{k.arg} <- {sorted(got)}')
    if n < 60:
        raise AnalysisError(f'FV-ARG: only {n} forwarded keywords found')


# ====================================================================== SEP-LEX (round 10)
def rule_sep_lex(ctx: RuleContext, p: Program, rid: str) -> None:
    """a separator token that from_children puts directly behind a token child must not be swallowed by that token's terminal when the text is lexed again"""
    import re
    from . import c12
    from .. import rx
    ctx.rule(rid, 'in every from_children that lays its tokens out as one list (`tokens = [*a.detach(), Whitespace.from_default(), *b.detach(), ...]`): a '
                  'separator token that directly follows a child whose type is a token class is not absorbed by that class\'s terminal when the printed '
                  'text is lexed again -- for sample lexemes w of the terminal (shortest words of its automaton and the default text of the class), the '
                  'terminal matched at the start of w + <separator text> + "x" ends at len(w).  A terminal that runs to the end of the line (IGNORED, '
                  'INLINE_COMMENT) takes the blank in: the model that is parsed back has another text in that token than the one constructed')
    g = c12.grammar(p)
    tok_by_name: dict = {}
    for c in p.registered('token_model'):
        tok_by_name.setdefault(c.name, c)
    term_cache: dict = {}

    def terminal_of(cname: str) -> Any:
        if cname in term_cache:
            return term_cache[cname]
        c = tok_by_name.get(cname)
        out = None
        if c is not None:
            r = p.class_const(c, 'RULE')
            if isinstance(r, ast.Constant) and r.value in g.terminals:
                pat = g.terminals[r.value].pattern
                flags = 0
                for f in getattr(pat, 'flags', ()) or ():
                    flags |= {'i': re.I, 'm': re.M, 's': re.S, 'x': re.X, 'u': re.U}.get(f, 0)
                term = re.compile(pat.to_regexp(), flags)
                words = []
                try:
                    ok, w = rx.included(g.terminal_nfa(r.value), rx.from_regex('[^\\s\\S]'))
                    if not ok and isinstance(w, str) and term.fullmatch(w):
                        words.append(w)
                except Exception:
                    pass
                d = p.class_const(c, 'DEFAULT')
                if isinstance(d, ast.Constant) and isinstance(d.value, str) and d.value and term.fullmatch(d.value):
                    words.append(d.value)
                out = (r.value, term, words)
        term_cache[cname] = out
        return out

    def default_text(cname: str) -> Any:
        c = tok_by_name.get(cname)
        if c is None:
            return None
        d = p.class_const(c, 'DEFAULT')
        return d.value if isinstance(d, ast.Constant) and isinstance(d.value, str) else None

    n_funcs = n_adj = 0
    for fn in p.all_funcs:
        if fn.name != 'from_children' or fn.cls is None or fn.module.name.endswith('_test') or not fn.module.name.startswith('autobean_refactor'):
            continue
        # the token layout: the one list display that holds `*<child>.detach()` elements (bound to a name or handed to from_tokens directly)
        lists = [a for a in walk_no_nested(fn.node) if isinstance(a, ast.List) and any(
            isinstance(x, ast.Starred) and isinstance(x.value, ast.Call) and isinstance(x.value.func, ast.Attribute) and x.value.func.attr in ('detach', 'detach_with_separators')
            for x in a.elts)]
        if len(lists) != 1:
            continue
        n_funcs += 1
        ann = {a.arg: norm(a.annotation) for a in [*fn.node.args.args, *fn.node.args.kwonlyargs] if a.annotation is not None}
        local_cls = {a.targets[0].id: norm(a.value.func.value) for a in walk_no_nested(fn.node) if isinstance(a, ast.Assign) and len(a.targets) == 1
                     and isinstance(a.targets[0], ast.Name) and isinstance(a.value, ast.Call) and isinstance(a.value.func, ast.Attribute)
                     and a.value.func.attr in ('from_default', 'from_value', 'from_raw_text')}
        elts = lists[0].elts
        for i in range(1, len(elts)):
            sep, prev = elts[i], elts[i - 1]
            if not (isinstance(sep, ast.Call) and isinstance(sep.func, ast.Attribute) and sep.func.attr == 'from_default'):
                continue
            sep_text = default_text(norm(sep.func.value).rsplit('.', 1)[-1])
            if not sep_text:
                continue
            if not (isinstance(prev, ast.Starred) and isinstance(prev.value, ast.Call) and isinstance(prev.value.func, ast.Attribute)
                    and prev.value.func.attr == 'detach' and isinstance(prev.value.func.value, ast.Name)):
                continue
            who = prev.value.func.value.id
            cname = (ann.get(who) or local_cls.get(who) or '').rsplit('.', 1)[-1]
            t = terminal_of(cname)
            if t is None:
                continue                        # a tree model (its last token is decided where that model is laid out) or an unknown type
            tname, term, words = t
            if not words:
                continue
            n_adj += 1
            bad = None
            for w in words:
                m_ = term.match(w + sep_text + 'x')
                if m_ is not None and m_.end() > len(w):
                    bad = (w, m_.group(0))
                    break
            site = f'{fn.module.name.split(".", 1)[1]}:{fn.cls.name}.from_children: {who} ({cname}) followed by {norm(sep)}'
            ctx.check(bad is None, rid, site, 'the separator is not absorbed' if bad is None else f'{tname} takes {bad[1]!r} out of {bad[0] + sep_text + "x"!r}',
                      f'the {tname} token {who} is followed by the separator {sep_text!r}; lexed again, {tname} matches {bad[1] if bad else ""!r} -- the separator '
                      f'becomes part of the token, so the constructed model does not read back as constructed (declare the next field with separators=())',
                      fn.where, nontrivial=False)
    if n_funcs < 25 or n_adj < 30:
        raise AnalysisError(f'SEP-LEX: only {n_funcs} from_children with a token list and {n_adj} token / separator adjacencies found')
