"""C01 -- parse then print reproduces the input (token conservation clauses)."""
from __future__ import annotations

import ast
import itertools
from typing import Any, Iterable, Optional

from ..model import AnalysisError, FuncInfo, Program, dotted, norm, self_attr, stmts_no_doc, walk_no_nested
from ..report import RuleContext
from ..walker import Walker
from . import grammar_rules

EXPLANATION = (
    'Static analysis (finite-domain abstract evaluation of the post-lexer, regex language inclusion, AST path analysis of the '
    'model builder). Decides necessary conditions of token conservation: POSTLEX-CONS (for every valuation of {newline, indent, '
    'comment text present; indented; previous-is-block-comment} the values of the tokens the post-lexer yields for one combined '
    'lexeme concatenate to exactly newline+indent+comment, every synthetic mark is zero-width, other tokens pass unchanged and the '
    'end-of-stream flush is zero-width), GRAM-SPLIT (every lexeme of the combined terminal fully matches the split regex, with the '
    'right group structure), GRAM-REG (every terminal / rule that can reach the builder has a registered model), GRAM-FIELDS (the child sequence the compiled grammar delivers for each rule has one slot per constructor field, in order and of the declared type), BUILDER-CONS (the '
    'builder\'s token list is append-only, every lexer token with text is materialised exactly once in order -- gap fill before each '
    'built token and at the end -- and inserted once), PARSE-FEED (every lexer token is recorded before the feed decision), '
    'PRINT-ALL (the printer writes raw_text of every token of the model, unfiltered, in order). It does NOT decide that lark accepts '
    'a text, that tree leaves are visited in token order, or sub-model spans.')


# ------------------------------------------------------------------ POSTLEX-CONS (E3)
class _Sym:
    """symbolic string: tuple of atoms, each atom known empty or non-empty by the valuation"""


def rule_postlex_cons(ctx: RuleContext, p: Program, rid: str) -> None:
    ctx.rule(rid, 'PostLex.process, abstractly evaluated over all valuations of (newline_text, indent_text, comment_text non-empty; '
                  'indented; prev_is_block_comment): yielded token values concatenate to newline+indent+comment in order; EOL / '
                  'INDENT_MARK / DEDENT_MARK carry the empty string; other tokens are yielded unchanged; the final flush is zero-width')
    pl = p.cls('PostLex', 'parser')
    fn = p.method(pl, 'process', inherited=False)
    consts = {}
    for k in ('_NEWLINE_INDENT_COMMENT', '_NEWLINE', '_EOL', '_INDENT_MARK', '_DEDENT_MARK', '_INDENT', '_BLOCK_COMMENT'):
        n = p.class_const(pl, k)
        if not (isinstance(n, ast.Constant) and isinstance(n.value, str)):
            raise AnalysisError(f'POSTLEX-CONS: PostLex.{k} is not a string constant')
        consts[k] = n.value
    zero_width = {consts['_EOL'], consts['_INDENT_MARK'], consts['_DEDENT_MARK']}
    body = stmts_no_doc(fn.node.body)
    loops = [s for s in body if isinstance(s, ast.For)]
    if len(loops) != 1:
        raise AnalysisError('POSTLEX-CONS: expected one loop over the token stream')
    loop = loops[0]
    tok = norm(loop.target)
    pre = body[:body.index(loop)]
    post = body[body.index(loop) + 1:]
    state_vars: dict[str, bool] = {}
    for s in pre:
        if isinstance(s, ast.Assign) and isinstance(s.targets[0], ast.Name) and isinstance(s.value, ast.Constant):
            if isinstance(s.value.value, bool):
                state_vars[s.targets[0].id] = s.value.value
        else:
            raise AnalysisError(f'POSTLEX-CONS: unsupported prologue statement {norm(s)!r}')
    # loop body: passthrough guard, match, groups, then the splitter
    lb = loop.body
    guard = lb[0]
    if not (isinstance(guard, ast.If) and isinstance(guard.test, ast.Compare) and isinstance(guard.test.ops[0], ast.NotEq)
            and {norm(guard.test.left), norm(guard.test.comparators[0])} == {f'{tok}.type', 'self._NEWLINE_INDENT_COMMENT'}):
        raise AnalysisError('POSTLEX-CONS: pass-through guard `if token.type != self._NEWLINE_INDENT_COMMENT` not found first')
    passthru = [norm(s) for s in guard.body]
    ctx.check(passthru == [f'yield {tok}', 'continue'], rid, 'parser:PostLex.process: pass-through', f'{passthru}',
              f'tokens of other types are not yielded unchanged ({passthru})', fn.where, note='yield token; continue')
    groups: Optional[list[str]] = None
    rest_start = None
    by_index: dict[int, str] = {}
    for i, s in enumerate(lb[1:], 1):
        # one assignment per group: newline_text = match.group(1) ...
        if isinstance(s, ast.Assign) and len(s.targets) == 1 and isinstance(s.targets[0], ast.Name) and isinstance(s.value, (ast.Call, ast.Subscript)):
            v = s.value
            k = None
            if isinstance(v, ast.Call) and norm(v.func).endswith('.group') and len(v.args) == 1 and isinstance(v.args[0], ast.Constant):
                k = v.args[0].value
            elif isinstance(v, ast.Subscript) and isinstance(v.slice, ast.Constant) and isinstance(v.value, ast.Name):
                k = v.slice.value
            if isinstance(k, int) and 1 <= k <= 3:
                by_index[k] = s.targets[0].id
                if sorted(by_index) == [1, 2, 3]:
                    groups = [by_index[1], by_index[2], by_index[3]]
                    rest_start = i + 1
                    break
                continue
        if isinstance(s, ast.Assign) and isinstance(s.targets[0], ast.Tuple) and isinstance(s.value, ast.Call) \
                and norm(s.value.func).endswith('.groups'):
            groups = [norm(e) for e in s.targets[0].elts]
            rest_start = i + 1
            break
        if isinstance(s, ast.Assign) and isinstance(s.value, ast.Call) and norm(s.value.func).endswith('.fullmatch'):
            if norm(s.value.args[0]) != f'{tok}.value':
                raise AnalysisError('POSTLEX-CONS: the split regex is not applied to token.value')
            continue
        if isinstance(s, ast.Assert):
            continue
        raise AnalysisError(f'POSTLEX-CONS: unsupported statement before the split {norm(s)!r}')
    if groups is None or len(groups) != 3 or rest_start is None:
        raise AnalysisError('POSTLEX-CONS: `a, b, c = match.groups()` not found')
    # fullmatch, not match/search: otherwise a suffix could be lost
    fm = [c for c in ast.walk(loop) if isinstance(c, ast.Call) and isinstance(c.func, ast.Attribute) and c.func.attr in ('match', 'search', 'fullmatch')
          and 'SPLIT_RE' in norm(c.func.value)]
    ctx.check(len(fm) == 1 and fm[0].func.attr == 'fullmatch', rid, 'parser:PostLex.process: fullmatch', 'fullmatch',  # type: ignore[union-attr]
              'the split regex is applied with match/search: a trailing part of the lexeme could be dropped', fn.where)
    splitter = lb[rest_start:]
    N, I, C = groups

    def ev_bool(e: ast.AST, env: dict[str, Any]) -> bool:
        if isinstance(e, ast.BoolOp):
            vals = [ev_bool(v, env) for v in e.values]
            return all(vals) if isinstance(e.op, ast.And) else any(vals)
        if isinstance(e, ast.UnaryOp) and isinstance(e.op, ast.Not):
            return not ev_bool(e.operand, env)
        if isinstance(e, ast.Name) and e.id in env:
            return bool(env[e.id])
        raise AnalysisError(f'POSTLEX-CONS: unsupported condition {norm(e)!r}')

    def ev_str(e: ast.AST, env: dict[str, Any]) -> tuple[str, ...]:
        """symbolic value: tuple of group names that are non-empty under the valuation"""
        if isinstance(e, ast.Constant) and e.value == '':
            return ()
        if isinstance(e, ast.Name) and e.id in (N, I, C):
            return (e.id,) if env[e.id] else ()
        if isinstance(e, ast.BinOp) and isinstance(e.op, ast.Add):
            return ev_str(e.left, env) + ev_str(e.right, env)
        raise AnalysisError(f'POSTLEX-CONS: unsupported token value {norm(e)!r}')

    def run(stmts: list[ast.stmt], env: dict[str, Any], out: list[tuple[str, tuple[str, ...]]], in_loop: bool) -> None:
        for s in stmts:
            if isinstance(s, ast.If):
                run(s.body if ev_bool(s.test, env) else s.orelse, env, out, in_loop)
            elif isinstance(s, ast.Assign) and isinstance(s.targets[0], ast.Name) and isinstance(s.value, ast.Constant) \
                    and isinstance(s.value.value, bool) and s.targets[0].id in state_vars:
                env[s.targets[0].id] = s.value.value
            elif isinstance(s, ast.Expr) and isinstance(s.value, ast.Yield) and isinstance(s.value.value, ast.Call):
                c = s.value.value
                fname = norm(c.func)
                # a private forwarding helper: def _h(a, b, c): return lark.Token.new_borrow_pos(a, b, c)
                hname = fname.split('.')[-1] if fname.startswith(('self.', 'cls.', 'PostLex.')) or '.' not in fname else None
                helper = pl.attrs.get(hname) if hname else None
                if isinstance(helper, FuncInfo) and len(c.args) == 3:
                    hp = [a.arg for a in helper.node.args.args if a.arg not in ('self', 'cls')]
                    hb = stmts_no_doc(helper.node.body)
                    if len(hb) == 1 and isinstance(hb[0], ast.Return) and isinstance(hb[0].value, ast.Call) \
                            and norm(hb[0].value.func).endswith('Token.new_borrow_pos') and [norm(a) for a in hb[0].value.args] == hp and len(hp) == 3:
                        fname = 'lark.Token.new_borrow_pos'
                if fname.endswith('Token.new_borrow_pos') and len(c.args) == 3 and in_loop:
                    if norm(c.args[2]) != tok:
                        raise AnalysisError('POSTLEX-CONS: new_borrow_pos does not borrow from the current token')
                    typ, val = c.args[0], c.args[1]
                elif fname.endswith('Token') and len(c.args) == 2:
                    typ, val = c.args[0], c.args[1]
                else:
                    raise AnalysisError(f'POSTLEX-CONS: unsupported yield {norm(s)!r}')
                tname = self_attr(typ)
                if tname not in consts:
                    raise AnalysisError(f'POSTLEX-CONS: token type {norm(typ)!r} is not a PostLex constant')
                out.append((consts[tname], ev_str(val, env)))
            else:
                raise AnalysisError(f'POSTLEX-CONS: unsupported statement {norm(s)!r}')

    cases = 0
    bad: list[str] = []
    reach: set[tuple[bool, ...]] = set()
    for vn, vi, vc in itertools.product([False, True], repeat=3):
        for st in itertools.product([False, True], repeat=len(state_vars)):
            env: dict[str, Any] = {N: vn, I: vi, C: vc}
            env.update(dict(zip(state_vars, st)))
            out: list[tuple[str, tuple[str, ...]]] = []
            run(splitter, env, out, True)
            cases += 1
            want = tuple(x for x, v in ((N, vn), (I, vi), (C, vc)) if v)
            got = tuple(itertools.chain.from_iterable(v for _, v in out))
            label = f'newline={vn} indent={vi} comment={vc} ' + ' '.join(f'{k}={v}' for k, v in zip(state_vars, st))
            if got != want:
                bad.append(f'{label}: yields text {got}, lexeme is {want}')
            for t, v in out:
                if t in zero_width and v:
                    bad.append(f'{label}: zero-width mark {t} carries text {v}')
                if t not in zero_width and not v:
                    bad.append(f'{label}: token {t} yielded with empty text')
                if t == consts['_NEWLINE'] and v != (N,):
                    bad.append(f'{label}: _NEWLINE token carries {v}')
                if t == consts['_BLOCK_COMMENT'] and (C not in v):
                    bad.append(f'{label}: BLOCK_COMMENT without comment text')
                if t == consts['_INDENT'] and v != (I,):
                    bad.append(f'{label}: INDENT token carries {v}')
            reach.add(tuple(env[k] for k in state_vars))
    ctx.check(not bad, rid, 'parser:PostLex.process: splitter', '; '.join(bad[:4]) or f'{cases} valuations',
              '; '.join(bad[:6]), fn.where, note=f'{cases} valuations: text conserved, marks zero-width')
    # epilogue: zero-width only
    ep_bad: list[str] = []
    for st in itertools.product([False, True], repeat=len(state_vars)):
        env = dict(zip(state_vars, st))
        out = []
        # whatever precedes the flush in the epilogue may only bind further state from the line state
        try:
            run([s_ for s_ in post if not (isinstance(s_, ast.Assign) and isinstance(s_.targets[0], ast.Name) and s_.targets[0].id not in state_vars)],
                env, out, False)
        except AnalysisError as ex:
            ep_bad.append(f'the marks emitted at the end of the input depend on something other than the line state '
                          f'({", ".join(state_vars)}): {str(ex).split(": ", 1)[-1]} -- every line that is not a comment line is closed by one EOL, '
                          f'also the last one and whether or not the text ends in a line break; the entry rules of the grammar end in EOL, '
                          f'and a single-entry target relies on "entry + line break" yielding a second EOL that it rejects (otherwise the '
                          f'line break is accepted but lies outside the model, which then prints without it)')
            break
        for t, v in out:
            if v or t not in zero_width:
                ep_bad.append(f'{dict(env)}: flush yields {t} with text {v}')
        want_marks = ([consts['_EOL']] if not env.get('prev_is_block_comment', False) else []) + ([consts['_DEDENT_MARK']] if env.get('indented', False) else [])
        if 'prev_is_block_comment' in env and 'indented' in env and [t for t, _ in out] != want_marks:
            ep_bad.append(f'{dict(env)}: flush yields {[t for t, _ in out]}, the line structure needs {want_marks}')
    ctx.check(not ep_bad, rid, 'parser:PostLex.process: end-of-stream flush', '; '.join(ep_bad)[:200] or 'zero-width',
              '; '.join(ep_bad), fn.where, note='only zero-width marks after the stream: EOL unless a comment line was last, DEDENT_MARK if indented')
    ctx.stats['postlex_valuations'] = cases
    # inline variant passes the stream through untouched
    pli = p.cls('PostLexInline', 'parser')
    f2 = p.method(pli, 'process', inherited=False)
    r = [x for x in walk_no_nested(f2.node) if isinstance(x, ast.Return)]
    ctx.check(len(r) == 1 and norm(r[0].value) == f2.params[1], rid, 'parser:PostLexInline.process', 'identity',
              'PostLexInline.process does not return the stream unchanged', f2.where)


def builder_interp(p: Program, mb: Any) -> tuple[Any, Any, Any, list]:
    """the interpreter class for the methods of ModelBuilder (token classes, TOKEN_MODELS, from_raw_text / from_default are mocks: a built token
    is an object with the type and the text it was built from); shared by BUILDER-CONS and TREE-SEM"""
    from . import possem
    from .tokenstore import TS
    ts = TS(p)
    m = p.module('parser')

    def token_class(name: str) -> Any:
        cands = [c for c in p.class_by_name.get(name, []) if not c.module.name.endswith('_test') and any(d.rsplit('.', 1)[-1] == 'token_model' for d in c.decorators)]
        return cands[0] if len(cands) == 1 else None

    class Interp(possem.PosInterp):
        tag = 'BUILDER-CONS'
        _foreign_methods = True

        def method(self, cls: str, name: str) -> Any:            # type: ignore[override]
            f = mb.lookup(name) if cls == 'ModelBuilder' else None
            if f is None and token_class(cls) is not None:
                f = token_class(cls).lookup(name)
            return f if isinstance(f, FuncInfo) else super().method(cls, name)

        def built(self, c: Any, text: Any) -> Any:
            rule_ = p.class_const(c, 'RULE')
            return possem.Obj('Built', {'type': rule_.value if isinstance(rule_, ast.Constant) else c.name, 'raw_text': text, 'claimed': True}, f'built {c.name}')

        def expr(self, e: Any, env: dict) -> Any:                 # type: ignore[override]
            # a token class named directly (models.BlockComment, or an alias imported into a models module) and its constructors / helpers
            if isinstance(e, ast.Attribute) and isinstance(e.value, ast.Name) and e.value.id == 'models' and 'models' not in env and token_class(e.attr) is not None:
                return possem.ClassRef(e.attr)
            if isinstance(e, ast.Name) and e.id not in env:
                sy_ = getattr(self.mod, 'symbols', {}).get(e.id)
                if type(sy_).__name__ == 'ClassInfo' and token_class(sy_.name) is sy_:
                    return possem.ClassRef(sy_.name)
            if isinstance(e, ast.Call) and isinstance(e.func, ast.Attribute) and e.func.attr in ('from_raw_text', 'from_default') \
                    and not (isinstance(e.func.value, ast.Subscript)):
                try:
                    cv = self.expr(e.func.value, env)
                except AnalysisError:
                    cv = None
                if isinstance(cv, possem.ClassRef) and token_class(cv.name) is not None:
                    c_ = token_class(cv.name)
                    if e.func.attr == 'from_raw_text':
                        return self.built(c_, self.expr(e.args[0], env))
                    d_ = p.class_const(c_, 'DEFAULT')
                    if d_ is None:
                        raise self.err(e, 'from_default() of a class without DEFAULT')
                    return self.built(c_, self.expr(d_, {}))
            if isinstance(e, ast.Subscript) and norm(e.value) in ('models.TOKEN_MODELS', 'TOKEN_MODELS'):
                return possem.Obj('ModelClass', {'type': self.expr(e.slice, env)}, 'model class')
            if isinstance(e, ast.Call) and isinstance(e.func, ast.Attribute) and e.func.attr == 'from_raw_text':
                c = self.expr(e.func.value, env)
                if isinstance(c, possem.Obj) and c.cls == 'ModelClass':
                    return possem.Obj('Built', {'type': c.f['type'], 'raw_text': self.expr(e.args[0], env), 'claimed': True}, 'built')
            if isinstance(e, ast.Name) and e.id not in env and e.id == ignored_name:
                return ignored_types
            if isinstance(e, ast.Call) and norm(e.func) == 'isinstance' and len(e.args) == 2:
                v = self.expr(e.args[0], env)
                t = norm(e.args[1])
                if t.endswith('BlockComment'):
                    return isinstance(v, possem.Obj) and v.cls == 'Built' and v.f['type'] == 'BLOCK_COMMENT'
                raise self.err(e, 'isinstance against a class this rule does not model')
            return super().expr(e, env)

    from .c12 import grammar
    # the module-level set of token types the grammar %ignores (`_IGNORED_TOKENS = frozenset(_GRAMMAR.ignore)`), whatever it is called
    ignored_name = next((t.id for st in ast.walk(m.tree) if isinstance(st, ast.Assign) for t in st.targets if isinstance(t, ast.Name)
                         and isinstance(st.value, ast.Call) and any(isinstance(x, ast.Attribute) and x.attr == 'ignore' for x in ast.walk(st.value))), None)
    ignored_types = list(grammar(p).ignore)
    Interp.token_class = staticmethod(token_class)        # type: ignore[attr-defined]
    return Interp, ts, m, ignored_types


def _gap_sem(p: Program, mb: Any, symbolic: bool = True) -> tuple[str, int]:
    from . import possem
    import itertools
    Interp, ts, m, ignored_types = builder_interp(p, mb)
    fg = p.method(mb, '_fix_gap', inherited=False)
    bt = p.method(mb, '_build_token', inherited=False)
    kinds = {'t': ('ACCOUNT', 'Assets:A'), 'e': ('EOL', ''), 'c': ('BLOCK_COMMENT', '; note'), 'w': ('WHITESPACE', ' '), 'i': ('INDENT', '  '), 'j': ('INDENT', '')}
    cases = 0
    def concrete_pass(full: bool = False) -> Optional[str]:
        nonlocal cases
        # the same gap filling on concrete texts: whatever _fix_gap builds for a lexer token (one model, or several through a helper of the token
        # class), the texts of what it builds, in order, are the text of that token -- every character, carriage returns included
        ckinds = {'t': ('ACCOUNT', 'Assets:A'), 'e': ('EOL', ''), 'w': ('WHITESPACE', ' '), 'n': ('_NEWLINE', '\r\n'),
                  'c': ('BLOCK_COMMENT', '; a'), 'd': ('BLOCK_COMMENT', '  ; a\n    ; b'), 'f': ('BLOCK_COMMENT', '  ; a\r\n    ; b\r\n  ;c'),
                  'g': ('BLOCK_COMMENT', '\t; a\n\t; b'), 'h': ('BLOCK_COMMENT', '  ;\r\r\n   ; b')}
        for k in range(1, 4):
            for seq in itertools.product(ckinds, repeat=k):
                if k == 3 and sum(1 for ch in seq if ch in 'cdfgh') != 1:
                    continue
                toks = [possem.Obj('LarkToken', {'type': ckinds[ch][0], 'value': ckinds[ch][1]}, f'{i}:{ch}') for i, ch in enumerate(seq)]
                for cursor, target in ([(0, k)] if not full else [(a, b) for a in range(k + 1) for b in range(a, k + 1)]):
                    me = possem.Obj('ModelBuilder', {'_tokens': list(toks), '_built_tokens': [], '_cursor': cursor,
                                                     '_token_to_index': {id(t): i for i, t in enumerate(toks)}}, 'builder')
                    cases += 1
                    try:
                        Interp(ts, [], module=m).call_function(fg, [me, target], {})
                    except possem.Raised as ex:
                        return f'lexer tokens {[ckinds[ch][1] for ch in seq]}: _fix_gap raises {ex}'
                    want_text = ''.join(ckinds[ch][1] for ch in seq[cursor:target])
                    texts = [b.f.get('raw_text') if isinstance(b, possem.Obj) else None for b in me.f['_built_tokens']]
                    if any(not isinstance(x, str) for x in texts) or ''.join(texts) != want_text:
                        return (f'lexer tokens with the texts {[ckinds[ch][1] for ch in seq[cursor:target]]}: _fix_gap builds tokens with the texts {texts}, which read '
                                f'{"".join(x for x in texts if isinstance(x, str))!r} -- not the {want_text!r} of the input: a character of the gap is lost or changed')
                    if any(isinstance(b, possem.Obj) and b.f.get('type') == 'BLOCK_COMMENT' and b.f.get('claimed') for b in me.f['_built_tokens']):
                        return 'a block comment from a gap is materialised as already claimed'
                    if me.f['_cursor'] != target:
                        return f'_fix_gap({target}) leaves the cursor at {me.f["_cursor"]!r}'
        return None

    cp = concrete_pass(full=not symbolic)
    if cp or not symbolic:
        return cp or '', cases
    # _build_indent: the indent of an indented child is the next token with text, line breaks / comments / blanks (the %ignore'd types) aside;
    # a token of the model itself in front of it means there is no indent -- it must not be jumped over
    bi = mb.lookup('_build_indent')
    if isinstance(bi, FuncInfo):
        for k in range(0, 5):
            for seq in itertools.product('tecwij', repeat=k):
                toks = [possem.Obj('LarkToken', {'type': kinds[ch][0], 'value': possem.StrSym(f'v{i}', False) if kinds[ch][1] else ''}, f'{i}:{ch}')
                        for i, ch in enumerate(seq)]
                for cursor in range(0, k + 1):
                    me = possem.Obj('ModelBuilder', {'_tokens': list(toks), '_built_tokens': [], '_cursor': cursor,
                                                     '_token_to_index': {id(t): i for i, t in enumerate(toks)}}, 'builder')
                    cases += 1
                    want_i = None
                    for i in range(cursor, k):
                        ch = seq[i]
                        if kinds[ch][1] == '':
                            continue
                        if ch == 'i':
                            want_i = i
                            break
                        if kinds[ch][0] in ignored_types:
                            continue
                        break
                    shown = f'tokens {"".join(seq) or "-"} (t model token, e zero-width mark, c comment, w blank, i indent, j empty indent), cursor {cursor}'
                    try:
                        res = Interp(ts, [], module=m).call_function(bi, [me], {})
                        raised = False
                    except possem.Raised:
                        res, raised = None, True
                    if want_i is None:
                        if not raised:
                            return (f'{shown}: _build_indent does not refuse although a token of the model itself (or nothing) comes before any indent; '
                                    f'it builds {len(me.f["_built_tokens"])} token(s) and moves on, so lexer tokens are materialised out of order / twice'), cases
                        if me.f['_built_tokens']:
                            return f'{shown}: _build_indent refuses after having materialised {len(me.f["_built_tokens"])} token(s)', cases
                        continue
                    if raised:
                        return f'{shown}: _build_indent refuses although the next token with text (ignored types aside) is an indent', cases
                    want = [(t.f['type'], id(t.f['value'])) for t in toks[cursor:want_i + 1] if t.f['value'] != '']
                    got = [(b.f['type'], id(b.f['raw_text'])) for b in me.f['_built_tokens']]
                    if got != want or me.f['_cursor'] != want_i + 1 or not (me.f['_built_tokens'] and res is me.f['_built_tokens'][-1]):
                        return (f'{shown}: _build_indent materialises {len(got)} token(s) and leaves the cursor at {me.f["_cursor"]!r}; expected the '
                                f'{len(want)} token(s) with text up to the indent at {want_i}, cursor {want_i + 1}, returning the indent'), cases
    kinds = {'t': ('ACCOUNT', 'Assets:A'), 'e': ('EOL', ''), 'c': ('BLOCK_COMMENT', '; note'), 'w': ('WHITESPACE', ' ')}
    for k in range(0, 5):
        for seq in itertools.product('tecw', repeat=k):
            # texts of unknown length: a token with text is an abstract string whose length is a positive symbol, so a test on the
            # length (or anything else the symbols do not decide) forks the evaluation
            toks = [possem.Obj('LarkToken', {'type': kinds[ch][0], 'value': possem.StrSym(f'v{i}', False) if kinds[ch][1] else ''}, f'{i}:{ch}')
                    for i, ch in enumerate(seq)]
            for cursor in range(0, k + 1):
                for target in range(cursor, k + 1):
                    script: list[int] = []
                    while True:
                        me = possem.Obj('ModelBuilder', {'_tokens': list(toks), '_built_tokens': [], '_cursor': cursor,
                                                         '_token_to_index': {id(t): i for i, t in enumerate(toks)}}, 'builder')
                        cases += 1
                        it = Interp(ts, script, module=m)
                        try:
                            it.call_function(fg, [me, target], {})
                        except possem.Raised as ex:
                            return f'tokens {"".join(seq) or "-"}, cursor {cursor}, gap up to {target}: raises {ex}', cases
                        want = [(t.f['type'], id(t.f['value'])) for t in toks[cursor:target] if t.f['value'] != '']
                        got = [(b.f['type'], id(b.f['raw_text'])) for b in me.f['_built_tokens']]
                        if got != want:
                            decided = '; '.join(f'{lab} -> {"yes" if c else "no"}' for c, _, lab in it.taken)
                            return (f'tokens {"".join(seq)} (t text, e zero-width mark, c block comment, w blank), cursor {cursor}, gap up to {target}'
                                    f'{" [when " + decided + "]" if decided else ""}: materialises {len(got)} token(s), the lexer tokens with text in '
                                    f'that range are {len(want)} -- a token with text is dropped, duplicated or built from another text'), cases
                        if me.f['_cursor'] != target:
                            return f'_fix_gap({target}) leaves the cursor at {me.f["_cursor"]!r}', cases
                        if any(b.f['type'] == 'BLOCK_COMMENT' and b.f['claimed'] for b in me.f['_built_tokens']):
                            return 'a block comment from a gap is materialised as already claimed', cases
                        taken = it.taken
                        while taken and taken[-1][0] + 1 >= taken[-1][1]:
                            taken = taken[:-1]
                        if not taken:
                            break
                        script = [c for c, _, _ in taken[:-1]] + [taken[-1][0] + 1]
            # _build_token for every token with text
            for i, t in enumerate(toks):
                if t.f['value'] == '':
                    continue
                for cursor in range(0, i + 1):
                    me = possem.Obj('ModelBuilder', {'_tokens': list(toks), '_built_tokens': [], '_cursor': cursor,
                                                     '_token_to_index': {id(x): j for j, x in enumerate(toks)}}, 'builder')
                    cases += 1
                    try:
                        res = Interp(ts, [], module=m).call_function(bt, [me, t], {})
                    except possem.Raised as ex:
                        return f'_build_token(token {i}) with the cursor at {cursor}: raises {ex}', cases
                    want = [(x.f['type'], id(x.f['value'])) for x in toks[cursor:i + 1] if x.f['value'] != '']
                    got = [(b.f['type'], id(b.f['raw_text'])) for b in me.f['_built_tokens']]
                    if got != want or me.f['_cursor'] != i + 1 or not (me.f['_built_tokens'] and res is me.f['_built_tokens'][-1]):
                        return (f'tokens {"".join(seq)}, _build_token(token {i}) with the cursor at {cursor}: materialises {got} and leaves the cursor at '
                                f'{me.f["_cursor"]!r}; expected {want}, cursor {i + 1}, returning the last built token'), cases
    return '', cases


# ------------------------------------------------------------------ BUILDER-CONS
def rule_builder_cons(ctx: RuleContext, p: Program, rid: str) -> None:
    ctx.rule(rid, 'ModelBuilder: _built_tokens is append-only; _fix_gap materialises every token between the cursor and its argument '
                  'that has text (the only skip is `not token.value`) and moves the cursor there; _build_token fills the gap up to '
                  'its token, appends it and advances the cursor by one; _build_indent takes the next token with text (ignored types aside) if it is '
                  'an indent and refuses otherwise, without having built anything; build() fills the final gap before the single insertion of '
                  'the whole list at the start of its own store')
    mb = p.cls('ModelBuilder', 'parser')
    site = 'parser:ModelBuilder'
    # append-only
    bad = []
    n_mut = 0
    for f in mb.methods():
        for n in walk_no_nested(f.node):
            if isinstance(n, ast.Call) and isinstance(n.func, ast.Attribute) and self_attr(n.func.value) == '_built_tokens':
                n_mut += 1
                if n.func.attr not in ('append', 'extend'):
                    bad.append(f'{f.name}: {norm(n)[:60]}')
            tg = n.targets if isinstance(n, ast.Assign) else [n.target] if isinstance(n, (ast.AugAssign, ast.AnnAssign)) else \
                n.targets if isinstance(n, ast.Delete) else []
            for t in tg:
                b = t
                while isinstance(b, ast.Subscript):
                    b = b.value
                if self_attr(b) == '_built_tokens' and f.name != '__init__':
                    bad.append(f'{f.name}: {norm(n)[:60]}')
    ctx.check(not bad and n_mut >= 2, rid, f'{site}: _built_tokens append-only', '; '.join(bad) or f'{n_mut} appends',
              f'_built_tokens is modified other than by append/extend: {bad}', mb.where, note=f'{n_mut} append/extend sites')
    # cursor writers
    cur_writes = []
    for f in mb.methods():
        for n in walk_no_nested(f.node):
            if isinstance(n, (ast.Assign, ast.AugAssign)):
                t = n.targets[0] if isinstance(n, ast.Assign) else n.target
                if self_attr(t) == '_cursor':
                    cur_writes.append((f.name, norm(n)))
    fg = p.method(mb, '_fix_gap', inherited=False)
    arg = fg.params[1]
    want = {('__init__', 'self._cursor = 0'), ('_fix_gap', f'self._cursor = {arg}'), ('_build_token', 'self._cursor += 1')}
    ctx.check(set(cur_writes) == want, rid, f'{site}: cursor writers', f'{sorted(cur_writes)}',
              f'_cursor is written by {sorted(cur_writes)}, expected {sorted(want)}', mb.where, note=f'{sorted(cur_writes)}')
    # _fix_gap and _build_token, interpreted against a mock builder
    try:
        problem, cases = _gap_sem(p, mb)
    except AnalysisError as ex_:
        if 'unsupported' not in str(ex_):
            raise
        # the pass over texts of unknown length met something it cannot do with an abstract text (a helper that splits the text of a token):
        # the same family of token lists, cursors and targets is evaluated on concrete texts only
        problem, cases = _gap_sem(p, mb, symbolic=False)
    ctx.check(not problem, rid, f'{site}._fix_gap / _build_token', problem or 'ok',
              f'_fix_gap / _build_token interpreted on lexer-token lists of up to 4 tokens (with text, without text, block comments), every cursor '
              f'position and every target: {problem}', fg.where,
              note=f'{cases} cases: every token with text in [cursor, target) is materialised exactly once, in order, from its own type and text; '
                   f'_build_token then adds its token and steps over it')
    init = p.method(mb, '__init__', inherited=False)
    idx = [a for a in walk_no_nested(init.node) if isinstance(a, ast.Assign) and self_attr(a.targets[0]) == '_token_to_index']
    ok = len(idx) == 1 and isinstance(idx[0].value, ast.DictComp) and 'enumerate(' in norm(idx[0].value) and norm(idx[0].value.key).startswith('id(')
    ctx.check(ok, rid, f'{site}.__init__: token index', norm(idx[0].value)[:80] if idx else '', 'token index is not {id(token): position}', init.where)
    # build()
    bd = p.method(mb, 'build', inherited=False)
    order = []
    for s in stmts_no_doc(bd.node.body):
        for c in ast.walk(s):
            if isinstance(c, ast.Call):
                if self_attr(c.func) == '_fix_gap':
                    order.append(('gap', norm(c.args[0])))
                elif isinstance(c.func, ast.Attribute) and c.func.attr in ('insert_after', 'insert_before', 'splice') \
                        and self_attr(c.func.value) == '_token_store':
                    order.append(('insert', c.func.attr + '|' + '|'.join(norm(a) for a in c.args)))
                elif self_attr(c.func) == '_build_tree':
                    order.append(('tree', ''))
    ok = order == [('tree', ''), ('gap', 'len(self._tokens)'), ('insert', 'insert_after|None|self._built_tokens')]
    ctx.check(ok, rid, f'{site}.build', f'{order}', f'build() does {order}; expected tree, final gap fill up to len(tokens), one '
              f'insert_after(None, _built_tokens)', bd.where, note='tree -> final gap -> single insertion')


def rule_parse_feed(ctx: RuleContext, p: Program, rid: str) -> None:
    ctx.rule(rid, 'Parser._parse records every token produced by the lexer (before deciding whether to feed it to the parser) and '
                  'hands exactly that list to the ModelBuilder')
    pc = p.cls('Parser', 'parser')
    f = p.method(pc, '_parse', inherited=False)
    loops = [l for l in walk_no_nested(f.node) if isinstance(l, ast.For)]
    ok = False
    lst = None
    if len(loops) == 1:
        first = loops[0].body[0]
        if isinstance(first, ast.Expr) and isinstance(first.value, ast.Call) and isinstance(first.value.func, ast.Attribute) \
                and first.value.func.attr == 'append' and norm(first.value.args[0]) == norm(loops[0].target):
            lst = norm(first.value.func.value)
            ok = True
    ret = [r for r in walk_no_nested(f.node) if isinstance(r, ast.Return)]
    ok = ok and len(ret) == 1 and f'ModelBuilder({lst})' in norm(ret[0].value)
    ctx.check(ok, rid, 'parser:Parser._parse', 'record-all', 'a lexer token can be fed or dropped without being recorded for the '
              'model builder', f.where, note='tokens.append(token) first in the loop; ModelBuilder(tokens)')


def rule_print_all(ctx: RuleContext, p: Program, rid: str) -> None:
    """finite-domain evaluation of print_model and RawModel.tokens against mock models / stores"""
    from . import possem
    from .tokenstore import TS
    ctx.rule(rid, 'print_model, interpreted on mock models of 0..6 tokens (the sixth text an instance of a str subclass whose str() is not its '
                  'characters), writes the characters of raw_text of every element of model.tokens to the file, in order and nothing else, and '
                  'returns the file; RawModel.tokens, interpreted against a mock store, is the list of the store '
                  'range first_token..last_token (the empty list only when the model has no store or no tokens)')
    ts = TS(p)
    f = p.func('printer', 'print_model')
    pm = p.module('printer')

    class Interp(possem.PosInterp):
        tag = 'PRINT-ALL'

        def __init__(self, mod: Any) -> None:
            super().__init__(ts, [], module=mod)
            self.written: list = []
            self.ranges: list = []

        def expr(self, e: Any, env: dict) -> Any:                 # type: ignore[override]
            if isinstance(e, ast.Call) and isinstance(e.func, ast.Attribute):
                bv = self.expr(e.func.value, env) if not (isinstance(e.func.value, ast.Name) and e.func.value.id not in env) else None
                if isinstance(bv, possem.Obj) and bv.cls == 'File' and e.func.attr in ('write', 'writelines'):
                    args = [self.expr(a, env) for a in e.args]
                    self.written.extend(_chars(x) for x in ([args[0]] if e.func.attr == 'write' else list(self.iter_of(args[0], e))))
                    return None
                if isinstance(bv, possem.Obj) and bv.cls == 'Store' and e.func.attr in ('get_first', 'get_last') and not e.args:
                    al = bv.f['all']
                    return (al[0] if e.func.attr == 'get_first' else al[-1]) if al else None
                if isinstance(bv, possem.Obj) and bv.cls == 'Store' and e.func.attr == 'iter':
                    args = [self.expr(a, env) for a in e.args]
                    self.ranges.append(tuple(args))
                    return list(bv.f['span']) if len(args) == 2 and args[0] is bv.f['span'][0] and args[1] is bv.f['span'][-1] else ['<wrong range>']
            if isinstance(e, ast.Call) and isinstance(e.func, ast.Attribute) and e.func.attr == 'join' and isinstance(e.func.value, ast.Constant):
                return e.func.value.value.join(_chars(x) for x in self.iter_of(self.expr(e.args[0], env), e))
            if isinstance(e, ast.Call) and isinstance(e.func, ast.Name) and e.func.id in ('print', 'str', 'format', 'repr') and e.func.id not in env:
                args: list = []
                for a in e.args:
                    if isinstance(a, ast.Starred):
                        args.extend(self.iter_of(self.expr(a.value, env), e))
                    else:
                        args.append(self.expr(a, env))
                kw = {k.arg: self.expr(k.value, env) for k in e.keywords if k.arg}
                if e.func.id == 'print':
                    # the builtin: str() of every argument, joined by sep, followed by end, written to file
                    out = kw.get('file')
                    if not (isinstance(out, possem.Obj) and out.cls == 'File'):
                        raise possem.Raised('print() without file=: the text goes to the standard output, not to the file given')
                    sep = ' ' if kw.get('sep') is None else kw['sep']
                    end = '\n' if kw.get('end') is None else kw['end']
                    self.written.append(sep.join(_str_of(x) for x in args) + end)
                    return None
                if e.func.id in ('str', 'format') and len(args) >= 1 and (len(args) == 1 or args[1] == ''):
                    return _str_of(args[0])
                if e.func.id == 'repr' and len(args) == 1 and isinstance(args[0], str):
                    return repr(args[0])
            if isinstance(e, ast.Attribute) and not (isinstance(e.value, ast.Name) and e.value.id not in env):
                b_ = self.expr(e.value, env)
                if isinstance(b_, possem.Obj) and b_.cls == 'StrSub' and not e.attr.startswith('_') and hasattr(str, e.attr):
                    return getattr(b_.f['chars'], e.attr)          # the str methods of a subclass instance work on its characters
            if isinstance(e, ast.JoinedStr):
                out_s = ''
                for part in e.values:
                    if isinstance(part, ast.Constant):
                        out_s += part.value
                    elif isinstance(part, ast.FormattedValue) and part.format_spec is None and part.conversion in (-1, 115):
                        out_s += _str_of(self.expr(part.value, env))
                    else:
                        return super().expr(e, env)
                return out_s
            if isinstance(e, ast.BinOp) and isinstance(e.op, ast.Add):
                a, b = self.expr(e.left, env), self.expr(e.right, env)
                if (isinstance(a, possem.Obj) and a.cls == 'StrSub') or (isinstance(b, possem.Obj) and b.cls == 'StrSub'):
                    if isinstance(a, (str, possem.Obj)) and isinstance(b, (str, possem.Obj)):
                        return _chars(a) + _chars(b)
            return super().expr(e, env)

        def truth(self, v: Any, node: Any) -> bool:               # type: ignore[override]
            if isinstance(v, possem.Obj) and v.cls == 'Store':
                return bool(v.f['all'])
            if isinstance(v, possem.Obj) and v.cls == 'StrSub':
                return bool(v.f['chars'])
            if isinstance(v, possem.Obj):
                return True
            return super().truth(v, node)

    def _chars(x: Any) -> Any:
        return x.f['chars'] if isinstance(x, possem.Obj) and x.cls == 'StrSub' else x

    def _str_of(x: Any) -> str:
        if isinstance(x, possem.Obj) and x.cls == 'StrSub':
            return x.f['str']
        if isinstance(x, str):
            return x
        raise AnalysisError(f'PRINT-ALL: str() of {x!r}')

    problem = ''
    for k in range(0, 6):
        # the last text is an instance of a str subclass whose __str__ is not its characters (a str-mixin enum member, which the identity-
        # formatted token classes store as given): write(), join and + take the characters, print(), str() and f-strings take __str__
        sub = possem.Obj('StrSub', {'chars': 'Assets:Cash', 'str': 'Acct.CASH'}, "a str-subclass text 'Assets:Cash' whose str() is 'Acct.CASH'")
        texts = ['t0;', ' ', '\n', '', 't4', sub][:k + 1] if k else []
        toks = [possem.Obj('Tok', {'raw_text': tx}, f'tok{i}') for i, tx in enumerate(texts)]
        store_ = possem.Obj('Store', {'all': list(toks), 'span': list(toks) or [None]}, 'store')
        model = possem.Obj('Model', {'tokens': toks, 'token_store': store_ if toks else None, '_token_store': store_ if toks else None,
                                     'first_token': toks[0] if toks else None, 'last_token': toks[-1] if toks else None}, 'model')
        out = possem.Obj('File', {}, 'file')
        it = Interp(pm)
        try:
            res = it.call_function(f, [model, out], {})
        except possem.Raised as ex:
            problem = problem or f'{k} tokens: raises {ex}'
            continue
        if ''.join(it.written) != ''.join(_chars(t.f['raw_text']) for t in toks):
            problem = problem or f'{k} tokens: writes {it.written}, the tokens read {[_chars(t.f["raw_text"]) for t in toks]}' + (
                " (the last text is an instance of a str subclass whose str() is 'Acct.CASH': print(), str() and f-strings do not write its characters)"
                if k == 5 else '')
        elif res is not out:
            problem = problem or 'does not return the file it was given'
    # a token model that lives in no store (what parse_token / from_raw_text / from_value return): its `tokens` is the token itself
    lone = possem.Obj('Tok', {'raw_text': '2000-01-01', 'token_store': None, '_token_store': None}, 'lone token')
    lone.f.update({'tokens': [lone], 'first_token': lone, 'last_token': lone})
    out = possem.Obj('File', {}, 'file')
    it = Interp(pm)
    try:
        it.call_function(f, [lone, out], {})
        if ''.join(it.written) != '2000-01-01':
            problem = problem or (f'a token model outside any store (parse_token, from_raw_text, from_value) prints {"".join(it.written)!r} instead of '
                                  f'its text: model.tokens is the token itself there, a store range is not')
    except possem.Raised as ex:
        problem = problem or f'a token model outside any store: raises {ex}'
    ctx.check(not problem, rid, 'printer:print_model', 'writes every token', f'print_model: {problem}', f.where, note='mock models of 0..3 tokens and a lone token')
    rm = p.cls('RawModel', 'models.base')
    t = p.method(rm, 'tokens', inherited=False)
    bm = p.module('models.base')
    problem = ''
    for has_store, n_all, span in ((False, 0, 0), (True, 0, 0), (True, 3, 1), (True, 3, 3), (True, 4, 2)):
        alltoks = [possem.Obj('Tok', {'raw_text': f't{i}'}, f'tok{i}') for i in range(n_all)]
        sp = alltoks[1:1 + span] if span < n_all else alltoks[:span]
        store = possem.Obj('Store', {'all': alltoks, 'span': sp or [None]}, 'store') if has_store else None
        me = possem.Obj('Model', {'token_store': store, '_token_store': store, 'first_token': sp[0] if sp else None, 'last_token': sp[-1] if sp else None}, 'model')
        it = Interp(bm)
        try:
            res = it.call_function(t, [me], {})
        except possem.Raised as ex:
            problem = problem or f'raises {ex}'
            continue
        want = list(sp) if has_store and sp else []
        if not isinstance(res, list) or [id(x) for x in res] != [id(x) for x in want]:
            problem = problem or (f'store {"of " + str(n_all) + " tokens" if has_store else "absent"}, model spanning {span}: returns '
                                  f'{[getattr(x, "label", x) for x in res] if isinstance(res, list) else res!r}, expected the {len(want)} tokens of the span')
    ctx.check(not problem, rid, 'models.base:RawModel.tokens', 'store range first..last', f'RawModel.tokens: {problem}', t.where, note='5 mock models')


def run(ctx: RuleContext, p: Program) -> None:
    ctx.try_rule(rule_postlex_cons, p, 'POSTLEX-CONS')
    ctx.try_rule(grammar_rules.rule_gram_split, p, 'GRAM-SPLIT')
    ctx.try_rule(grammar_rules.rule_gram_reg, p, 'GRAM-REG')
    from ..fieldmodel import build_tree_classes
    ctx.try_rule(grammar_rules.rule_gram_fields, p, build_tree_classes(p), 'GRAM-FIELDS')
    ctx.try_rule(rule_builder_cons, p, 'BUILDER-CONS')
    ctx.try_rule(rule_parse_feed, p, 'PARSE-FEED')
    ctx.try_rule(rule_print_all, p, 'PRINT-ALL')
    from . import round4
    ctx.try_rule(round4.rule_text_verbatim, p, 'TEXT-VERBATIM')
    from . import c12
    ctx.try_rule(c12.rule_gram_look, p, c12.grammar(p), 'GRAM-LOOK')
    from . import treesem
    ctx.try_rule(treesem.rule_tree_sem, p, 'TREE-SEM')
    ctx.try_rule(treesem.rule_reg_sem, p, 'REG-SEM')
    ctx.not_decided += ['that lark accepts a given text', 'that the LALR tree\'s leaves are visited in token order', 'CR/LF layouts',
                        'comment attribution effects (C04/C14)', 'spans of sub-models']
    ctx.assumptions += ['lark lexers emit tokens whose values concatenate to the input (contextual lexer, no %ignore left after '
                        '_GRAMMAR.ignore.clear())', 'TokenStore.insert_after(None, list) preserves order (C07)']
