"""Shared facts about the repeated-field wrappers (used by C03, C05, C10, C19)."""
from __future__ import annotations

import ast
from typing import Any, Iterable, Optional

from ..model import AnalysisError, ClassInfo, FuncInfo, Program, dotted, norm, self_attr, stmts_no_doc, walk_no_nested
from ..walker import Walker

LIST_MUTATORS = {'append', 'extend', 'insert', 'pop', 'remove', 'clear', 'sort', 'reverse'}


def repeated_attrs(p: Program, c: ClassInfo) -> set[str]:
    """self attributes of class `c` that hold a Repeated (by __init__ parameter annotation)."""
    out: set[str] = set()
    for k in c.mro:
        init = k.attrs.get('__init__')
        if not isinstance(init, FuncInfo):
            continue
        ann = {a.arg: norm(a.annotation) for a in [*init.node.args.args, *init.node.args.kwonlyargs] if a.annotation}
        for st in walk_no_nested(init.node):
            if isinstance(st, ast.Assign) and isinstance(st.value, ast.Name) and st.value.id in ann \
                    and 'Repeated[' in ann[st.value.id].replace('repeated.Repeated', 'Repeated'):
                a = self_attr(st.targets[0])
                if a:
                    out.add(a)
    return out


def items_of(e: ast.AST, rattrs: set[str]) -> bool:
    """`self.<repeated attr>.items`"""
    return isinstance(e, ast.Attribute) and e.attr == 'items' and self_attr(e.value) in rattrs


class ItemsMutation:
    def __init__(self, kind: str, node: ast.AST, args: list[ast.AST]) -> None:
        self.kind = kind       # setitem | setslice | insert | append | extend | pop | clear | assign_all | del
        self.node = node
        self.args = args


def items_mutation(ev: tuple[Any, ...], rattrs: set[str]) -> Optional[ItemsMutation]:
    if ev[0] == 'store':
        t = ev[1]
        if isinstance(t, ast.Subscript) and items_of(t.value, rattrs):
            if isinstance(t.slice, ast.Slice):
                if t.slice.lower is None and t.slice.upper is None and t.slice.step is None:
                    return ItemsMutation('assign_all', t, [ev[2]])
                return ItemsMutation('setslice', t, [t.slice, ev[2]])
            # `items[slice_from_range(r)] = values`
            if isinstance(t.slice, ast.Call) and (dotted(t.slice.func) or '').endswith('slice_from_range'):
                return ItemsMutation('setslice', t, [t.slice, ev[2]])
            return ItemsMutation('setitem', t, [t.slice, ev[2]])
    if ev[0] == 'del':
        t = ev[1]
        if isinstance(t, ast.Subscript) and items_of(t.value, rattrs):
            return ItemsMutation('del', t, [t.slice])
    if ev[0] == 'eval' and isinstance(ev[1], ast.Call) and isinstance(ev[1].func, ast.Attribute) \
            and items_of(ev[1].func.value, rattrs) and ev[1].func.attr in LIST_MUTATORS:
        return ItemsMutation(ev[1].func.attr, ev[1], list(ev[1].args))
    return None


def wrapper_classes(p: Program) -> list[ClassInfo]:
    base = p.cls('RepeatedNodeWrapper', 'models.internal.properties')
    return [base, *base.all_subclasses()]


def functions_mutating_items(p: Program) -> list[tuple[FuncInfo, set[str]]]:
    out: list[tuple[FuncInfo, set[str]]] = []
    for c in p.classes:
        if c.name == 'Repeated':
            continue
        ra = repeated_attrs(p, c)
        if not ra:
            continue
        for f in c.methods():
            if f.kind == 'overload':
                continue
            hit = False
            def tr(s: int, ev: tuple[Any, ...]) -> Iterable[int]:
                nonlocal hit
                if items_mutation(ev, ra):
                    hit = True
                return [s]
            Walker(tr).run(stmts_no_doc(f.node.body), [0])
            if hit:
                out.append((f, ra))
    return out


# -------------------------------------------------------------------- sign analysis
def nonneg(e: ast.AST, known: frozenset[str], ranges: set[str]) -> bool:
    if isinstance(e, ast.Constant):
        return isinstance(e.value, int) and e.value >= 0
    if isinstance(e, ast.Name):
        return e.id in known
    if isinstance(e, ast.Call):
        f = dotted(e.func) or ''
        if f == 'len':
            return True
        if f == 'max':
            return any(nonneg(a, known, ranges) for a in e.args)
        if f == 'min':
            return all(nonneg(a, known, ranges) for a in e.args)
        if f in ('abs',):
            return True
        return False
    if isinstance(e, ast.Attribute) and e.attr in ('start', 'stop') and isinstance(e.value, ast.Name) \
            and e.value.id in ranges:
        return True
    if isinstance(e, ast.Attribute) and e.attr in ('start', 'stop') and isinstance(e.value, ast.Call) \
            and (dotted(e.value.func) or '').endswith('range_from_index'):
        return True
    if isinstance(e, ast.Subscript) and isinstance(e.value, ast.Call) and (dotted(e.value.func) or '') == 'range':
        return True   # range(n)[i] raises for an out-of-range i and yields a value in [0, n)
    if isinstance(e, ast.Subscript) and isinstance(e.value, ast.Name) and e.value.id in ranges and not isinstance(e.slice, ast.Slice):
        return True   # an element of a normalised range, whichever way it is picked
    if isinstance(e, ast.BinOp) and isinstance(e.op, (ast.Add, ast.Mult)):
        return nonneg(e.left, known, ranges) and nonneg(e.right, known, ranges)
    if isinstance(e, ast.IfExp):
        kb, ko = known, known
        t = e.test
        if isinstance(t, ast.Compare) and len(t.ops) == 1 and isinstance(t.left, ast.Name) \
                and isinstance(t.comparators[0], ast.Constant) and t.comparators[0].value == 0:
            if isinstance(t.ops[0], ast.Lt):
                ko = known | {t.left.id}
            elif isinstance(t.ops[0], ast.GtE):
                kb = known | {t.left.id}
        return nonneg(e.body, kb, ranges) and nonneg(e.orelse, ko, ranges)
    return False


def range_names(fn: FuncInfo) -> set[str]:
    """names bound to `range_from_index(...)` / `range(...)[...]` results (normalised, step-1 use is the caller's guard)"""
    out: set[str] = set()
    for n in walk_no_nested(fn.node):
        if isinstance(n, ast.Assign) and isinstance(n.targets[0], ast.Name) and isinstance(n.value, ast.Call) \
                and (dotted(n.value.func) or '').endswith('range_from_index'):
            out.add(n.targets[0].id)
    return out


def sign_transfer(ranges: set[str]):  # type: ignore[no-untyped-def]
    """Walker transfer piece: state component = frozenset of names known to be >= 0."""
    def step(known: frozenset[str], ev: tuple[Any, ...]) -> frozenset[str]:
        if ev[0] == 'store' and isinstance(ev[1], ast.Name):
            name = ev[1].id
            v = ev[2]
            if v is not None and not isinstance(v, ast.AugAssign) and nonneg(v, known, ranges):
                return known | {name}
            return known - {name}
        if ev[0] == 'assume':
            t, truth = ev[1], ev[2]
            if isinstance(t, ast.Compare) and len(t.ops) == 1 and isinstance(t.left, ast.Name) \
                    and isinstance(t.comparators[0], ast.Constant) and t.comparators[0].value == 0:
                op = t.ops[0]
                if (isinstance(op, ast.Lt) and not truth) or (isinstance(op, ast.GtE) and truth):
                    return known | {t.left.id}
        if ev[0] == 'iterate':
            tgt = ev[2]
            loop = ev[1]
            # `for i in <range name>` / `for i, v in zip(r, values)`: i is a member of a normalised range
            it = loop.iter
            if isinstance(tgt, ast.Name) and isinstance(it, ast.Name) and it.id in ranges:
                return known | {tgt.id}
            if isinstance(tgt, ast.Tuple) and isinstance(it, ast.Call) and (dotted(it.func) or '') == 'zip' \
                    and it.args and isinstance(it.args[0], ast.Name) and it.args[0].id in ranges \
                    and isinstance(tgt.elts[0], ast.Name):
                return known | {tgt.elts[0].id}
        return known
    return step
