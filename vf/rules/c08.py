"""C08 -- reported positions always match the printed text (structural clauses)."""
from __future__ import annotations

import ast
from typing import Any, Iterable

from ..model import AnalysisError, Program, norm, self_attr, stmts_no_doc, walk_no_nested
from ..report import RuleContext
from ..walker import Walker
from . import tokenstore as T

EXPLANATION = (
    'Static analysis (AST, ownership scan, path walker). Decides necessary conditions of C08: OWN-TEXT (a token\'s text '
    'and cached size are assigned only inside class Token, so every text change goes through _update_raw_text and the '
    'store is told), RAWTEXT-ORD (in _update_raw_text the store is updated with the *new* size before the old '
    'text/size are overwritten, and both are then written on every path), TS-HANDLE (block caches are rebuilt or '
    'incrementally maintained after every token-list mutation), FASTPATH-GUARD (the in-place splice branch, which does '
    'not recompute the column, is guarded by last_newline_index >= end of the replaced range), OWN-STORE (size / '
    'last_newline_index caches are written only in token_store.py). It does NOT decide the incremental arithmetic '
    'inside TokenStore.update or get_position.')


def rule_own_text(ctx: RuleContext, p: Program, ts: T.TS, rid: str) -> None:
    ctx.rule(rid, 'Token._raw_text and Token.size are assigned only inside class Token (so every change of a token\'s '
                  'text goes through _update_raw_text, which notifies the store)')
    n_ok = 0
    for m in p.modules.values():
        for fn in p.functions_in(m):
            if fn.kind == 'overload':
                continue
            for n in walk_no_nested(fn.node):
                tgts: list[ast.AST] = []
                if isinstance(n, ast.Assign):
                    tgts = list(n.targets)
                elif isinstance(n, (ast.AugAssign, ast.AnnAssign)):
                    tgts = [n.target]
                for t in tgts:
                    if not isinstance(t, ast.Attribute):
                        continue
                    if t.attr == '_raw_text' or (t.attr == 'size' and fn.cls is not None and (
                            ts.token in fn.cls.mro) and self_attr(t) is not None):
                        inside = fn.cls is ts.token
                        if inside:
                            n_ok += 1
                            ctx.ok(rid, f'{m.relpath}:{fn.qualname}: {norm(n)}', 'inside class Token')
                        else:
                            ctx.fail(rid, f'{m.name.split(".", 1)[1]}:{fn.qualname}', norm(n),
                                     f'`{norm(n)}` overwrites the token text outside class Token: the cached size and the '
                                     f'store\'s line/column caches are not updated, so positions of this and all later '
                                     f'tokens go stale', f'{m.relpath}:{n.lineno}')
    if n_ok < 3:
        raise AnalysisError(f'OWN-TEXT: only {n_ok} legitimate writers found inside Token (>= 3 confirmed by hand)')


def rule_rawtext_ord(ctx: RuleContext, p: Program, ts: T.TS, rid: str) -> None:
    ctx.rule(rid, 'in Token._update_raw_text: when the token is in a store, store.update(self, <new text>, <new size>) '
                  'runs before _raw_text / size are overwritten; both are written on every path; the size passed is '
                  '_token_size(<new text>)')
    fn = p.method(ts.token, '_update_raw_text')
    value_param = fn.params[1]
    # state: (in_store: None/True/False, updated: bool, wrote_text: bool, wrote_size: bool)
    problems: list[str] = []

    def transfer(s: tuple[Any, ...], ev: tuple[Any, ...]) -> Iterable[tuple[Any, ...]]:
        in_store, updated, wt, wz = s
        if ev[0] == 'assume':
            t = ev[1]
            if self_attr(t) == 'store_handle' or (isinstance(t, ast.Compare) and self_attr(t.left) == 'store_handle'):
                truth = ev[2]
                if isinstance(t, ast.Compare) and isinstance(t.ops[0], ast.Is):
                    truth = not truth
                return [(truth, updated, wt, wz)]
        if ev[0] == 'eval' and isinstance(ev[1], ast.Call) and isinstance(ev[1].func, ast.Attribute) \
                and ev[1].func.attr == 'update' and 'store' in norm(ev[1].func.value):
            if wt or wz:
                problems.append('store.update(...) runs after the old text/size were already overwritten')
            args = [norm(a) for a in ev[1].args]
            if len(args) != 3 or args[0] != 'self' or args[1] != value_param:
                problems.append(f'store.update called with {args}, expected (self, {value_param}, <size>)')
            return [(in_store, True, wt, wz)]
        if ev[0] == 'store' and isinstance(ev[1], ast.Attribute) and self_attr(ev[1]) in ('_raw_text', 'size'):
            if in_store is not False and not updated:
                problems.append(f'{norm(ev[1])} is overwritten before the store is updated on a path where the token may be in a store')
            if self_attr(ev[1]) == '_raw_text':
                if norm(ev[2]) != value_param:
                    problems.append(f'_raw_text is assigned {norm(ev[2])}, not the new text')
                return [(in_store, updated, True, wz)]
            return [(in_store, updated, wt, True)]
        return [s]

    out = Walker(transfer).run(stmts_no_doc(fn.node.body), [(None, False, False, False)])
    for s in out.normal | out.returned:
        if not (s[2] and s[3]):
            problems.append('a normal path ends without writing both _raw_text and size')
        if s[0] is True and not s[1]:
            problems.append('a path where the token is in a store ends without store.update')
    # the size variable is _token_size(new text)
    sz = [n for n in walk_no_nested(fn.node) if isinstance(n, ast.Assign) and isinstance(n.targets[0], ast.Name)
          and isinstance(n.value, ast.Call) and norm(n.value.func) == '_token_size']
    if not sz or norm(sz[0].value.args[0]) != value_param:  # type: ignore[union-attr]
        problems.append('new size is not computed as _token_size(<new text>)')
    ctx.check(not problems, rid, 'token_store:Token._update_raw_text', '; '.join(sorted(set(problems))) or 'ok',
              '; '.join(sorted(set(problems))), fn.where, note='update-before-overwrite on all paths')
    # Token.raw_text setter routes to _update_raw_text
    st = p.method(ts.token, 'raw_text', setter=True)
    calls = [n for n in walk_no_nested(st.node) if isinstance(n, ast.Call) and norm(n.func) == 'self._update_raw_text']
    ctx.check(len(calls) == 1, rid, 'token_store:Token.raw_text[set]', 'routes to _update_raw_text',
              'Token.raw_text setter does not route through _update_raw_text', st.where, note='routes to _update_raw_text')


def rule_fastpath_guard(ctx: RuleContext, p: Program, ts: T.TS, rid: str) -> None:
    ctx.rule(rid, 'a branch that re-handles a block in place without recomputing size.column is control-dependent on '
                  '`<block>.last_newline_index >= <end of the replaced range>` (the replaced range lies before the last newline)')
    found = 0
    for fn in ts.funcs.values():
        for branch in [x for x in walk_no_nested(fn.node) if isinstance(x, ast.If)]:
            loops = [l for l in branch.body if isinstance(l, ast.For) and T._handle_loop(ts, l)
                     and T._loop_covers_from(l) != '']   # loops directly in this branch (innermost guard)
            if not loops:
                continue
            blk = T._handle_loop(ts, loops[0])
            writes = {norm(x.targets[0] if isinstance(x, ast.Assign) else x.target) for st in branch.body
                      for x in ast.walk(st) if isinstance(x, (ast.Assign, ast.AugAssign))}
            if any(w == f'{blk}.size' or w == f'{blk}.size.column' for w in writes):
                continue   # column recomputed here: no guard needed
            found += 1
            # the replaced slice upper bound in the same function
            hi = None
            for n in walk_no_nested(fn.node):
                if isinstance(n, ast.Assign) and isinstance(n.targets[0], ast.Subscript) \
                        and isinstance(n.targets[0].slice, ast.Slice) and norm(n.targets[0].value) == f'{blk}.tokens':
                    hi = norm(n.targets[0].slice.upper) if n.targets[0].slice.upper else None
            conj = branch.test.values if isinstance(branch.test, ast.BoolOp) and isinstance(branch.test.op, ast.And) \
                else [branch.test]
            ok = any(isinstance(c, ast.Compare) and len(c.ops) == 1 and (
                (isinstance(c.ops[0], ast.GtE) and norm(c.left) == f'{blk}.last_newline_index' and norm(c.comparators[0]) == hi)
                or (isinstance(c.ops[0], ast.LtE) and norm(c.comparators[0]) == f'{blk}.last_newline_index' and norm(c.left) == hi)
                or (isinstance(c.ops[0], ast.Gt) and norm(c.left) == f'{blk}.last_newline_index' and norm(c.comparators[0]) == f'{hi} - 1'))
                for c in conj)
            ctx.check(ok, rid, f'token_store:{fn.qualname}: in-place branch', norm(branch.test),
                      f'in-place re-handling of `{blk}` without column recomputation is guarded by `{norm(branch.test)}`, '
                      f'which does not require {blk}.last_newline_index >= {hi}', fn.where, note=norm(branch.test)[:160])
            # size.line must be maintained in that branch with both the removed and the inserted lines
            ctx.check(f'{blk}.size.line' in writes and f'{blk}.last_newline_index' in writes, rid,
                      f'token_store:{fn.qualname}: in-place caches', 'size.line and last_newline_index maintained',
                      f'in-place branch does not maintain {blk}.size.line and {blk}.last_newline_index', fn.where)
    if found < 1:
        raise AnalysisError('FASTPATH-GUARD: the in-place splice branch was not found')


def run(ctx: RuleContext, p: Program) -> None:
    ts = T.TS(p)
    ctx.try_rule(rule_own_text, p, ts, 'OWN-TEXT')
    ctx.try_rule(rule_rawtext_ord, p, ts, 'RAWTEXT-ORD')
    ctx.try_rule(T.rule_ts_handle, ts, 'TS-HANDLE')
    ctx.try_rule(rule_fastpath_guard, p, ts, 'FASTPATH-GUARD')
    ctx.try_rule(T.rule_own_store, ts, 'OWN-STORE')
    from . import storeforms
    ctx.try_rule(storeforms.rule_pos_form, ts, 'POS-FORM')
    from . import tsseq, possem
    ctx.try_rule(possem.rule_pos_sem, ts, 'POS-SEM', 4 if ctx.tier == 'quick' else 6)
    ctx.try_rule(possem.rule_hist_pos, ts, 'POS-HIST')
    ctx.try_rule(tsseq.rule_ts_seq, ts, 'TS-SEQ', 4 if ctx.tier == 'quick' else 6, ['sizes', 'handles', 'refusal'])
    ctx.not_decided += ['incremental line/column arithmetic inside TokenStore.update', 'get_position summation',
                        'equality of reported and recomputed positions over histories']
    ctx.assumptions += ['Python str/list semantics', 'TokenStore.update receives the old size via token.size (checked: '
                        'called before overwrite)']
